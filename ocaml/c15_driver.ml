(* C15 driver.  Case lines (TAB-separated fields):
     A <op> <op> ...                  history through the public Commands API, from Commands::new()
         -> <res> ... <res> <dump>
     F <ext;ext;...> <op> <op> ...    prefix history, then every extension op applied to the state
                                      reached (each on its own copy)
         -> <res> ... <res> <dump> H<hash of all (res,dump) of the extensions>
     P <K> <cmds> <aliases> <sop> ... script-level history from the given (restricted) registry
         -> <sres> <dump> <sres> <dump> ...
   op  : "s NAME [ALIAS ...]" | "g K" | "e K" | "u K" | "n" | "r K"       (space separated)
   sop : "a ARGS..." | "u ARGS..." | "r ARGS..." | "d ARGS..." | "f NAME"
   res : ok | E | N | G<name>/<aliases,> | T | F | L<names,>
   dump: D<name>/<aliases,>;...|<alias>><name>;...      (both maps sorted by key)
   After every set / remove of an A or F case the extracted map-level specification (spec_set,
   spec_remove: proved equal in props/C15.v) is evaluated too; a difference prints SPECDIFF. *)
let toks s = String.split_on_char ' ' s
let comma l = String.concat "," (List.map field_of_str l)
let of_comma s = if s = "" then [] else List.map str_of_field (String.split_on_char ',' s)
let p_op f = match toks f with
  | "s" :: n :: al -> OSet (str_of_field n, List.map str_of_field al)
  | ["g"; k] -> OGet (str_of_field k)
  | ["e"; k] -> OExists (str_of_field k)
  | ["u"; k] -> OGetForUse (str_of_field k)
  | ["n"] -> ONames
  | ["r"; k] -> ORemove (str_of_field k)
  | _ -> failwith ("bad op " ^ f)
let p_sop f = match toks f with
  | "a" :: args -> SAlias (List.map str_of_field args)
  | "u" :: args -> SUnalias (List.map str_of_field args)
  | "r" :: args -> SRemoveCommand (List.map str_of_field args)
  | "d" :: args -> SIsDefined (List.map str_of_field args)
  | ["f"; n] -> SFn (str_of_field n)
  | _ -> failwith ("bad sop " ^ f)
let cmd_s (n, d) = field_of_str n ^ "/" ^ comma d
let res_s = function
  | RSet b -> if b then "ok" else "E"
  | RGet None -> "N"
  | RGet (Some c) -> "G" ^ cmd_s c
  | RBool b -> b2s b
  | RNames l -> "L" ^ comma l
let sres_s = function SOut b -> b2s b | SErr -> "E" | SNone -> "N"
let dump_s r =
  let (cs, al) = reg_dump r in
  "D" ^ String.concat ";" (List.map cmd_s cs) ^ "|"
  ^ String.concat ";" (List.map (fun (a, n) -> field_of_str a ^ ">" ^ field_of_str n) al)
let p_cmds s = if s = "" then [] else List.map (fun e ->
  match String.split_on_char '/' e with
  | [n; d] -> (str_of_field n, of_comma d) | _ -> failwith "bad cmds") (String.split_on_char ';' s)
let p_als s = if s = "" then [] else List.map (fun e ->
  match String.split_on_char '>' e with
  | [a; n] -> (str_of_field a, str_of_field n) | _ -> failwith "bad aliases") (String.split_on_char ';' s)
let hash s =
  let h1 = ref 7 and h2 = ref 11 in
  String.iter (fun c ->
    h1 := (!h1 * 257 + Char.code c) mod 1000000007;
    h2 := (!h2 * 263 + Char.code c) mod 998244353) s;
  Printf.sprintf "H%09d%09d" !h1 !h2
(* one step, with the map-level spec evaluated next to it *)
let step_checked r o =
  let (r', x) = step r o in
  let ok = match o with
    | OSet (n, d) ->
        (match spec_set r n d, x with
         | None, RSet false -> dump_s r' = dump_s r
         | Some r2, RSet true -> dump_s r2 = dump_s r'
         | _ -> false)
    | ORemove k ->
        let (r2, b) = spec_remove r k in
        (match x with RBool b' -> b = b' && dump_s r2 = dump_s r' | _ -> false)
    | _ -> true in
  (r', if ok then res_s x else "SPECDIFF:" ^ res_s x)
let run_hist ops =
  let r = ref reg_new in
  let out = List.map (fun f -> let (r', s) = step_checked !r (p_op f) in r := r'; s) ops in
  (!r, out)
let () = iter_lines (fun line ->
  match fields line with
  | "A" :: ops ->
      let (r, out) = run_hist ops in
      print_endline (String.concat "\t" (out @ [dump_s r]))
  | "F" :: exts :: ops ->
      let (r, out) = run_hist ops in
      let b = Buffer.create 1024 in
      List.iter (fun e ->
        let (r', s) = step_checked r (p_op e) in
        Buffer.add_string b s; Buffer.add_char b ' '; Buffer.add_string b (dump_s r'); Buffer.add_char b '\n')
        (String.split_on_char ';' exts);
      print_endline (String.concat "\t" (out @ [dump_s r; hash (Buffer.contents b)]))
  | "P" :: _k :: cs :: al :: ops ->
      let s = ref (sreg_init (reg_of_lists (p_cmds cs) (p_als al))) in
      let out = List.concat_map (fun f ->
        match toks f with
        | "h" :: n :: al ->
            (* the HOST registers a command between two script steps: Commands::set on the registry component; the SDK's
               own sub-states (alias marks, function names) are untouched *)
            let (r', x) = step !s.sr_reg (OSet (str_of_field n, List.map str_of_field al)) in
            s := { !s with sr_reg = r' }; [res_s x; dump_s r']
        | _ ->
        let (s', x) = sstep !s (p_sop f) in s := s'; [sres_s x; dump_s s'.sr_reg]) ops in
      print_endline (String.concat "\t" out)
  | _ -> print_endline "BADLINE")
