(* C16 driver.  Input lines:
     R <command> <args>      -> V<str> | N | L<list> | E<kind> | PANIC | OOD      the model M
     S find|rfind <s> <t>    -> V<decimal as str> | N                             the executable spec S
     S slice <s> <a> <b>     -> V<str> | N            (a, b decimal byte offsets)
     J <sep> <list>          -> V<str>                join
     K <prefix tree>         -> result of calc on the expression tree; BIG<str> = exact integer value beyond 2^53
                                tree ::= l<decimal> | n tree | (+|-|*|/|%) tree tree
     WS                      -> all scalar values the model's is_ws accepts, as a str *)
let res r = match r with
  | RVal v -> "V" ^ field_of_str v
  | RNone -> "N"
  | RList l -> "L" ^ field_of_list l
  | RErr k -> "E" ^ string_of_int (int_of_n k)
  | RPanic -> "PANIC"
  | ROod -> "OOD"
let codes_of_string s = List.init (String.length s) (fun i -> n_of_int (Char.code s.[i]))
let n_of_decimal s = match digits_val (codes_of_string s) with Some n -> n | None -> failwith "bad number"
let opt_n o = match o with Some n -> "V" ^ field_of_str (show_N n) | None -> "N"
let opt_s o = match o with Some s -> "V" ^ field_of_str s | None -> "N"
let rec p_expr ts = match ts with
  | "n" :: r -> let (a, r) = p_expr r in (ENeg a, r)
  | ("+" | "-" | "*" | "/" | "%" as o) :: r ->
      let op = match o with "+" -> 0 | "-" -> 1 | "*" -> 2 | "/" -> 3 | _ -> 4 in
      let (a, r) = p_expr r in let (b, r) = p_expr r in (EBin (n_of_int op, a, b), r)
  | t :: r when String.length t >= 2 && t.[0] = 'l' -> (ELit (n_of_decimal (String.sub t 1 (String.length t - 1))), r)
  | _ -> failwith "bad expr"
let command name = match name with
  | "length" -> cmd_length | "indexof" -> cmd_indexof | "last_indexof" -> cmd_last_indexof
  | "substring" -> cmd_substring | "contains" -> cmd_contains | "starts_with" -> cmd_starts_with
  | "ends_with" -> cmd_ends_with | "equals" -> cmd_equals | "is_empty" -> cmd_is_empty
  | "concat" -> cmd_concat | "replace" -> cmd_replace | "split" -> cmd_split | "trim" -> cmd_trim
  | "trim_start" -> cmd_trim_start | "trim_end" -> cmd_trim_end | "range" -> cmd_range
  | "uppercase" -> cmd_uppercase | "lowercase" -> cmd_lowercase | "less_than" -> cmd_less_than
  | "greater_than" -> cmd_greater_than
  | "calc" -> (fun _ -> ROod)   (* calc is modelled on expression trees only (K lines) *)
  | _ -> failwith "unknown command"
let () = iter_lines (fun line ->
  try match fields line with
  | ["R"; name; args] -> print_endline (res (command name (list_of_field args)))
  | ["S"; "find"; s; t] -> print_endline (opt_n (spec_find (str_of_field s) (str_of_field t)))
  | ["S"; "rfind"; s; t] -> print_endline (opt_n (spec_rfind (str_of_field s) (str_of_field t)))
  | ["S"; "slice"; s; a; b] -> print_endline (opt_s (spec_slice (str_of_field s) (n_of_decimal a) (n_of_decimal b)))
  | ["J"; t; l] -> print_endline ("V" ^ field_of_str (join (str_of_field t) (list_of_field l)))
  | ["K"; tree] ->
      let (e, _) = p_expr (String.split_on_char ' ' tree) in
      (match cmd_calc_expr e, calc_exact e with
       | ROod, Some v -> print_endline ("BIG" ^ field_of_str v)   (* an integer beyond 2^53: exact value *)
       | r, _ -> print_endline (res r))
  | ["WS"] ->
      let acc = ref [] in
      for c = 0x10FFFF downto 0 do
        if not (c >= 0xD800 && c <= 0xDFFF) && is_ws (n_of_int c) then acc := n_of_int c :: !acc
      done;
      print_endline (field_of_str !acc)
  | _ -> print_endline "BADLINE"
  with Failure m -> print_endline ("MODELFAIL " ^ m) | Not_found -> print_endline "MODELFAIL")
