(* C02 driver.  Input lines (TAB-separated):
     B <env> <args>   -> "<rendered args>\t<model: bind_args>\t<spec: denote_args>\t<wf>\t<wf literal reading>\t<known classes>"
     X <env> <texts>  -> "<model: bind_args>"              raw written arguments (outside the theorem's domain)
   env  : "-" or space-separated name:value (both wire strings)
   args : written arguments separated by "|"; an argument is "-" (empty template), "S<name>" (%{name})
          or pieces separated by ","; a piece is L<text> | V<name> | E<name>
   known classes: "-" or a subset of the letters q (KF-C02-1, word-initial quote in a spread value),
          e (KF-C02-3, \${name} with a non-literal name).  (KF-C02-2, # in a spread value, is repaired and
          belongs to the theorems' domain.) *)
let env_of_field s =
  if s = "-" then env_of_list [] else
  env_of_list (List.map (fun p ->
    match String.split_on_char ':' p with
    | [n; v] -> (str_of_field n, str_of_field v)
    | _ -> failwith "bad env") (String.split_on_char ' ' s))
let tail s = String.sub s 1 (String.length s - 1)
let piece_of s = match s.[0] with
  | 'L' -> Lit (str_of_field (tail s))
  | 'V' -> Var (str_of_field (tail s))
  | 'E' -> Esc (str_of_field (tail s))
  | _ -> failwith "bad piece"
let arg_of s =
  if s = "-" then WT []
  else if s.[0] = 'S' then WSpread (str_of_field (tail s))
  else WT (List.map piece_of (String.split_on_char ',' s))
let args_of_field s = if s = "" then [] else List.map arg_of (String.split_on_char '|' s)
let wf_literal a = match a with
  | WT t -> forallb wf_piece_literal t
  | WSpread _ -> wf_arg a
let classes e args =
  let value n = match e n with Some v -> v | None -> [] in
  let q = List.exists (function WSpread n -> known_spread_quote (value n) | _ -> false) args in
  let x = List.exists (function WT t -> known_esc_tmpl t | _ -> false) args in
  let s = (if q then "q" else "") ^ (if x then "e" else "") in
  (* the extracted classifier of the theorem must agree with the per-class letters *)
  let k = existsb (known_arg e) args in
  if k <> (s <> "") then "INCONSISTENT" else if s = "" then "-" else s
(* The model output is the one of the INDEX-FAITHFUL binder ExpansionIx.bind_args_ix (the re-parse of a
   spread value runs on the index-faithful parser: vector, usize indices, explicit Panic).  The suffix
   model Expansion.bind_args is evaluated as well; by C02_ix_bind_refines they agree.  A panic of the index
   model is printed as PANIC, a disagreement as IXDIFF (both reported by the check). *)
let bind_ix e written =
  let s = bind_args e written in
  match bind_args_ix e written with
  | BPanic -> "PANIC"
  | BOk l -> if l = s then field_of_list l else "IXDIFF"
let () = iter_lines (fun line ->
  match fields line with
  | ["B"; env; args] ->
      let e = env_of_field env in
      let a = args_of_field args in
      let rendered = map render_arg a in
      Printf.printf "%s\t%s\t%s\t%s\t%s\t%s\n" (field_of_list rendered)
        (bind_ix e rendered) (field_of_list (denote_args e a))
        (b2s (forallb wf_arg a)) (b2s (List.for_all wf_literal a)) (classes e a)
  | ["X"; env; texts] ->
      print_endline (bind_ix (env_of_field env) (list_of_field texts))
  | _ -> print_endline "BADLINE")
