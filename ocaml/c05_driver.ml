(* C05 driver.  Input lines (TAB separated):
     TABLES  -> spelling tables "if=<list>|...|function=..|endfunction=..|return=..|close_fn=..|wf=T"
     P <init vars: list n v ..> <program: space separated prefix notation>
        -> "<script lines: list>\t<wf T|F>\t<knownF6 T|F>\t<spec result>\t<model result>"
   prog  ::= D ndefs def* tree
   def   ::= sp scoped(0|1) name tree e
   tree  ::= [ stmt* ]
   stmt  ::= c prim | i sp cond tree elses e | w sp cond tree e | f sp x hv tree e
           | k out(name|-) fname nargs arg* | r sp arg(-|L:x|V:x)
   (conditions of i / w / ei:  fcond ::= F fname nargs arg* | ~ fcond | cond)
   elses ::= n | ei sp cond tree elses | el sp tree
   cond  ::= N name | V name | ! cond
   prim  ::= E tag k v1..vk | S x v | C x y | A h k e1..ek | P hv v | 0
   arg   ::= L:<str> | V:<str>
   result ::= OK|T:<trace>|V:<vars>  |  STOP <line> <kind>  |  ERR | RET | FUEL *)
let s x = str_of_field x
let p_arg t =
  if String.length t >= 2 && String.sub t 0 2 = "L:" then ALit (s (String.sub t 2 (String.length t - 2)))
  else if String.length t >= 2 && String.sub t 0 2 = "V:" then AVar (s (String.sub t 2 (String.length t - 2)))
  else failwith "bad arg"
let rec p_block ts = match ts with
  | "[" :: r -> p_stmts r
  | _ -> failwith "bad block"
and p_stmts ts = match ts with
  | "]" :: r -> (QNil, r)
  | _ -> let (st, r) = p_stmt ts in let (b, r) = p_stmts r in (QCons (st, b), r)
and p_stmt ts = match ts with
  | "c" :: r -> let (p, r) = p_prim r in (QCmd p, r)
  | "i" :: sp :: r ->
      let (c, r) = p_fcond r in let (b, r) = p_block r in let (e, r) = p_elses r in
      (match r with en :: r -> (QIf (s sp, c, b, e, s en), r) | _ -> failwith "bad if")
  | "w" :: sp :: r ->
      let (c, r) = p_fcond r in let (b, r) = p_block r in
      (match r with en :: r -> (QWhile (s sp, c, b, s en), r) | _ -> failwith "bad while")
  | "f" :: sp :: x :: hv :: r ->
      let (b, r) = p_block r in
      (match r with en :: r -> (QFor (s sp, s x, s hv, b, s en), r) | _ -> failwith "bad for")
  | "k" :: out :: fname :: n :: r ->
      let rec take k r acc = if k = 0 then (List.rev acc, r) else
        (match r with x :: r -> take (k - 1) r (p_arg x :: acc) | [] -> failwith "bad count") in
      let (args, r) = take (int_of_string n) r [] in
      (QCall ((if out = "-" then None else Some (s out)), s fname, args), r)
  | "r" :: sp :: a :: r -> (QReturn (s sp, (if a = "-" then None else Some (p_arg a))), r)
  | _ -> failwith "bad stmt"
and p_elses ts = match ts with
  | "n" :: r -> (ZNil, r)
  | "ei" :: sp :: r ->
      let (c, r) = p_fcond r in let (b, r) = p_block r in let (e, r) = p_elses r in
      (ZElseIf (s sp, c, b, e), r)
  | "el" :: sp :: r -> let (b, r) = p_block r in (ZElse (s sp, b), r)
  | _ -> failwith "bad elses"
and p_fcond ts = match ts with
  | "F" :: fname :: n :: r ->
      let rec take k r acc = if k = 0 then (List.rev acc, r) else
        (match r with x :: r -> take (k - 1) r (p_arg x :: acc) | [] -> failwith "bad count") in
      let (args, r) = take (int_of_string n) r [] in (FCCall (s fname, args), r)
  | "~" :: r -> let (c, r) = p_fcond r in (FCNot c, r)
  | _ -> let (c, r) = p_cond ts in (FCBase c, r)
and p_cond ts = match ts with
  | "N" :: n :: r -> (CNext (s n), r)
  | "V" :: n :: r -> (CVar (s n), r)
  | "!" :: r -> let (c, r) = p_cond r in (CNot c, r)
  | _ -> failwith "bad cond"
and p_prim ts =
  let rec take k r acc = if k = 0 then (List.rev acc, r) else
    (match r with x :: r -> take (k - 1) r (s x :: acc) | [] -> failwith "bad count") in
  match ts with
  | "E" :: tag :: k :: r -> let (vs, r) = take (int_of_string k) r [] in (PEmit (s tag, vs), r)
  | "S" :: x :: v :: r -> (PSet (s x, s v), r)
  | "C" :: x :: y :: r -> (PCopy (s x, s y), r)
  | "A" :: h :: k :: r -> let (es, r) = take (int_of_string k) r [] in (PArr (s h, es), r)
  | "P" :: hv :: v :: r -> (PPush (s hv, s v), r)
  | "0" :: r -> (PNop, r)
  | _ -> failwith "bad prim"
let rec p_defs k ts = if k = 0 then ([], ts) else
  match ts with
  | sp :: sc :: name :: r ->
      let (b, r) = p_block r in
      (match r with
       | e :: r -> let (ds, r) = p_defs (k - 1) r in
                   ({ cd_sp = s sp; cd_scoped = (sc = "1"); cd_name = s name; cd_body = b; cd_end = s e } :: ds, r)
       | [] -> failwith "bad def")
  | _ -> failwith "bad def"
let p_prog ts = match ts with
  | "D" :: n :: r ->
      let (ds, r) = p_defs (int_of_string n) r in
      let (b, r) = p_block r in
      if r <> [] then failwith "trailing tokens";
      { cp_defs = ds; cp_main = b }
  | _ -> failwith "bad prog"

let space = n_of_int 32
let line_of_instr i =
  let ((out, cmd), args) = frender i in
  let toks = (match cmd with Some c -> c :: args | None -> args) in
  let toks = (match out with Some o -> o :: [n_of_int 61] :: toks | None -> toks) in
  List.concat (List.mapi (fun k t -> if k = 0 then t else space :: t) toks)

let show_world (w : world) =
  let tr = String.concat ";" (List.rev_map (fun e -> String.concat "," (List.map field_of_str e)) w.w_trace) in
  let var (k, v) =
    let k' = field_of_str k in
    match List.assoc_opt v w.w_arrs with
    | Some l -> k' ^ "=A" ^ String.concat "+" (List.map field_of_str l)
    | None -> k' ^ "=S" ^ field_of_str v in
  let vs = List.sort compare (List.map var w.w_vars) in
  "T:" ^ tr ^ "|V:" ^ String.concat "," vs
let kind_of_cres = function
  | RError c -> "Error" ^ string_of_int (int_of_n c) | RCrash c -> "Crash" ^ string_of_int (int_of_n c)
  | RPanic -> "Panic" | RContinue -> "Continue" | RGoto _ -> "Goto"

let big_nat k = let rec go k acc = if k <= 0 then acc else go (k - 1) (S acc) in go k O
let tree_fuel = big_nat 6000
let flat_fuel = big_nat 30000
let rec init_world l w = match l with
  | k :: v :: r -> init_world r { w with w_vars = w.w_vars @ [(k, v)] }
  | _ -> w
let kv name l = name ^ "=" ^ field_of_list l
let () = iter_lines (fun line ->
  match fields line with
  | ["TABLES"] ->
      print_endline (String.concat "|" [
        kv "if" n_if; kv "elseif" n_elseif; kv "else" n_else; kv "endif" n_endif;
        kv "while" n_while; kv "endwhile" n_endwhile; kv "for" n_for; kv "endfor" n_endfor;
        kv "close_if" (closers CkIf); kv "close_while" (closers CkWhile); kv "close_for" (closers CkFor);
        kv "function" n_function; kv "endfunction" n_endfunction; kv "return" n_return; kv "close_fn" fn_closers;
        "wf=" ^ b2s (tables_wf && fn_tables_ok)])
  | ["P"; init; ptext] ->
      (try
        let p = p_prog (String.split_on_char ' ' ptext) in
        let w0 = init_world (list_of_field init) world0 in
        let code = compile_cprog p in
        let text = List.map line_of_instr code in
        let show_spec = function
          | FOk w -> "OK|" ^ show_world w | FRet (_, _) -> "RET" | FErr -> "ERR" | FFuel -> "FUEL" in
        let show_model = function
          | FDone ((w, _), _) -> "OK|" ^ show_world w
          | FStopped (l, r, _) -> Printf.sprintf "STOP %d %s" (int_of_nat l) (kind_of_cres r)
          | FOutOfFuel -> "FUEL" in
        let spec = show_spec (cprog_run tree_fuel p w0) in
        let model = show_model (crun_program flat_fuel tree_fuel code w0) in
        (* programs without condition-position calls are also run through the definitions the
           simulation theorem speaks about (FlowFnTree / FlowFn); both paths must agree *)
        let (wf, flags, link) = (match lower_prog p with
          | Some p0 ->
              let code0 = compile_prog p0 in
              let spec0 = show_spec (prog_run tree_fuel p0 w0) in
              let model0 = show_model (frun_program flat_fuel code0 w0) in
              let ok = (List.map line_of_instr code0 = text) && spec0 = spec && model0 = model
                       && (known_f6 p0 = cknown_f6 p) && (wf_prog p0 = wf_cprog p) in
              (wf_prog p0, b2s (known_f6 p0) ^ (if ordered_prog p0 then "O" else ""), ok)
          | None ->
              (wf_cprog p, b2s (cknown_f6 p) ^ "C" ^ (if corner_prog p then "K" else ""), true)) in
        if not link then print_endline "LINKERR" else
        Printf.printf "%s\t%s\t%s\t%s\t%s\n" (field_of_list text) (b2s wf) flags spec model
      with Failure m -> print_endline ("BADCASE " ^ m))
  | _ -> print_endline "BADLINE")
