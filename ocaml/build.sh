#!/bin/bash
# build.sh Cxx — link the extracted model of one property with conv.ml and its driver.
set -eu
cd "$(dirname "$0")"
id=$(echo "$1" | tr 'A-Z' 'a-z')
mkdir -p gen bin
exec 9>../.cache/ocaml_$id.lock
flock 9
src=gen/${id}_all.ml
cat gen/${id}_model.ml conv.ml ${id}_driver.ml > $src.new
if [ -f $src ] && cmp -s $src.new $src && [ -x bin/${id}_model ]; then rm -f $src.new; exit 0; fi
mv $src.new $src
rm -f gen/${id}_model.mli bin/${id}_model    # never leave a stale binary behind a failed compile
ocamlfind ocamlopt -O2 -w -a -package str $src -linkpkg -o bin/${id}_model 2>&1 || ocamlfind ocamlopt -w -a -package str $src -linkpkg -o bin/${id}_model
