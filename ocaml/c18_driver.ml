(* C18 driver.  Input lines:   H <op> <op> ...   (TAB separated; an op is `;`-separated sub-fields)
     W;p;s  A;p;s  R;p  WB;p;bytes  RB;p  T;p  MK;p  CP;a;b  MV;a;b  RM;<N|S flags>;<p,p,...|->
     RD;p  EX;p  IF;p  ID;p  SZ;p  LS;p  BN;s  DN;s  JP;<list>
     path p = <0|1>:<components, space separated>   (1 = written with a trailing separator)
   Output: <M trace> TAB # TAB <S trace> TAB # TAB <flags>
     trace = one field per step `<out>|<dump>` (same format as harness/src/bin/c18.rs)
     flags = per step `<in domain 0|1><known class 0..4>`, space separated, along M's states *)
let p_path f =
  match String.index_opt f ':' with
  | Some 1 -> { pk = list_of_field (String.sub f 2 (String.length f - 2)); ptr = (f.[0] = '1') }
  | _ -> failwith "bad path"
let p_paths f = if f = "-" then [] else List.map p_path (String.split_on_char ',' f)
let p_op f =
  match String.split_on_char ';' f with
  | ["W"; p; s] -> Write (p_path p, str_of_field s)
  | ["A"; p; s] -> Append (p_path p, str_of_field s)
  | ["R"; p] -> Read (p_path p)
  | ["WB"; p; b] -> WriteB (p_path p, str_of_field b)
  | ["RB"; p] -> ReadB (p_path p)
  | ["T"; p] -> Touch (p_path p)
  | ["MK"; p] -> Mkdir (p_path p)
  | ["CP"; a; b] -> Cp (p_path a, p_path b)
  | ["MV"; a; b] -> Mv (p_path a, p_path b)
  | ["RM"; fl; ps] ->
      let fl = if fl = "N" then None else Some (str_of_field (String.sub fl 1 (String.length fl - 1))) in
      Rm (fl, p_paths ps)
  | ["RD"; p] -> Rmdir (p_path p)
  | ["EX"; p] -> Exists (p_path p)
  | ["IF"; p] -> IsFile (p_path p)
  | ["ID"; p] -> IsDir (p_path p)
  | ["SZ"; p] -> Size (p_path p)
  | ["LS"; p] -> Ls (p_path p)
  | ["BN"; s] -> Basename (str_of_field s)
  | ["DN"; s] -> Dirname (str_of_field s)
  | ["JP"; l] -> JoinPath (list_of_field l)
  | _ -> failwith ("bad op " ^ f)
let digits n = List.map (fun c -> n_of_int (Char.code c)) (List.init (String.length (string_of_int n)) (String.get (string_of_int n)))
let s_out o = match o with
  | OVal s -> "V" ^ field_of_str s
  | ONone -> "N"
  | OErr -> "E"
  | OBytes b -> "B" ^ field_of_str b
  | OList l -> let e = List.sort compare (List.map field_of_str l) in
               "L" ^ (if e = [] then "-" else String.concat " " e)
  | ONum n -> "V" ^ field_of_str (digits (int_of_n n))
let enc_key k = String.concat ".47." (List.map field_of_str k)
let s_dump t =
  let es = List.map (fun (k, n) -> match n with
    | Dir -> "D" ^ enc_key k
    | File b -> "F" ^ enc_key k ^ ":" ^ field_of_str b) (tree_list t) in
  if es = [] then "-" else String.concat " " (List.sort compare es)
let s_trace tr = String.concat "\t" (List.map (fun (o, t) -> s_out o ^ "|" ^ s_dump t) tr)
let () = iter_lines (fun line ->
  match fields line with
  | "H" :: ops ->
      (try
        let ops = List.map p_op ops in
        let fl = String.concat " " (List.map (fun (d, k) -> (if d then "1" else "0") ^ string_of_int (int_of_n k)) (f_run ops)) in
        Printf.printf "%s\t#\t%s\t#\t%s\n" (s_trace (m_run ops)) (s_trace (s_run ops)) fl
      with Failure m -> print_endline ("BADLINE " ^ m))
  | _ -> print_endline "BADLINE")
