(* C10 driver.  Input lines (TAB-separated):
     R <fuel> <prog> <fails> <watch>
   prog    - | i;i;...      i = <line>|<src>|<out>|<cmd>|<args>   (line: N | number; src/out/cmd: N | S<str>)
                            the executed instruction sequence with the meta-information of each
   fails   - | name=msg;... commands that answer Error msg
   watch   list of variable names
   Output: <OK|ERR|FUEL> <detail> <line> <src> <snaps> <vars>
   detail  OK: END|EXIT|HALT   ERR: CRASH <m> | NOTFOUND <c> | LABEL <l> | EXIT <z> | HEXIT | HCRASH <m>
   snaps   - | entry;entry;...   entry = <opt>,<opt>,...        vars = - | name=<opt>;... *)
let opt_of_field s = if s = "N" then None else Some (str_of_field (String.sub s 1 (String.length s - 1)))
let field_of_opt = function None -> "N" | Some s -> "S" ^ field_of_str s
let split_nonempty c s = if s = "-" then [] else String.split_on_char c s

let parse_instr l =
  match String.split_on_char '|' l with
  | [line; src; out; c; args] ->
      { i_meta = { m_line = (if line = "N" then None else Some (nat_of_int (int_of_string line))); m_src = opt_of_field src };
        i_type = IScript { s_label = None; s_out = opt_of_field out; s_cmd = opt_of_field c; s_args = list_of_field args } }
  | _ -> failwith "bad instr"
let parse_fails s = List.map (fun kv ->
  match String.split_on_char '=' kv with
  | [k; v] -> (str_of_field k, str_of_field v)
  | _ -> failwith "bad fail") (split_nonempty ';' s)

let show_snaps l =
  if l = [] then "-" else String.concat ";" (List.map (fun e -> String.concat "," (List.map field_of_opt e)) l)
let show_emsg = function Msg m -> field_of_str m | NotFound c -> "?" ^ field_of_str c
let show_err = function
  | RCrash (Msg m) -> "CRASH " ^ field_of_str m
  | RCrash (NotFound c) -> "NOTFOUND " ^ field_of_str c
  | RLabel l -> "LABEL " ^ field_of_str l
  | RExitCode z -> "EXIT " ^ string_of_int (int_of_z z)
  | RHandlerExit -> "HEXIT"
  | RHandlerCrash m -> "HCRASH " ^ show_emsg m

let () = iter_lines (fun line ->
  match fields line with
  | "R" :: fuel :: prog :: fails :: watch :: _ ->
      let p = List.map parse_instr (split_nonempty ';' prog) and fl = parse_fails fails in
      (match e_run (nat_of_int (int_of_string fuel)) p fl with
       | OutOfFuel -> print_endline "FUEL\t-\t-\t-\t-\t-"
       | Done (FOk (r, w), _) ->
           let vs = List.map (fun v -> field_of_str v ^ "=" ^ field_of_opt (e_var w v)) (list_of_field watch) in
           Printf.printf "OK\t%s\t-\t-\t%s\t%s\n"
             (match r with ReachedEnd -> "END" | ExitCalled -> "EXIT" | Halted -> "HALT") (show_snaps (e_log w))
             (if vs = [] then "-" else String.concat ";" vs)
       | Done (FErr (e, m), t) ->
           (* the snapshots taken before the failing instruction: state after length t - 1 executions *)
           let snaps = match e_iter (nat_of_int (List.length t - 1)) p fl with
             | Some c -> show_snaps (e_log c.wd) | None -> "?" in
           Printf.printf "ERR\t%s\t%s\t%s\t%s\t-\n" (show_err e)
             (match m.m_line with None -> "N" | Some n -> string_of_int (int_of_nat n))
             (field_of_opt m.m_src) snaps)
  | _ -> print_endline "BADLINE")
