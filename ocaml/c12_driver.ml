(* C12 driver.  Same input as harness/src/bin/c12.rs:
     H <TAB> op <TAB> op ...     op ::= <command> {SP arg} | dump | raw <tag>     arg ::= @<step> | =<str>
   Output: one field per op, `E<kind>` | `N` | `V<str>` | dump `D<size>|<step> A ..|..`; a field
   gets the suffix `~<what the specification S answers>` (H = a new handle) when the executed step
   (model M for natives, as-is array_concat) differs from S applied to the same state (only
   array_concat in the F6 situation).
   The oracles of the model are supplied here: the i-th drawn key is "handle:M" ^ 19 digits, and
   map_keys / set_to_array list their elements in canonical order (handle names replaced by the
   step that allocated them), exactly as the Rust harness reorders the real arrays. *)
(* command names and aliases are resolved by the extracted table CollectionsTables.cmd_of_alias,
   which theorem C12_tables ties to the aliases declared in the source *)
let codes_of_string s = List.init (String.length s) (fun i -> n_of_int (Char.code s.[i]))
let cmd_of_name name = cmd_of_alias (codes_of_string name)
let alloc_cmds = ["array"; "range"; "map"; "set_new"; "map_keys"; "set_to_array"; "array_concat";
                  "set_from_array"; "raw"; "split"]
let rnd (k : nat) = codes_of_string (Printf.sprintf "handle:M%019d" (int_of_nat k))
let ekind_str = function
  | EArgs -> "A" | ENonNum -> "N" | EKind -> "K" | ENotFound -> "F" | EIndex -> "I" | ERange -> "R"
  | ETrigger -> "T"
let rec starts_with l p = match l, p with
  | _, [] -> true
  | x :: l', y :: p' -> x = y && starts_with l' p'
  | [], _ -> false
let rec drop n l = if n = 0 then l else match l with [] -> [] | _ :: r -> drop (n - 1) r
let h_prefix = List.map Char.code ['h'; 'a'; 'n'; 'd'; 'l'; 'e'; ':']
(* names: (step, int list) latest first *)
let canon names (s : int list) : int list =
  let rec go s acc = match s with
    | [] -> List.rev acc
    | c :: r ->
      if starts_with s h_prefix then
        (match List.find_opt (fun (_, n) -> starts_with s n) names with
         | Some (k, n) ->
           let mark = [1] @ List.map Char.code (List.of_seq (String.to_seq (string_of_int k))) @ [2] in
           go (drop (List.length n) s) (List.rev_append mark acc)
         | None -> go r (c :: acc))
      else go r (c :: acc) in
  go s []
let ints l = List.map int_of_n l
let () = iter_lines (fun line ->
  match fields line with
  | "H" :: ops ->
    let st = ref init in
    let outs = ref [||] in
    let names = ref [] in        (* (step, int list), latest first *)
    let ord _ l =
      let nm = !names in
      List.map snd (List.stable_sort (fun (a, _) (b, _) -> compare a b)
                      (List.map (fun x -> (canon nm (ints x), x)) l)) in
    let res = ref [] in
    let push_out o = outs := Array.append !outs [| o |] in
    List.iteri (fun step op ->
      let toks = String.split_on_char ' ' op in
      let name = List.hd toks in
      if name = "dump" then begin
        let parts = ref [Printf.sprintf "D%d" (int_of_nat (table_size !st))] in
        List.iter (fun (k, n) ->
          let h = List.map n_of_int n in
          let p = match dump_handle !st h with
            | DArr l -> Printf.sprintf "%d A %s" k (field_of_list l)
            | DMap kv -> Printf.sprintf "%d M %s" k (field_of_list (List.concat_map (fun (a, b) -> [a; b]) kv))
            | DSet l -> Printf.sprintf "%d S %s" k (field_of_list l)
            | DOther -> Printf.sprintf "%d O" k
            | DAbsent -> Printf.sprintf "%d X" k in
          parts := p :: !parts) (List.rev !names);
        res := String.concat "|" (List.rev !parts) :: !res;
        push_out None
      end else begin
        match cmd_of_name name with
        | None -> res := "BADCMD" :: !res; push_out None
        | Some c ->
          let args = List.map (fun a ->
            if name = "raw" then codes_of_string a
            else if String.length a > 0 && a.[0] = '@' then begin
              let k = int_of_string (String.sub a 1 (String.length a - 1)) in
              match (if k < Array.length !outs then !outs.(k) else None) with
              | Some v -> v
              | None -> codes_of_string (Printf.sprintf "undefined:%d" k)
            end else str_of_field (String.sub a 1 (String.length a - 1))) (List.tl toks) in
          let o = step_h rnd ord c args !st in
          let ideal = step_s rnd ord c args !st in
          let flag = if agrees o ideal then "" else
            "~" ^ (match fst ideal with
                   | Cont (Some v) -> if List.mem name alloc_cmds then "H" else "V" ^ field_of_str v
                   | Cont None -> "N"
                   | Error e -> "E" ^ ekind_str e) in
          (match o with
           | Done (r, s') ->
             st := s';
             (match r with
              | Cont (Some v) ->
                if List.mem name alloc_cmds then names := (step, ints v) :: !names;
                res := ("V" ^ field_of_str v ^ flag) :: !res; push_out (Some v)
              | Cont None -> res := ("N" ^ flag) :: !res; push_out None
              | Error e -> res := ("E" ^ ekind_str e ^ flag) :: !res; push_out None)
           | Panic -> res := "PANIC" :: !res; push_out None
           | Fuel -> res := "FUEL" :: !res; push_out None)
      end) ops;
    print_endline (String.concat "\t" (List.rev !res))
  | _ -> print_endline "BADLINE")
