(* C17 driver: ENC <bytes> | DEC <str> | U8D <bytes> | U8E <str> | HEXE <str> | HEXD <str>
   output: V<str> | B<bytes> | E *)
let () = iter_lines (fun line ->
  match fields line with
  | ["ENC"; b] -> print_endline ("V" ^ field_of_str (b64_encode (str_of_field b)))
  | ["DEC"; s] -> (match b64_decode (str_of_field s) with Some b -> print_endline ("B" ^ field_of_str b) | None -> print_endline "E")
  | ["U8D"; b] -> (match utf8_decode (str_of_field b) with Some s -> print_endline ("V" ^ field_of_str s) | None -> print_endline "E")
  | ["U8E"; s] -> print_endline ("B" ^ field_of_str (utf8_encode (str_of_field s)))
  | ["HEXE"; s] -> (match cmd_hex_encode [str_of_field s] with RVal v -> print_endline ("V" ^ field_of_str v) | _ -> print_endline "E")
  | ["HEXD"; s] -> (match cmd_hex_decode [str_of_field s] with RVal v -> print_endline ("V" ^ field_of_str v) | _ -> print_endline "E")
  | _ -> print_endline "BADLINE")
