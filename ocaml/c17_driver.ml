(* C17 driver: ENC <bytes> | DEC <str> | U8D <bytes> | U8E <str> | HEXE <str> | HEXD <str>
   output: V<str> | B<bytes> | E
   JSON  <text> <doc>   the extracted MODEL: create_structure then encode_from_state from a fresh
                        store with the theorem's fuel; V<compact text> | N (no value) | OOF (out of
                        fuel) | OFFDOMAIN (duplicate keys or a leaf that is a model handle name)
   JSONS <text> <doc>   the extracted SPEC: normalise; V<compact text> | N
   <text> is the JSON text (used by the implementation only); <doc> is the same document, already
   parsed, in prefix notation, tokens separated by one space:
     n | t | f | #<str> (number, its to_string text) | s<str> | a<count> item* | o<count> (k<str> value)*
   Objects arrive in serde_json's Map iteration order (keys sorted by bytes = by code points).
   The printer below is serde_json's compact writer (no sorting: the order is the model's). *)
let parse_doc (field : string) : json =
  let toks = Array.of_list (String.split_on_char ' ' field) in
  let pos = ref 0 in
  let next_tok () = let t = toks.(!pos) in incr pos; t in
  let rest t = String.sub t 1 (String.length t - 1) in
  let rec value () =
    let t = next_tok () in
    match t.[0] with
    | 'n' -> JNull
    | 't' -> JBool true
    | 'f' -> JBool false
    | '#' -> JNum (str_of_field (rest t))
    | 's' -> JStr (str_of_field (rest t))
    | 'a' ->
        let n = int_of_string (rest t) in
        let acc = ref [] in
        for _ = 1 to n do let v = value () in acc := v :: !acc done;
        JArr (List.rev !acc)
    | 'o' ->
        let n = int_of_string (rest t) in
        let acc = ref [] in
        for _ = 1 to n do
          let k = next_tok () in
          if k.[0] <> 'k' then failwith "key expected";
          let v = value () in
          acc := (str_of_field (rest k), v) :: !acc
        done;
        JObj (List.rev !acc)
    | _ -> failwith "bad token"
  in
  let j = value () in
  if !pos <> Array.length toks then failwith "trailing tokens";
  j

let json_text (j : json) : string =
  let out = ref [] in
  let emit c = out := c :: !out in
  let emits s = String.iter (fun ch -> emit (Char.code ch)) s in
  let pstr (s : str) =
    emit 34;
    List.iter (fun cn ->
      let c = int_of_n cn in
      if c = 34 then emits "\\\"" else if c = 92 then emits "\\\\"
      else if c = 8 then emits "\\b" else if c = 12 then emits "\\f"
      else if c = 10 then emits "\\n" else if c = 13 then emits "\\r" else if c = 9 then emits "\\t"
      else if c < 32 then emits (Printf.sprintf "\\u%04x" c)
      else emit c) s;
    emit 34 in
  let rec go j =
    match j with
    | JNull -> emits "null"
    | JBool b -> emits (if b then "true" else "false")
    | JNum t -> List.iter (fun c -> emit (int_of_n c)) t
    | JStr s -> pstr s
    | JArr l -> emit 91; List.iteri (fun i x -> if i > 0 then emit 44; go x) l; emit 93
    | JObj m -> emit 123; List.iteri (fun i (k, x) -> if i > 0 then emit 44; pstr k; emit 58; go x) m; emit 125
  in
  go j;
  match List.rev !out with
  | [] -> "e"
  | l -> String.concat "." (List.map string_of_int l)

let () = iter_lines (fun line ->
  match fields line with
  | ["ENC"; b] -> print_endline ("V" ^ field_of_str (b64_encode (str_of_field b)))
  | ["DEC"; s] -> (match b64_decode (str_of_field s) with Some b -> print_endline ("B" ^ field_of_str b) | None -> print_endline "E")
  | ["U8D"; b] -> (match utf8_decode (str_of_field b) with Some s -> print_endline ("V" ^ field_of_str s) | None -> print_endline "E")
  | ["U8E"; s] -> print_endline ("B" ^ field_of_str (utf8_encode (str_of_field s)))
  | ["HEXE"; s] -> (match cmd_hex_encode [str_of_field s] with RVal v -> print_endline ("V" ^ field_of_str v) | _ -> print_endline "E")
  | ["HEXD"; s] -> (match cmd_hex_decode [str_of_field s] with RVal v -> print_endline ("V" ^ field_of_str v) | _ -> print_endline "E")
  | ["JSON"; _; d] ->
      (match (try Some (parse_doc d) with _ -> None) with
       | None -> print_endline "BADLINE"
       | Some j ->
           if not (json_wfb j && no_handle_leafb j) then print_endline "OFFDOMAIN"
           else match roundtrip_model j with
             | None -> print_endline "OOF"
             | Some None -> print_endline "N"
             | Some (Some r) -> print_endline ("V" ^ json_text r))
  | ["JSONS"; _; d] ->
      (match (try Some (parse_doc d) with _ -> None) with
       | None -> print_endline "BADLINE"
       | Some j ->
           match normalise j with
           | None -> print_endline "N"
           | Some r -> print_endline ("V" ^ json_text r))
  (* ---- properties format (CodecProps.v) ----
     PW  <prefix> <keys> <values>      cmd_map_to_properties in the order of the lists:
                                         V<text> | E<kind>, then TAB C<1|0> (every pair pair_clean: the text does not depend on
                                         the order) TAB D<one letter per pair: r representable, c a character outside char_ok,
                                         u bytes not UTF-8, t an escape is cut, b the key's bytes start with the UTF-8 byte order mark> TAB N<1|0> (written keys distinct)
     PR  <prefix> <text>               cmd_map_load_properties into an empty map: M<k v k v ...> (insertion order) | E<kind>:<line>
     PRT <p> <q> <keys> <values>       pp_roundtrip: <PW result> TAB <PR result | ->
     PDOM <prefix> <keys> <values>     the domain of C17_properties: D<1|0 per pair (representable of the prefixed pair)> TAB N<1|0> (keys distinct)
     W1252 <code points>               w1252_encode_char of each: byte or -1 *)
  | ["PW"; p; ks; vs] ->
      let m = List.combine (list_of_field ks) (list_of_field vs) in
      let pm = pp_prefix_map (str_of_field p) m in
      let clean = List.for_all (fun (k, v) -> pair_clean k v) pm in
      let r = match cmd_map_to_properties (str_of_field p) m with
        | POk t -> "V" ^ field_of_str t | PErr (k, _) -> "E" ^ string_of_int (int_of_n k) | PFuel -> "OOF" in
      let reason (k, v) =
        if representable (k, v) then "r"
        else if not (List.for_all char_ok k && List.for_all char_ok v) then "c"
        else if not (utf8_ok (wire_bytes (pp_write_escaped k)) && utf8_ok (wire_bytes (pp_write_escaped v))) then "u"
        else if not (pair_clean k v) then "t"
        else "b" in
      print_endline (r ^ "\tC" ^ (if clean then "1" else "0") ^ "\tD" ^ String.concat "" (List.map reason pm)
                     ^ "\tN" ^ (if str_nodup (List.map fst pm) then "1" else "0"))
  | ["PR"; p; t] ->
      (match cmd_map_load_properties (str_of_field p) [] (str_of_field t) with
       | POk m -> print_endline ("M" ^ field_of_list (List.concat_map (fun (k, v) -> [k; v]) m))
       | PErr (k, l) -> print_endline (Printf.sprintf "E%d:%d" (int_of_n k) (int_of_n l))
       | PFuel -> print_endline "OOF")
  | ["PRT"; p; q; ks; vs] ->
      let m = List.combine (list_of_field ks) (list_of_field vs) in
      (match cmd_map_to_properties (str_of_field p) m with
       | POk t ->
           let r2 = match cmd_map_load_properties (str_of_field q) [] t with
             | POk m2 -> "M" ^ field_of_list (List.concat_map (fun (k, v) -> [k; v]) m2)
             | PErr (k, l) -> Printf.sprintf "E%d:%d" (int_of_n k) (int_of_n l)
             | PFuel -> "OOF" in
           print_endline ("V" ^ field_of_str t ^ "\t" ^ r2)
       | PErr (k, _) -> print_endline ("E" ^ string_of_int (int_of_n k) ^ "\t-")
       | PFuel -> print_endline "OOF\t-")
  | ["PDOM"; p; ks; vs] ->
      let m = List.combine (list_of_field ks) (list_of_field vs) in
      let pm = pp_prefix_map (str_of_field p) m in
      print_endline ("D" ^ String.concat "" (List.map (fun kv -> if representable kv then "1" else "0") pm)
                     ^ "\tN" ^ (if str_nodup (List.map fst pm) then "1" else "0"))
  | ["W1252"; cs] ->
      print_endline (String.concat " " (List.map (fun c -> match w1252_encode_char c with Some b -> string_of_int (int_of_n b) | None -> "-1") (str_of_field cs)))
  | _ -> print_endline "BADLINE")
