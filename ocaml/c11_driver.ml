(* C11 driver.  Case lines:
     H  <step> <step> ...   -> model M (Rust-shaped), one field per step: <output>;<variables>
                               (next to it the specification S with pol = true is run; a difference
                               in-domain prints SPECDIFF in that step's field)
     H0 <step> <step> ...   -> specification S with pol = false (a name undefined when copied on pop
                               is removed instead of keeping the restored value)
   step := <out> <cmd> <arg> ...  (see harness/src/bin/c11.rs)
   output = V<str> | N | E | L<names,> | CRASH ; variables = k=v,k=v sorted by key *)
let toks s = String.split_on_char ' ' s
let p_step f =
  match toks f with
  | o :: c :: args ->
      let out = if o = "-" then None else Some (str_of_field o) in
      let a = List.map str_of_field args in
      (match c, a with
       | "S", [v] -> Op (out, CSet v)
       | "U", ns -> Op (out, CUnset (ns, str_of_field "104"))
       | "B", [n] -> Op (out, CSetByName (n, None))
       | "B", [n; v] -> Op (out, CSetByName (n, Some v))
       | "G", [n] -> Op (out, CGetByName n)
       | "D", [n] -> Op (out, CIsDefined n)
       | "A", [] -> OpNames
       | "X", [] -> Op (out, CUnsetAllVars None)
       | "X", [p] -> Op (out, CUnsetAllVars (Some p))
       | "C", [n] -> Op (out, CClearScope n)
       | "P", [] -> Op (out, CPush None)
       | "P+", ns -> Op (out, CPush (Some ns))
       | "Q", [] -> Op (out, CPop None)
       | "Q+", ns -> Op (out, CPop (Some ns))
       | _ -> failwith ("bad step " ^ f))
  | _ -> failwith ("bad step " ^ f)
let out_s = function
  | OVal v -> "V" ^ field_of_str v
  | ONone -> "N"
  | OErr -> "E"
  | ONames l -> "L" ^ String.concat "," (List.map field_of_str l)
  | OCrash -> "CRASH"
let vars_s m = String.concat "," (List.map (fun (k, v) -> field_of_str k ^ "=" ^ field_of_str v) (vars_dump m))
let obs_s (o, m) = out_s o ^ ";" ^ vars_s m
let () = iter_lines (fun line ->
  match fields line with
  | "H" :: steps ->
      let ops = List.map p_step steps in
      let (obs, _) = m_run ms_init ops in
      let (sobs, _) = s_run true ms_init ops in
      print_endline (String.concat "\t" (List.map2 (fun a b ->
        let x = obs_s a and y = obs_s b in if x = y then x else "SPECDIFF:" ^ x ^ "/" ^ y) obs sobs))
  | "H0" :: steps ->
      let (obs, _) = s_run false ms_init (List.map p_step steps) in
      print_endline (String.concat "\t" (List.map obs_s obs))
  | _ -> print_endline "BADLINE")
