(* C14 driver.  Input line (TAB-separated):
     F <root> <main> <disk spec> <fuel> <vfs> <resolve table>
       vfs:      space-separated  <path>:<content>            ("-" when empty)
       resolve:  space-separated  <source>:<argument>:<path>  ("-" when empty); an argument that
                 is not in the table resolves to the plain join (never happens for generated cases)
   Output: <parse_file result> TAB <inlined text: N | S<str>> TAB <spec checks>
     parse result:  OK <instr>...  |  ERR <kind> <line> <source>
     instr:         <line>;<source>;<type>     source: N | S<str>
     type:          E | P;<cmd>;<args> | S;<label>;<output>;<cmd>;<args>     args: N | A<str>,<str>...
     spec checks:   <parse_file = parse_x (inline_x)> <erase parse_file = erase (parse_text inlined)>   (T|F|-) *)
let opt_s = function None -> "N" | Some s -> "S" ^ field_of_str s
let args_s = function None -> "N" | Some l -> "A" ^ String.concat "," (List.map field_of_str l)
let type_s = function
  | IEmpty -> "E"
  | IPre (c, a) -> "P;" ^ opt_s c ^ ";" ^ args_s a
  | IScript (l, o, c, a) -> "S;" ^ opt_s l ^ ";" ^ opt_s o ^ ";" ^ opt_s c ^ ";" ^ args_s a
let kind_s = function
  | EControlWithoutValidValue -> "ControlWithoutValidValue"
  | EInvalidControlLocation -> "InvalidControlLocation"
  | EMissingEndQuotes -> "MissingEndQuotes"
  | EInvalidQuotesLocation -> "InvalidQuotesLocation"
  | EEmptyLabel -> "EmptyLabel"
  | EPreProcessNoCommandFound -> "PreNoCommand"
  | EUnknownPreProcessorCommand -> "UnknownPreProcessorCommand"
  | EMissingOutputVariableName -> "MissingOutputVariableName"
  | EInvalidEqualsLocation -> "InvalidEqualsLocation"
  | EReadFile -> "ReadFile"
  | EFuel -> "FUEL"
let instr_s i = string_of_int (int_of_n i.i_line) ^ ";" ^ opt_s i.i_source ^ ";" ^ type_s i.i_type
let tres_s = function
  | TOk is -> String.concat " " ("OK" :: List.map instr_s is)
  | TErr (e, l, s) -> Printf.sprintf "ERR %s %d %s" (kind_s e) (int_of_n l) (opt_s s)
let entries f = if f = "-" then [] else List.map (String.split_on_char ':') (String.split_on_char ' ' f)
let () = iter_lines (fun line ->
  match fields line with
  | ["F"; _root; main; _disk; fuel; vfs; res] -> (try
      let tbl = Hashtbl.create 16 and rtbl = Hashtbl.create 16 in
      List.iter (function [p; c] -> Hashtbl.replace tbl (str_of_field p) (str_of_field c) | _ -> failwith "vfs") (entries vfs);
      List.iter (function [s; a; r] -> Hashtbl.replace rtbl (str_of_field s, str_of_field a) (str_of_field r) | _ -> failwith "res") (entries res);
      let fs p = Hashtbl.find_opt tbl p in
      let resolve src a = match src with
        | None -> a
        | Some s -> (match Hashtbl.find_opt rtbl (s, a) with Some r -> r | None -> failwith "resolve: not in table") in
      let fuel = nat_of_int (int_of_string fuel) in
      let main = str_of_field main in
      let r = parse_file fs resolve fuel main in
      let flat = parse_x (inline_x fs resolve fuel main) in
      let (inl, chk2) = match inline_t fs resolve fuel main with
        | None -> ("N", "-")
        | Some tl -> let text = unlines (List.map pasted tl) in
                     ("S" ^ field_of_str text, b2s (erase r = erase (parse_text text))) in
      Printf.printf "%s\t%s\t%s %s\n" (tres_s r) inl (b2s (r = flat)) chk2
    with Failure m -> print_endline ("MODEL-ERROR " ^ m))
  | _ -> print_endline "BADLINE")
