(* C14 driver.  Input lines (TAB-separated):
     F <root> <main> <disk spec> <fuel>
         parse_file fs (resolve canon) fuel main, where fs / canon are the emulation below of the
         directory tree <disk spec> created under <root> with <root> as the current directory
     K <root> <unused> <disk spec> <paths: list>
         unit-level check of that emulation against the OS: for every path  <canon>;<parse_file at fuel 1>
     U <source> <argument>
         unit-level check of the lexical path model against std::path:
         <Path::parent(source)> TAB <parent(source) pushed with argument, or argument> TAB <source pushed with argument>
   disk spec: space-separated  d<path> | f<path>:<content> | l<path>:<target>   (paths relative to root; "-" when empty)
   Output F: <parse_file result> TAB <inlined text: N | S<str>> TAB <spec checks>
     parse result:  OK <instr>...  |  ERR <kind> <line> <source>
     instr:         <line>;<source>;<type>     source: N | S<str>
     type:          E | P;<cmd>;<args> | S;<label>;<output>;<cmd>;<args>     args: N | A<str>,<str>...
     spec checks:   <parse_file = parse_x (inline_x)> <erase parse_file = erase (parse_text inlined)>   (T|F|-)
   The path computation itself (Path::parent, PathBuf::push, the canonicalize-or-plain-join choice)
   is the EXTRACTED IncludePath.resolve; only canonicalize and the file contents come from the
   emulation (Section variables [canon] and [fs] of the Coq development). *)
let opt_s = function None -> "N" | Some s -> "S" ^ field_of_str s
let args_s = function None -> "N" | Some l -> "A" ^ String.concat "," (List.map field_of_str l)
let type_s = function
  | IEmpty -> "E"
  | IPre (c, a) -> "P;" ^ opt_s c ^ ";" ^ args_s a
  | IScript (l, o, c, a) -> "S;" ^ opt_s l ^ ";" ^ opt_s o ^ ";" ^ opt_s c ^ ";" ^ args_s a
let kind_s = function
  | EControlWithoutValidValue -> "ControlWithoutValidValue"
  | EInvalidControlLocation -> "InvalidControlLocation"
  | EMissingEndQuotes -> "MissingEndQuotes"
  | EInvalidQuotesLocation -> "InvalidQuotesLocation"
  | EEmptyLabel -> "EmptyLabel"
  | EPreProcessNoCommandFound -> "PreNoCommand"
  | EUnknownPreProcessorCommand -> "UnknownPreProcessorCommand"
  | EMissingOutputVariableName -> "MissingOutputVariableName"
  | EInvalidEqualsLocation -> "InvalidEqualsLocation"
  | EReadFile -> "ReadFile"
  | EFuel -> "FUEL"
let instr_s i = string_of_int (int_of_n i.i_line) ^ ";" ^ opt_s i.i_source ^ ";" ^ type_s i.i_type
let tres_s = function
  | TOk is -> String.concat " " ("OK" :: List.map instr_s is)
  | TErr (e, l, s) -> Printf.sprintf "ERR %s %d %s" (kind_s e) (int_of_n l) (opt_s s)

(* ---- emulation of the OS on the case's directory tree: std::fs::canonicalize (realpath: every
   component must exist, symbolic links are followed, a non-directory cannot be followed by anything,
   not even by a trailing "/" or "/.") and fsio::file::read_text_file.  Paths are code-point lists. *)
type node = Dir | File of char list | Link of int list      (* File: contents as a model string *)
let ints_of_field s = if s = "e" then [] else List.map int_of_string (String.split_on_char '.' s)
let ints_of_str (l : char list) = List.map int_of_n l
let str_of_ints l : char list = List.map n_of_int l
let split_slash (l : int list) : int list list =
  let rec go cur acc = function
    | [] -> List.rev (List.rev cur :: acc)
    | 47 :: r -> go [] (List.rev cur :: acc) r
    | c :: r -> go (c :: cur) acc r in
  go [] [] l
let norm cs = List.filter (fun c -> c <> [] && c <> [46]) cs
let rec is_prefix a b = match a, b with
  | [], _ -> true | x :: a', y :: b' -> x = y && is_prefix a' b' | _ -> false
let rec drop n l = if n = 0 then l else match l with [] -> [] | _ :: t -> drop (n - 1) t

let build_tree disk =
  let tree : (int list list, node) Hashtbl.t = Hashtbl.create 32 in
  let add_dirs cs =
    let rec go pre = function
      | [] -> ()
      | c :: r -> let p = pre @ [c] in
                  if not (Hashtbl.mem tree p) then Hashtbl.replace tree p Dir; go p r in
    go [] cs in
  let parent_of cs = List.rev (List.tl (List.rev cs)) in
  if disk <> "-" then
    List.iter (fun e ->
      let tag = e.[0] and rest = String.sub e 1 (String.length e - 1) in
      match tag, String.split_on_char ':' rest with
      | 'd', [p] -> add_dirs (norm (split_slash (ints_of_field p)))
      | 'f', [p; c] -> let cs = norm (split_slash (ints_of_field p)) in
                       add_dirs (parent_of cs); Hashtbl.replace tree cs (File (str_of_field c))
      | 'l', [p; t] -> let cs = norm (split_slash (ints_of_field p)) in
                       add_dirs (parent_of cs); Hashtbl.replace tree cs (Link (ints_of_field t))
      | _ -> failwith "disk") (String.split_on_char ' ' disk);
  tree

let kind tree rootc cur =
  if is_prefix cur rootc then Some Dir
  else if is_prefix rootc cur then Hashtbl.find_opt tree (drop (List.length rootc) cur)
  else None

let canon_comps tree rootc (p : int list) : int list list option =
  if p = [] then None else
  let raw = split_slash p in
  let last_raw = List.nth raw (List.length raw - 1) in
  let must_dir = (last_raw = [] || last_raw = [46]) in
  let rec go cur todo hops =
    match todo with
    | [] -> Some (List.rev cur)
    | [46; 46] :: rest -> go (match cur with [] -> [] | _ :: t -> t) rest hops
    | c :: rest ->
      let cur' = c :: cur in
      (match kind tree rootc (List.rev cur') with
       | None -> None
       | Some (Link tgt) ->
         if hops >= 20 then None
         else go (if tgt <> [] && List.hd tgt = 47 then [] else cur) (norm (split_slash tgt) @ rest) (hops + 1)
       | Some (File _) -> if rest <> [] then None else go cur' rest hops
       | Some Dir -> go cur' rest hops) in
  match go (if List.hd p = 47 then [] else List.rev rootc) (norm raw) 0 with
  | None -> None
  | Some cs -> (match kind tree rootc cs with
                | Some (File _) when must_dir -> None
                | Some _ -> Some cs
                | None -> None)

let path_of_comps cs : int list =
  if cs = [] then [47] else List.concat_map (fun c -> 47 :: c) cs

let os_of root disk =
  let tree = build_tree disk in
  let rootc = norm (split_slash (ints_of_field root)) in
  let canon (p : char list) : char list option =
    match canon_comps tree rootc (ints_of_str p) with
    | Some cs -> Some (str_of_ints (path_of_comps cs))
    | None -> None in
  let fs (p : char list) : char list option =
    match canon_comps tree rootc (ints_of_str p) with
    | Some cs -> (match kind tree rootc cs with Some (File c) -> Some c | _ -> None)
    | None -> None in
  (fs, canon)

let popt_s = function PSome p -> "S" ^ field_of_str p | PNone -> "N" | PFuel -> "FUEL"

let () = iter_lines (fun line ->
  match fields line with
  | "F" :: root :: main :: disk :: fuel :: _ -> (try
      let (fs, canon) = os_of root disk in
      let res = resolve canon in
      let fuel = nat_of_int (int_of_string fuel) in
      let main = str_of_field main in
      let r = parse_file fs res fuel main in
      let flat = parse_x (inline_x fs res fuel main) in
      let (inl, chk2) = match inline_t fs res fuel main with
        | None -> ("N", "-")
        | Some tl -> let text = unlines (List.map pasted tl) in
                     ("S" ^ field_of_str text, b2s (erase r = erase (parse_text text))) in
      Printf.printf "%s\t%s\t%s %s\n" (tres_s r) inl (b2s (r = flat)) chk2
    with Failure m -> print_endline ("MODEL-ERROR " ^ m))
  | ["K"; root; _; disk; paths] -> (try
      let (fs, canon) = os_of root disk in
      let one p = opt_s (canon p) ^ ";" ^ tres_s (parse_file fs (resolve canon) (nat_of_int 1) p) in
      print_endline (String.concat "|" (List.map one (list_of_field paths)))
    with Failure m -> print_endline ("MODEL-ERROR " ^ m))
  | ["U"; src; arg] ->
      let s = str_of_field src and a = str_of_field arg in
      Printf.printf "%s\t%s\t%s\n" (popt_s (parent s)) (field_of_str (lex_join s a)) (field_of_str (push s a))
  | _ -> print_endline "BADLINE")
