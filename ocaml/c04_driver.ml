(* C04 driver.  Input lines (TAB separated):
     TABLES                               -> the spelling tables of the regenerated sources:
                                             "if=<list>|elseif=<list>|...|endif=..|wf=T"
     P <init vars: list n v n v ..> <tree: space separated prefix notation>
        -> "<script lines: list>\t<wf T|F>\t<spec result>\t<model result>"
   tree  ::= [ stmt* ]
   stmt  ::= c prim | i sp cond tree elses e | w sp cond tree e | f sp x hv tree e
   elses ::= n | ei sp cond tree elses | el sp tree
   cond  ::= N name | V name | ! cond
   prim  ::= E tag k v1..vk | S x v | C x y | A h k e1..ek | P hv v | 0
   (every name / spelling / value is a wire-encoded string)
   result ::= OK|T:<trace>|V:<vars>[|IF:..|WH:..|FOR:..|END:..]  |  STOP <line> <kind>  |  ERR | FUEL *)
let s x = str_of_field x
let rec p_block ts = match ts with
  | "[" :: r -> p_stmts r
  | _ -> failwith "bad block"
and p_stmts ts = match ts with
  | "]" :: r -> (BNil, r)
  | _ -> let (st, r) = p_stmt ts in let (b, r) = p_stmts r in (BCons (st, b), r)
and p_stmt ts = match ts with
  | "c" :: r -> let (p, r) = p_prim r in (SCmd p, r)
  | "i" :: sp :: r ->
      let (c, r) = p_cond r in let (b, r) = p_block r in let (e, r) = p_elses r in
      (match r with en :: r -> (SIf (s sp, c, b, e, s en), r) | _ -> failwith "bad if")
  | "w" :: sp :: r ->
      let (c, r) = p_cond r in let (b, r) = p_block r in
      (match r with en :: r -> (SWhile (s sp, c, b, s en), r) | _ -> failwith "bad while")
  | "f" :: sp :: x :: hv :: r ->
      let (b, r) = p_block r in
      (match r with en :: r -> (SFor (s sp, s x, s hv, b, s en), r) | _ -> failwith "bad for")
  | _ -> failwith "bad stmt"
and p_elses ts = match ts with
  | "n" :: r -> (ENil, r)
  | "ei" :: sp :: r ->
      let (c, r) = p_cond r in let (b, r) = p_block r in let (e, r) = p_elses r in
      (EElseIf (s sp, c, b, e), r)
  | "el" :: sp :: r -> let (b, r) = p_block r in (EElse (s sp, b), r)
  | _ -> failwith "bad elses"
and p_cond ts = match ts with
  | "N" :: n :: r -> (CNext (s n), r)
  | "V" :: n :: r -> (CVar (s n), r)
  | "!" :: r -> let (c, r) = p_cond r in (CNot c, r)
  | _ -> failwith "bad cond"
and p_prim ts =
  let rec take k r acc = if k = 0 then (List.rev acc, r) else
    (match r with x :: r -> take (k - 1) r (s x :: acc) | [] -> failwith "bad count") in
  match ts with
  | "E" :: tag :: k :: r -> let (vs, r) = take (int_of_string k) r [] in (PEmit (s tag, vs), r)
  | "S" :: x :: v :: r -> (PSet (s x, s v), r)
  | "C" :: x :: y :: r -> (PCopy (s x, s y), r)
  | "A" :: h :: k :: r -> let (es, r) = take (int_of_string k) r [] in (PArr (s h, es), r)
  | "P" :: hv :: v :: r -> (PPush (s hv, s v), r)
  | "0" :: r -> (PNop, r)
  | _ -> failwith "bad prim"

let space = n_of_int 32
let line_of_instr i =
  let ((out, cmd), args) = render i in
  let toks = (match cmd with Some c -> c :: args | None -> args) in
  let toks = (match out with Some o -> o :: [n_of_int 61] :: toks | None -> toks) in
  List.concat (List.mapi (fun k t -> if k = 0 then t else space :: t) toks)

let show_world (w : world) =
  let tr = String.concat ";" (List.rev_map (fun e -> String.concat "," (List.map field_of_str e)) w.w_trace) in
  let var (k, v) =
    let k' = field_of_str k in
    match List.assoc_opt v w.w_arrs with
    | Some l -> k' ^ "=A" ^ String.concat "+" (List.map field_of_str l)
    | None -> k' ^ "=S" ^ field_of_str v in
  let vs = List.sort compare (List.map var w.w_vars) in
  "T:" ^ tr ^ "|V:" ^ String.concat "," vs
let ints l = String.concat "+" (List.map (fun x -> string_of_int (int_of_nat x)) l)
let show_flow (f : flow) =
  let srt l = String.concat "," (List.sort compare l) in
  let i3 = Printf.sprintf "%05d" in
  let ifm = List.map (fun (l, m) -> Printf.sprintf "%s:%d:%d:%s" (i3 (int_of_nat l)) (int_of_nat m.im_start) (int_of_nat m.im_end) (ints m.im_else)) f.f_ifmeta in
  let lm = List.map (fun (l, m) -> Printf.sprintf "%s:%d:%d" (i3 (int_of_nat l)) (int_of_nat m.lm_start) (int_of_nat m.lm_end)) in
  let en = List.map (fun (l, c) -> Printf.sprintf "%s:%s" (i3 (int_of_nat l)) (field_of_str c)) f.f_end in
  "IF:" ^ srt ifm ^ "|WH:" ^ srt (lm f.f_whmeta) ^ "|FOR:" ^ srt (lm f.f_formeta) ^ "|END:" ^ srt en
let kind_of_cres = function
  | RError c -> "Error" ^ string_of_int (int_of_n c) | RCrash c -> "Crash" ^ string_of_int (int_of_n c)
  | RPanic -> "Panic" | RContinue -> "Continue" | RGoto _ -> "Goto"

let big_nat k = let rec go k acc = if k <= 0 then acc else go (k - 1) (S acc) in go k O
let tree_fuel = big_nat 6000
let flat_fuel = big_nat 30000
let rec init_world l w = match l with
  | k :: v :: r -> init_world r { w with w_vars = w.w_vars @ [(k, v)] }
  | _ -> w
let kv name l = name ^ "=" ^ field_of_list l
let () = iter_lines (fun line ->
  match fields line with
  | ["TABLES"] ->
      print_endline (String.concat "|" [
        kv "if" n_if; kv "elseif" n_elseif; kv "else" n_else; kv "endif" n_endif;
        kv "while" n_while; kv "endwhile" n_endwhile; kv "for" n_for; kv "endfor" n_endfor;
        kv "close_if" (closers CkIf); kv "close_while" (closers CkWhile); kv "close_for" (closers CkFor);
        "wf=" ^ b2s tables_wf])
  | ["P"; init; tree] ->
      (try
        let (b, rest) = p_block (String.split_on_char ' ' tree) in
        if rest <> [] then failwith "trailing tokens";
        let w0 = init_world (list_of_field init) world0 in
        let prog = compile b in
        let text = List.map line_of_instr prog in
        let spec = (match tree_run tree_fuel b w0 with
          | TOk w -> "OK|" ^ show_world w | TErr -> "ERR" | TFuel -> "FUEL") in
        let model = (match run_program flat_fuel prog w0 with
          | Done (w, f) -> "OK|" ^ show_world w ^ "|" ^ show_flow f
          | Stopped (l, r, _) -> Printf.sprintf "STOP %d %s" (int_of_nat l) (kind_of_cres r)
          | OutOfFuel -> "FUEL") in
        Printf.printf "%s\t%s\t%s\t%s\n" (field_of_list text) (b2s (wfb_b b)) spec model
      with Failure m -> print_endline ("BADCASE " ^ m))
  | ["M"; init; tree; op; k] ->
      (* malformed stream: the compiled program with one line deleted (d), replaced by the generic
         end (e) or swapped with the next one (s); only the flat machine runs *)
      (try
        let (b, _) = p_block (String.split_on_char ' ' tree) in
        let w0 = init_world (list_of_field init) world0 in
        let prog = compile b in
        let k = int_of_string k in
        let n = List.length prog in
        let k = if n = 0 then 0 else k mod n in
        let endi = { i_cmd = Some (str_of_field "101.110.100"); i_arg = ANone } in
        let prog' = (match op with
          | "d" -> List.filteri (fun j _ -> j <> k) prog
          | "e" -> List.mapi (fun j i -> if j = k then endi else i) prog
          | _ -> let a = Array.of_list prog in
                 if k + 1 < n then (let t = a.(k) in a.(k) <- a.(k + 1); a.(k + 1) <- t);
                 Array.to_list a) in
        let text = List.map line_of_instr prog' in
        let model = (match run_program flat_fuel prog' w0 with
          | Done (w, f) -> "OK|" ^ show_world w ^ "|" ^ show_flow f
          | Stopped (l, r, _) -> Printf.sprintf "STOP %d %s" (int_of_nat l) (kind_of_cres r)
          | OutOfFuel -> "FUEL") in
        Printf.printf "%s\t%s\n" (field_of_list text) model
      with Failure m -> print_endline ("BADCASE " ^ m))
  | _ -> print_endline "BADLINE")
