(* C09 driver.  Input lines (TAB-separated):
     C <cmd> <env> <args>  -> "<in-domain T/F>\t<classes>\t<model call>\t<serialised line>\t<all arguments safe_simple T/F>"
   env: "-" or space-separated name:value.
   classes: "-" or letters N Q H D B P (some argument is in the class), E (first argument), W (last argument);
            in-domain = is_cmd cmd && forallb safe args && head_ok args && last_ok args, the hypotheses of
            C09_roundtrip, computed by the extracted predicates themselves.
   model call: A<list> the command word is <cmd> and is called with these arguments | X<word> another command word |
            N nothing is called | E parse error | P panic *)
let env_of_field s =
  if s = "-" then env_of_list [] else
  env_of_list (List.map (fun p ->
    match String.split_on_char ':' p with
    | [n; v] -> (str_of_field n, str_of_field v)
    | _ -> failwith "bad env") (String.split_on_char ' ' s))
let rec last = function [] -> None | [a] -> Some a | _ :: r -> last r
let classes args =
  let any f = List.exists f args in
  let s = (if any cls_NL then "N" else "") ^ (if any cls_Q then "Q" else "") ^ (if any cls_H then "H" else "")
        ^ (if any cls_D then "D" else "") ^ (if any cls_B then "B" else "") ^ (if any cls_P then "P" else "")
        ^ (match args with a :: _ when cls_E a -> "E" | _ -> "")
        ^ (match last args with Some a when cls_W a -> "W" | _ -> "") in
  let dom = forallb safe args && head_ok args && last_ok args in
  if dom <> (s = "") then "INCONSISTENT" else if s = "" then "-" else s
let () = iter_lines (fun line ->
  match fields line with
  | ["C"; cmd; env; args] ->
      let cmd = str_of_field cmd in
      let a = list_of_field args in
      let dom = is_cmd cmd && forallb safe a && head_ok a && last_ok a in
      (* the call is computed by the INDEX-FAITHFUL model EvalSerIx.eval_call_ix (index-faithful parser and binder,
         `instructions[0]`, explicit Panic = P); by C09_ix_refines it equals the suffix model's, a disagreement is
         printed as IXDIFF and reported by the check *)
      let e = env_of_field env in
      let ci = eval_call_ix e (cmd :: a) in
      let r = if ci <> eval_call e (cmd :: a) then "IXDIFF" else match ci with
        | Call (_, _, command, bound) -> if command = cmd then "A" ^ field_of_list bound else "X" ^ field_of_str command
        | NoCall -> "N" | CallErr _ -> "E" | CallPanic -> "P" in
      Printf.printf "%s\t%s\t%s\t%s\t%s\n" (b2s dom) (classes a) r (field_of_str (serialise (cmd :: a))) (b2s (forallb safe_simple a))
  | _ -> print_endline "BADLINE")
