(* C20 driver.  Input lines:
     D <args>          -> REPL | VERSION | HELP | FILE <str> | TEXT <str> | LINT <str>       (dispatch)
     L <content>       -> <parsed T|F> TAB OK | PARSE <kind> <line> | LINT <label|command|output> <line>
                          (lint_parsed (parse_text content): a file without include directives)
     X <OK|ERR>        -> <exit status> <prints "Error: " T|F>
     A                 -> lower_ascii of the 128 ASCII characters, space separated *)
let kind_s = function
  | EControlWithoutValidValue -> "ControlWithoutValidValue"
  | EInvalidControlLocation -> "InvalidControlLocation"
  | EMissingEndQuotes -> "MissingEndQuotes"
  | EInvalidQuotesLocation -> "InvalidQuotesLocation"
  | EEmptyLabel -> "EmptyLabel"
  | EPreProcessNoCommandFound -> "PreNoCommand"
  | EUnknownPreProcessorCommand -> "UnknownPreProcessorCommand"
  | EMissingOutputVariableName -> "MissingOutputVariableName"
  | EInvalidEqualsLocation -> "InvalidEqualsLocation"
  | EReadFile -> "ReadFile"
  | EFuel -> "FUEL"
let res_s = function
  | ROk -> "OK"
  | RErr CLib -> "LIB"
  | RErr (CParse (e, l, _)) -> Printf.sprintf "PARSE %s %d" (kind_s e) (int_of_n l)
  | RErr (CLint (k, l, _)) ->
      Printf.sprintf "LINT %s %d" (match k with LLabel -> "label" | LCommand -> "command" | LOutput -> "output") (int_of_n l)
let () = iter_lines (fun line ->
  match fields line with
  | ["D"; args] ->
      print_endline (match dispatch (list_of_field args) with
        | ARepl -> "REPL" | AVersion -> "VERSION" | AHelp -> "HELP"
        | ARunFile f -> "FILE " ^ field_of_str f
        | ARunText t -> "TEXT " ^ field_of_str t
        | ALint f -> "LINT " ^ field_of_str f)
  | ["L"; content] ->
      let r = parse_text (str_of_field content) in
      Printf.printf "%s\t%s\n" (b2s (lint_says_parsed r)) (res_s (lint_parsed r))
  | ["X"; v] ->
      let r = if v = "OK" then ROk else RErr CLib in
      Printf.printf "%d %s\n" (int_of_n (exit_code gen_cli_err_status r)) (b2s (prints_error r))
  | ["A"] ->
      print_endline (String.concat " " (List.init 128 (fun c -> string_of_int (int_of_n (lower_ascii (n_of_int c))))))
  | _ -> print_endline "BADLINE")
