(* C19 driver: a single command "TABLES" prints the tables the check needs:
   SCRIPT <path> <name> <aliases> <scope> <min_args> <confined T/F>   one line per script command
   PURE <list>     FLOW <list>   then END *)
let () = iter_lines (fun line ->
  match fields line with
  | ["TABLES"] ->
      List.iter (fun s ->
        Printf.printf "SCRIPT\t%s\t%s\t%s\t%s\t%d\t%s\n" (field_of_str s.sc_path) (field_of_str s.sc_name)
          (field_of_list s.sc_aliases) (field_of_str s.sc_scope) (int_of_n s.sc_min_args) (b2s (script_confined s)))
        gen_scripts;
      Printf.printf "PURE\t%s\n" (field_of_list pure_cmds);
      Printf.printf "FLOW\t%s\n" (field_of_list flow_cmds);
      print_endline "END"
  | _ -> print_endline "BADLINE")
