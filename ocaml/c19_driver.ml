(* C19 driver.
   TABLES  prints the tables the check needs:
     SCRIPT <path> <name> <aliases> <scope> <min_args> <confined T/F> <confined_s T/F>   one line per script command
            (confined = the original syntactic check, confined_s = the strengthened one the soundness theorem uses)
     PURE <list>   FLOW <list>   COND <list>   TABLEOK <T/F>   then END
   WITNESS runs the extracted model (ScriptBodyToy.wit_run: array_concat's own script, loop variable "=", caller
           variable is_array, over commands satisfying every frame hypothesis) and prints
     WITNESS <flag T/F> <is_array still defined T/F>     or   WITNESS none *)
let () = iter_lines (fun line ->
  match fields line with
  | ["TABLES"] ->
      List.iter (fun s ->
        Printf.printf "SCRIPT\t%s\t%s\t%s\t%s\t%d\t%s\t%s\n" (field_of_str s.sc_path) (field_of_str s.sc_name)
          (field_of_list s.sc_aliases) (field_of_str s.sc_scope) (int_of_n s.sc_min_args) (b2s (script_confined s))
          (b2s (script_confined_s s)))
        gen_scripts;
      Printf.printf "PURE\t%s\n" (field_of_list pure_cmds);
      Printf.printf "FLOW\t%s\n" (field_of_list flow_cmds);
      Printf.printf "COND\t%s\n" (field_of_list cond_cmds);
      Printf.printf "TABLEOK\t%s\n" (b2s (table_ok_s gen_table));
      print_endline "END"
  | ["WITNESS"] ->
      (match wit_summary with
       | Some (odd, still) -> Printf.printf "WITNESS\t%s\t%s\n" (b2s odd) (b2s still)
       | None -> print_endline "WITNESS\tnone")
  | _ -> print_endline "BADLINE")
