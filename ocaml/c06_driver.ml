(* C06 driver.  Input lines:
     T <tokens>        -> "<verdict>"                 model verdict for an arbitrary token list
     C <prefix tree>   -> "<tokens>\t<verdict>\t<sem>"  for a condition tree (the theorem's domain)
   verdict: T | F | E<code> ; prefix tree: cond ::= a ATOM | & ATOM cond | "|" ATOM cond ;
   ATOM ::= v:<str> | e | g cond *)
let verdict r = match r with Ok b -> b2s b | Err c -> "E" ^ string_of_int (int_of_n c) | Fuel -> "FUEL"
(* The verdict printed for a token list is the one of the INDEX-FAITHFUL model CondIx.eval_slice_ix
   (default release profile, wrapping i32: whole slice, start_block/index, i32 counter, `&arguments[start_block..index]`;
   PANIC is an explicit outcome).  The suffix model Cond.eval_slice and the overflow-checked index model
   (the profile of the harness build) are evaluated as well: by C06_ix_refines / C06_ix_checked all three agree, a disagreement is
   printed as IXDIFF(..) and reported by the check as a broken obligation. *)
let verdict_ix r = match r with
  | IOk b -> b2s b | IErr c -> "E" ^ string_of_int (int_of_n c) | IFuel -> "FUEL" | IPanic -> "PANIC"
let verdict3 ts =
  let i = verdict_ix (eval_slice_ix ts) in
  let d = verdict_ix (eval_slice_ix_checked ts) in
  let s = verdict (eval_slice ts) in
  if i = s && d = s then i else Printf.sprintf "IXDIFF(ix=%s,checked=%s,suffix=%s)" i d s
let rec p_cond ts = match ts with
  | "a" :: r -> let (a, r) = p_atom r in (CAtom a, r)
  | "&" :: r -> let (a, r) = p_atom r in let (c, r) = p_cond r in (CAnd (a, c), r)
  | "|" :: r -> let (a, r) = p_atom r in let (c, r) = p_cond r in (COr (a, c), r)
  | _ -> failwith "bad cond"
and p_atom ts = match ts with
  | "e" :: r -> (AEmpty, r)
  | "g" :: r -> let (c, r) = p_cond r in (AGrp c, r)
  | t :: r when String.length t >= 2 && String.sub t 0 2 = "v:" ->
      (AVal (str_of_field (String.sub t 2 (String.length t - 2))), r)
  | _ -> failwith "bad atom"
let () = iter_lines (fun line ->
  match fields line with
  | ["T"; toks] -> print_endline (verdict3 (list_of_field toks))
  | ["C"; tree] ->
      let (c, _) = p_cond (String.split_on_char ' ' tree) in
      let ts = toks c in
      Printf.printf "%s\t%s\t%s\n" (field_of_list ts) (verdict3 ts) (b2s (sem is_true_some c))
  | _ -> print_endline "BADLINE")
