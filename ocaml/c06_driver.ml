(* C06 driver.  Input lines:
     T <tokens>        -> "<verdict>"                 model verdict for an arbitrary token list
     C <prefix tree>   -> "<tokens>\t<verdict>\t<sem>"  for a condition tree (the theorem's domain)
   verdict: T | F | E<code> ; prefix tree: cond ::= a ATOM | & ATOM cond | "|" ATOM cond ;
   ATOM ::= v:<str> | e | g cond *)
let verdict r = match r with Ok b -> b2s b | Err c -> "E" ^ string_of_int (int_of_n c) | Fuel -> "FUEL"
let rec p_cond ts = match ts with
  | "a" :: r -> let (a, r) = p_atom r in (CAtom a, r)
  | "&" :: r -> let (a, r) = p_atom r in let (c, r) = p_cond r in (CAnd (a, c), r)
  | "|" :: r -> let (a, r) = p_atom r in let (c, r) = p_cond r in (COr (a, c), r)
  | _ -> failwith "bad cond"
and p_atom ts = match ts with
  | "e" :: r -> (AEmpty, r)
  | "g" :: r -> let (c, r) = p_cond r in (AGrp c, r)
  | t :: r when String.length t >= 2 && String.sub t 0 2 = "v:" ->
      (AVal (str_of_field (String.sub t 2 (String.length t - 2))), r)
  | _ -> failwith "bad atom"
let () = iter_lines (fun line ->
  match fields line with
  | ["T"; toks] -> print_endline (verdict (eval_slice (list_of_field toks)))
  | ["C"; tree] ->
      let (c, _) = p_cond (String.split_on_char ' ' tree) in
      let ts = toks c in
      Printf.printf "%s\t%s\t%s\n" (field_of_list ts) (verdict (eval_slice ts)) (b2s (sem is_true_some c))
  | _ -> print_endline "BADLINE")
