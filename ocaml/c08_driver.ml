(* C08 driver.  Input lines:
     P <text>                       -> "<model result>\t<spec result>"
     X <alphabet> <len> <from> <n>  -> "H <digest> <n ok> <n ok with a non-empty instruction> <n err>"   digest over the model results of the
                                       n texts of length len numbered from.. (base-|alphabet| digits, most
                                       significant first); the harness computes the same digest
     WS                             -> "WS <code points with is_ws, ascending>"
   result: "OK <n>;<instr>;..." | "ERR <kind> <line>"
   instr:  <line>,<src>,E | <line>,<src>,P,<command>,<args> | <line>,<src>,S,<label>,<output>,<command>,<args>
   optional string: N | S<str>; args: N | A<list> *)
let kind_name = function
  | EControlWithoutValidValue -> "ControlWithoutValidValue" | EInvalidControlLocation -> "InvalidControlLocation"
  | EMissingEndQuotes -> "MissingEndQuotes" | EInvalidQuotesLocation -> "InvalidQuotesLocation"
  | EEmptyLabel -> "EmptyLabel" | EPreProcessNoCommandFound -> "PreNoCommand"
  | EUnknownPreProcessorCommand -> "UnknownPreProcessorCommand"
  | EMissingOutputVariableName -> "MissingOutputVariableName" | EInvalidEqualsLocation -> "InvalidEqualsLocation"
  | EReadFile -> "ReadFile" | EFuel -> "FUEL"
let opt = function None -> "N" | Some s -> "S" ^ field_of_str s
let oargs = function None -> "N" | Some l -> "A" ^ field_of_list l
let fmt_type = function
  | IEmpty -> "E"
  | IPre (c, a) -> "P," ^ opt c ^ "," ^ oargs a
  | IScript (l, o, c, a) -> "S," ^ opt l ^ "," ^ opt o ^ "," ^ opt c ^ "," ^ oargs a
let fmt_instr i = string_of_int (int_of_n i.i_line) ^ "," ^ opt i.i_source ^ "," ^ fmt_type i.i_type
let fmt_ok l = String.concat ";" (("OK " ^ string_of_int (List.length l)) :: l)
let fmt_res = function
  | TOk is -> fmt_ok (List.map fmt_instr is)
  | TErr (e, ln, _) -> "ERR " ^ kind_name e ^ " " ^ string_of_int (int_of_n ln)
(* what the C08 theorems predict from the lines alone: one instruction per line, or the error of
   the first unacceptable line *)
let spec_res text =
  let ls = lines text in
  let rec go k ls acc = match ls with
    | [] -> fmt_ok (List.rev acc)
    | s :: r ->
      (match line_error s with
       | Some e -> "ERR " ^ kind_name e ^ " " ^ string_of_int (if e = EReadFile then 0 else k)
       | None ->
         (match parse_line s with
          | POk t -> go (k + 1) r ((string_of_int k ^ ",N," ^ fmt_type t) :: acc)
          | PErr _ -> "SPEC-INCONSISTENT"))
  in go 1 ls []
let mask = 0x3FFFFFFFFFFFFFFF
let digest_add h s =
  let h = ref h in
  String.iter (fun c -> h := ((!h * 31) + Char.code c) land mask) s;
  ((!h * 31) + 10) land mask
let () = iter_lines (fun line ->
  match fields line with
  | ["P"; t] -> let t = str_of_field t in print_endline (fmt_res (parse_text t) ^ "\t" ^ spec_res t)
  | ["X"; alpha; len; from; n] ->
      let alpha = Array.of_list (str_of_field alpha) in
      let b = Array.length alpha in
      let len = int_of_string len and from = int_of_string from and n = int_of_string n in
      let h = ref 0 and ok = ref 0 and ne = ref 0 and err = ref 0 in
      for idx = from to from + n - 1 do
        let rec digits k x acc = if k = 0 then acc else digits (k - 1) (x / b) (alpha.(x mod b) :: acc) in
        let r = fmt_res (parse_text (digits len idx [])) in
        if r.[0] = 'O' then (incr ok; if String.contains r 'S' || String.contains r 'P' then incr ne) else incr err;
        h := digest_add !h r
      done;
      Printf.printf "H %d %d %d %d\n" !h !ok !ne !err
  | ["WS"] ->
      let b = Buffer.create 256 in
      Buffer.add_string b "WS";
      for cp = 0 to 0x10FFFF do
        if (cp < 0xD800 || cp > 0xDFFF) && is_ws (n_of_int cp) then Buffer.add_string b (" " ^ string_of_int cp)
      done;
      print_endline (Buffer.contents b)
  | _ -> print_endline "BADLINE")
