(* C08 driver.  Input lines:
     P <text>                       -> "<model result>\t<spec result>\t<index model result>"
     X <alphabet> <len> <from> <n>  -> "H <digest> <n ok> <n ok with a non-empty instruction> <n err>\tIXDIFF <n texts where the index model differs>"   digest over the model results of the
                                       n texts of length len numbered from.. (base-|alphabet| digits, most
                                       significant first); the harness computes the same digest
     WS                             -> "WS <code points with is_ws, ascending>"
     B <lead> <trail> <body...>     -> "V<1|0> <line> <kind>"  a member of an error class of C08_errors:
                                       line = extracted render_bad, V1 iff extracted valid_bad, kind = class_kind (class_of b)
        body:  T <item> <gap> <token>     item as in the C01 driver (12 comma-separated fields)
                                          token: U,<s>,<bits> | E,<q>,<s>,<bits>,<B|D|G|H>,<x>,<rest>
               N <pos> <fault>            pos: L | F,<label>,<gap> | C,<label>,<gap>,<out>,<el>,<er>
                                          fault: Q,<rest> | B,<pre>,<rest>
               A                          '!' alone
               K <k> <word> <more>        more: N | <args>;<argchoices>;<comment>
   result: "OK <n>;<instr>;..." | "ERR <kind> <line>"
   instr:  <line>,<src>,E | <line>,<src>,P,<command>,<args> | <line>,<src>,S,<label>,<output>,<command>,<args>
   optional string: N | S<str>; args: N | A<list> *)
let kind_name = function
  | EControlWithoutValidValue -> "ControlWithoutValidValue" | EInvalidControlLocation -> "InvalidControlLocation"
  | EMissingEndQuotes -> "MissingEndQuotes" | EInvalidQuotesLocation -> "InvalidQuotesLocation"
  | EEmptyLabel -> "EmptyLabel" | EPreProcessNoCommandFound -> "PreNoCommand"
  | EUnknownPreProcessorCommand -> "UnknownPreProcessorCommand"
  | EMissingOutputVariableName -> "MissingOutputVariableName" | EInvalidEqualsLocation -> "InvalidEqualsLocation"
  | EReadFile -> "ReadFile" | EFuel -> "FUEL"
let opt = function None -> "N" | Some s -> "S" ^ field_of_str s
let oargs = function None -> "N" | Some l -> "A" ^ field_of_list l
let fmt_type = function
  | IEmpty -> "E"
  | IPre (c, a) -> "P," ^ opt c ^ "," ^ oargs a
  | IScript (l, o, c, a) -> "S," ^ opt l ^ "," ^ opt o ^ "," ^ opt c ^ "," ^ oargs a
let fmt_instr i = string_of_int (int_of_n i.i_line) ^ "," ^ opt i.i_source ^ "," ^ fmt_type i.i_type
let fmt_ok l = String.concat ";" (("OK " ^ string_of_int (List.length l)) :: l)
let fmt_res = function
  | TOk is -> fmt_ok (List.map fmt_instr is)
  | TErr (e, ln, _) -> "ERR " ^ kind_name e ^ " " ^ string_of_int (int_of_n ln)
let fmt_ires = function
  | ITOk is -> fmt_ok (List.map fmt_instr is)
  | ITErr (e, ln, _) -> "ERR " ^ kind_name e ^ " " ^ string_of_int (int_of_n ln)
  | ITPanic -> "PANIC"
(* what the C08 theorems predict from the lines alone: one instruction per line, or the error of
   the first unacceptable line *)
let spec_res text =
  let ls = lines text in
  let rec go k ls acc = match ls with
    | [] -> fmt_ok (List.rev acc)
    | s :: r ->
      (match line_error s with
       | Some e -> "ERR " ^ kind_name e ^ " " ^ string_of_int (if e = EReadFile then 0 else k)
       | None ->
         (match parse_line s with
          | POk t -> go (k + 1) r ((string_of_int k ^ ",N," ^ fmt_type t) :: acc)
          | PErr _ -> "SPEC-INCONSISTENT"))
  in go 1 ls []
let p_opt s = if s = "N" then None else Some (str_of_field (String.sub s 1 (String.length s - 1)))
let p_bits s = if s = "-" then [] else List.init (String.length s) (fun k -> s.[k] = '1')
let p_nat s = nat_of_int (int_of_string s)
let p_argch s = match String.split_on_char ':' s with
  | [g; q; b] -> { a_gap = p_nat g; a_quoted = (q = "1"); a_esc = p_bits b }
  | _ -> failwith "argch"
let p_argchs ac = if ac = "-" then [] else List.map p_argch (String.split_on_char ' ' ac)
let p_comment s = if s = "N" then None else
  let k = String.index s ':' in
  Some (p_nat (String.sub s 0 k), str_of_field (String.sub s (k + 1) (String.length s - k - 1)))
let p_item s = match String.split_on_char ',' s with
  | [l; o; c; a; lead; trail; lg; el; er; ac; cm; _] ->
    ({ s_label = p_opt l; s_output = p_opt o; s_command = p_opt c; s_args = list_of_field a },
     { ch_lead = str_of_field lead; ch_trail = str_of_field trail; ch_label_gap = p_nat lg; ch_eq_left = p_nat el;
       ch_eq_right = p_nat er; ch_args = p_argchs ac; ch_comment = p_comment cm })
  | _ -> failwith "item"
let p_token s = match String.split_on_char ',' s with
  | ["U"; t; b] -> TUnterminated (str_of_field t, p_bits b)
  | ["E"; q; t; b; fk; x; rest] ->
    let f = (match fk with
      | "B" -> FBad (n_of_int (int_of_string x), str_of_field rest)
      | "D" -> FDollar (n_of_int (int_of_string x), str_of_field rest)
      | "G" -> FDangling | "H" -> FDanglingDollar | _ -> failwith "fault") in
    TEscape (q = "1", str_of_field t, p_bits b, f)
  | _ -> failwith "token"
let p_pos s = match String.split_on_char ',' s with
  | ["L"] -> PLabel
  | ["F"; l; g] -> PFirst (p_opt l, p_nat g)
  | ["C"; l; g; o; el; er] -> PCommand (p_opt l, p_nat g, str_of_field o, p_nat el, p_nat er)
  | _ -> failwith "pos"
let p_nfault s = match String.split_on_char ',' s with
  | ["Q"; r] -> NQuote (str_of_field r)
  | ["B"; p; r] -> NBackslash (str_of_field p, str_of_field r)
  | _ -> failwith "nfault"
let p_body = function
  | ["T"; item; gap; tok] -> let (i, ch) = p_item item in BToken (i, ch, p_nat gap, p_token tok)
  | ["N"; pos; nf] -> BName (p_pos pos, p_nfault nf)
  | ["A"] -> BBangAlone
  | ["K"; k; word; more] ->
    let m = if more = "N" then None else
      (match String.split_on_char ';' more with
       | [a; ac; cm] -> Some ((list_of_field a, p_argchs ac), p_comment cm)
       | _ -> failwith "more") in
    BBangUnknown (p_nat k, str_of_field word, m)
  | _ -> failwith "body"
let mask = 0x3FFFFFFFFFFFFFFF
let digest_add h s =
  let h = ref h in
  String.iter (fun c -> h := ((!h * 31) + Char.code c) land mask) s;
  ((!h * 31) + 10) land mask
let () = iter_lines (fun line ->
  match fields line with
  | ["P"; t] -> let t = str_of_field t in print_endline (fmt_res (parse_text t) ^ "\t" ^ spec_res t ^ "\t" ^ fmt_ires (ix_parse_text t))
  | ["X"; alpha; len; from; n] ->
      let alpha = Array.of_list (str_of_field alpha) in
      let b = Array.length alpha in
      let len = int_of_string len and from = int_of_string from and n = int_of_string n in
      let h = ref 0 and ok = ref 0 and ne = ref 0 and err = ref 0 and ixdiff = ref 0 in
      for idx = from to from + n - 1 do
        let rec digits k x acc = if k = 0 then acc else digits (k - 1) (x / b) (alpha.(x mod b) :: acc) in
        let t = digits len idx [] in
        let r = fmt_res (parse_text t) in
        if fmt_ires (ix_parse_text t) <> r then incr ixdiff;
        if r.[0] = 'O' then (incr ok; if String.contains r 'S' || String.contains r 'P' then incr ne) else incr err;
        h := digest_add !h r
      done;
      Printf.printf "H %d %d %d %d\tIXDIFF %d\n" !h !ok !ne !err !ixdiff
  | "B" :: lead :: trail :: body ->
    (try
      let b = { b_lead = str_of_field lead; b_body = p_body body; b_trail = str_of_field trail } in
      Printf.printf "V%s\t%s\t%s\n" (if valid_bad b then "1" else "0") (field_of_str (render_bad b))
        (kind_name (class_kind (class_of b)))
    with Failure m -> print_endline ("BADCASE " ^ m))
  | ["WS"] ->
      let b = Buffer.create 256 in
      Buffer.add_string b "WS";
      for cp = 0 to 0x10FFFF do
        if (cp < 0xD800 || cp > 0xDFFF) && is_ws (n_of_int cp) then Buffer.add_string b (" " ^ string_of_int cp)
      done;
      print_endline (Buffer.contents b)
  | _ -> print_endline "BADLINE")
