(* C01 driver.  Input lines:
     S <item>;<item>;...|- <last item|N>
   item = 12 comma-separated fields
     label,output,command,args,lead,trail,label_gap,eq_left,eq_right,argchoices,comment,eol
   label/output/command: N | S<str>;  args: list of strings;  lead/trail: str;  gaps: decimal;
   argchoices: space-separated  <gap>:<q 0|1>:<escape bits, e.g. 0110 or ->   (or - for none);
   comment: N | <k>:<str>;  eol: L | C   (ignored for the last item)
   Output: V<1|0> <text> <expected> <model>
     V1 iff every item satisfies wf && valid (the theorem's domain);  text = render_script (the
     extracted renderer);  expected = the instructions that were rendered, numbered from 1 (the
     right-hand side of C01_script);  model = extracted parse_text on the text. *)
let kind_name = function
  | EControlWithoutValidValue -> "ControlWithoutValidValue" | EInvalidControlLocation -> "InvalidControlLocation"
  | EMissingEndQuotes -> "MissingEndQuotes" | EInvalidQuotesLocation -> "InvalidQuotesLocation"
  | EEmptyLabel -> "EmptyLabel" | EPreProcessNoCommandFound -> "PreNoCommand"
  | EUnknownPreProcessorCommand -> "UnknownPreProcessorCommand"
  | EMissingOutputVariableName -> "MissingOutputVariableName" | EInvalidEqualsLocation -> "InvalidEqualsLocation"
  | EReadFile -> "ReadFile" | EFuel -> "FUEL"
let opt = function None -> "N" | Some s -> "S" ^ field_of_str s
let oargs = function None -> "N" | Some l -> "A" ^ field_of_list l
let fmt_type = function
  | IEmpty -> "E"
  | IPre (c, a) -> "P," ^ opt c ^ "," ^ oargs a
  | IScript (l, o, c, a) -> "S," ^ opt l ^ "," ^ opt o ^ "," ^ opt c ^ "," ^ oargs a
let fmt_instr i = string_of_int (int_of_n i.i_line) ^ "," ^ opt i.i_source ^ "," ^ fmt_type i.i_type
let fmt_ok l = String.concat ";" (("OK " ^ string_of_int (List.length l)) :: l)
let fmt_res = function
  | TOk is -> fmt_ok (List.map fmt_instr is)
  | TErr (e, ln, _) -> "ERR " ^ kind_name e ^ " " ^ string_of_int (int_of_n ln)
let p_opt s = if s = "N" then None else Some (str_of_field (String.sub s 1 (String.length s - 1)))
let p_bits s = if s = "-" then [] else List.init (String.length s) (fun k -> s.[k] = '1')
let p_argch s = match String.split_on_char ':' s with
  | [g; q; b] -> { a_gap = nat_of_int (int_of_string g); a_quoted = (q = "1"); a_esc = p_bits b }
  | _ -> failwith "argch"
let p_comment s = if s = "N" then None else
  let k = String.index s ':' in
  Some (nat_of_int (int_of_string (String.sub s 0 k)), str_of_field (String.sub s (k + 1) (String.length s - k - 1)))
let p_item s = match String.split_on_char ',' s with
  | [l; o; c; a; lead; trail; lg; el; er; ac; cm; eol] ->
    let i = { s_label = p_opt l; s_output = p_opt o; s_command = p_opt c; s_args = list_of_field a } in
    let ch = { ch_lead = str_of_field lead; ch_trail = str_of_field trail;
               ch_label_gap = nat_of_int (int_of_string lg); ch_eq_left = nat_of_int (int_of_string el);
               ch_eq_right = nat_of_int (int_of_string er);
               ch_args = (if ac = "-" then [] else List.map p_argch (String.split_on_char ' ' ac));
               ch_comment = p_comment cm } in
    ((i, ch), (if eol = "C" then EolCRLF else EolLF))
  | _ -> failwith "item"
let () = iter_lines (fun line ->
  match fields line with
  | ["S"; items; last] ->
    (try
      let items = if items = "-" then [] else List.map p_item (String.split_on_char ';' items) in
      let last = if last = "N" then None else Some (fst (p_item last)) in
      let ok = List.for_all item_ok items && last_ok last in
      let text = render_script items last in
      let expected = fmt_res (TOk (expect_from (n_of_int 1) (script_instrs items last))) in
      Printf.printf "V%s\t%s\t%s\t%s\n" (if ok then "1" else "0") (field_of_str text) expected (fmt_res (parse_text text))
    with Failure m -> print_endline ("BADCASE " ^ m))
  | _ -> print_endline "BADLINE")
