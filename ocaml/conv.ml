(* conv.ml — textually appended after every extracted model: conversions between the wire format
   (one case per line, TAB-separated fields, strings as dot-separated decimal code points, "e" for
   the empty string, lists of strings space-separated, "-" for the empty list) and the extracted
   datatypes (positive / n / z / nat are the Coq datatypes; no Extract Inductive is used). *)
let rec pos_of_int i = if i = 1 then XH else if i land 1 = 1 then XI (pos_of_int (i lsr 1)) else XO (pos_of_int (i lsr 1))
let n_of_int i = if i = 0 then N0 else Npos (pos_of_int i)
let rec int_of_pos = function XH -> 1 | XO p -> 2 * int_of_pos p | XI p -> 2 * int_of_pos p + 1
let int_of_n = function N0 -> 0 | Npos p -> int_of_pos p
let z_of_int i = if i = 0 then Z0 else if i > 0 then Zpos (pos_of_int i) else Zneg (pos_of_int (- i))
let int_of_z = function Z0 -> 0 | Zpos p -> int_of_pos p | Zneg p -> - (int_of_pos p)
let rec nat_of_int i = if i <= 0 then O else S (nat_of_int (i - 1))
let rec int_of_nat = function O -> 0 | S k -> 1 + int_of_nat k
let str_of_field s = if s = "e" then [] else List.map (fun x -> n_of_int (int_of_string x)) (String.split_on_char '.' s)
let field_of_str l = if l = [] then "e" else String.concat "." (List.map (fun x -> string_of_int (int_of_n x)) l)
let list_of_field s = if s = "-" then [] else List.map str_of_field (String.split_on_char ' ' s)
let field_of_list l = if l = [] then "-" else String.concat " " (List.map field_of_str l)
let fields line = String.split_on_char '\t' line
let iter_lines f =
  (try while true do f (input_line stdin) done with End_of_file -> ());
  flush stdout
let b2s b = if b then "T" else "F"
