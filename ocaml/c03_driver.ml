(* C03 / C13 driver.  Input lines (TAB-separated):
     P <src> <halt_at> <fuel> <prog> <cmds> <vars> [<script text, used by the Rust side only>]
        -> <OK|ERR|FUEL> <detail> <line> <src> <log> <vars>      run of the model
           (kind Q = the same for the model; the Rust side runs it with the runner's default Env)
     B <src> <halt_at> <fuel> <prog> <cmds> <vars> <text>
        -> the same through RunnerBind.run_bound: arguments are bound (Expansion.bind_args) against the
           variables of the moment; the log shows the BOUND arguments
     I <src> <n> <prog> <cmds> <vars>
        -> CFG <pc> <halt flag> - <log> <vars>  |  NONE           un-halted machine after n iterations
     F <src> <n> <maxsteps> <prog> <cmds> <vars>
        -> CAND <log> <vars>&<vars>...  |  NOCAND             boundaries of the un-halted run with n invocations
     M <fuel> <prog> <cmds> <aliases> <watch>                  nested flows, see the M case below
   src      N | S<str>            source file of the script (None: run from text)
   halt_at  N | <k>               external flag raised from poll k on
   prog     - | line;line;...     line = E | P | <label>|<out>|<cmd>|<args>   (options N / S<str>, args a list)
                                  instruction k (0-based) has source line k+1
   cmds     - | c;c;...           c = <name>|<cyclic 0/1>|<r,r,...>   ("-" no results)
                                  r = [!] C<opt> | L<opt>:<label> | J<opt>:<n> | X<opt> | E<msg> | K<msg>
                                  "!" = the command raises the halt flag before answering
   vars     - | k=v;k=v
   detail   OK: END|EXIT|HALT   ERR: CRASH <m> | NOTFOUND <c> | LABEL <l> | EXIT <z> | HEXIT | HCRASH <m>
   log      - | name|args|out|line;...      vars sorted by encoded text *)
let opt_of_field s = if s = "N" then None else Some (str_of_field (String.sub s 1 (String.length s - 1)))
let field_of_opt = function None -> "N" | Some s -> "S" ^ field_of_str s
let split_nonempty c s = if s = "-" then [] else String.split_on_char c s

let parse_line k l =
  let m src = { m_line = Some (nat_of_int (k + 1)); m_src = src } in
  fun src ->
    match l with
    | "E" -> { i_meta = m src; i_type = IEmpty }
    | "P" -> { i_meta = m src; i_type = IPre }
    | _ -> (match String.split_on_char '|' l with
        | [lb; out; c; args] ->
            { i_meta = m src;
              i_type = IScript { s_label = opt_of_field lb; s_out = opt_of_field out; s_cmd = opt_of_field c;
                                 s_args = list_of_field args } }
        | _ -> failwith "bad line")

let parse_prog src s = List.mapi (fun k l -> parse_line k l src) (split_nonempty ';' s)

let parse_res r =
  let (h, r) = if r.[0] = '!' then (true, String.sub r 1 (String.length r - 1)) else (false, r) in
  let body = String.sub r 1 (String.length r - 1) in
  let two () = match String.index_opt body ':' with
    | Some i -> (String.sub body 0 i, String.sub body (i + 1) (String.length body - i - 1))
    | None -> failwith "bad goto" in
  let res = match r.[0] with
    | 'C' -> Continue (opt_of_field body)
    | 'X' -> Exit (opt_of_field body)
    | 'E' -> Error (str_of_field body)
    | 'K' -> Crash (Msg (str_of_field body))
    | 'L' -> let (o, l) = two () in GoTo (opt_of_field o, GLabel (str_of_field l))
    | 'J' -> let (o, n) = two () in GoTo (opt_of_field o, GLine (nat_of_int (int_of_string n)))
    | _ -> failwith "bad result" in
  { sr_res = res; sr_halt = h }

let parse_cmds s = List.map (fun c ->
  match String.split_on_char '|' c with
  | [name; cyc; rs] -> (str_of_field name, (List.map parse_res (split_nonempty ',' rs), cyc = "1"))
  | _ -> failwith "bad cmd") (split_nonempty ';' s)

let parse_vars s = List.map (fun kv ->
  match String.split_on_char '=' kv with
  | [k; v] -> (str_of_field k, str_of_field v)
  | _ -> failwith "bad var") (split_nonempty ';' s)

let show_log (t : event list) =
  let calls = List.concat_map (fun e -> e.e_calls) t in
  if calls = [] then "-" else
  String.concat ";" (List.map (fun c ->
    Printf.sprintf "%s|%s|%s|%d" (field_of_str c.c_name) (field_of_list c.c_inv.a_args)
      (field_of_opt c.c_inv.a_out) (int_of_nat c.c_inv.a_line)) calls)

let show_vars w =
  let l = List.map (fun (k, v) -> field_of_str k ^ "=" ^ field_of_str v) (vars_list w) in
  if l = [] then "-" else String.concat ";" (List.sort compare l)

let show_emsg = function Msg m -> field_of_str m | NotFound c -> "?" ^ field_of_str c
let show_err = function
  | RCrash (Msg m) -> "CRASH " ^ field_of_str m
  | RCrash (NotFound c) -> "NOTFOUND " ^ field_of_str c
  | RLabel l -> "LABEL " ^ field_of_str l
  | RExitCode z -> "EXIT " ^ string_of_int (int_of_z z)
  | RHandlerExit -> "HEXIT"
  | RHandlerCrash m -> "HCRASH " ^ show_emsg m

let () = iter_lines (fun line ->
  match fields line with
  | (("P" | "Q" | "B") as kind) :: src :: halt_at :: fuel :: prog :: cmds :: vars :: _ ->
      let src = opt_of_field src in
      let h = if halt_at = "N" then None else Some (nat_of_int (int_of_string halt_at)) in
      (* B: the runner WITH argument binding (RunnerBind.run_bound over the scripted commands) *)
      let runner = if kind = "B" then sb_run else s_run in
      (match runner (nat_of_int (int_of_string fuel)) h (parse_prog src prog) (parse_vars vars) (parse_cmds cmds) with
       | OutOfFuel -> print_endline "FUEL\t-\t-\t-\t-\t-"
       | Done (FOk (r, w), t) ->
           Printf.printf "OK\t%s\t-\t-\t%s\t%s\n"
             (match r with ReachedEnd -> "END" | ExitCalled -> "EXIT" | Halted -> "HALT") (show_log t) (show_vars w)
       | Done (FErr (e, m), t) ->
           Printf.printf "ERR\t%s\t%s\t%s\t%s\t-\n" (show_err e)
             (match m.m_line with None -> "N" | Some n -> string_of_int (int_of_nat n))
             (field_of_opt m.m_src) (show_log t))
  | "I" :: src :: n :: prog :: cmds :: vars :: _ ->
      let src = opt_of_field src in
      (match s_iter_nohalt (nat_of_int (int_of_string n)) (parse_prog src prog) (parse_vars vars) (parse_cmds cmds) with
       | None -> print_endline "NONE"
       | Some c -> Printf.printf "CFG\t%d\t%s\t-\t%s\t%s\n" (int_of_nat c.pc) (b2s c.wd.halt) (show_log c.trace) (show_vars c.wd))
  | "F" :: src :: n :: maxsteps :: prog :: cmds :: vars :: _ ->
      (* C13 thread mode: every boundary configuration of the un-halted machine whose log has exactly n
         invocations: CAND <log> <vars>&<vars>&...   (NOCAND when there is none within maxsteps) *)
      let src = opt_of_field src in
      let n = int_of_string n and maxsteps = int_of_string maxsteps in
      let p = parse_prog src prog and v = parse_vars vars and cs = parse_cmds cmds in
      let count c = List.fold_left (fun a e -> a + List.length e.e_calls) 0 c.trace in
      let lt = label_table p in
      let rec go k c acc log =
        let m = count c in
        if m > n || k > maxsteps then (acc, log) else
        let (acc, log) = if m = n then (show_vars c.wd :: acc, Some (show_log c.trace)) else (acc, log) in
        match s_exec p lt c with
        | Inl c' -> go (k + 1) c' acc log
        | Inr _ -> (acc, log) in
      (match go 0 (s_init v cs) [] None with
       | (_, None) -> print_endline "NOCAND"
       | (acc, Some log) -> Printf.printf "CAND\t%s\t%s\n" log (String.concat "&" (List.rev acc)))
  | "M" :: fuel :: prog :: cmds :: aliases :: watch :: _ ->
      (* nested flows (C13): aliases = - | a&a&...   a = <name>@<override: N | result>@<body prog>
         -> <OK|ERR|FUEL> <detail> <line> - <log of base-command invocations name|args;...> <watched vars name=<opt>;...> *)
      let p = parse_prog None prog and cs = parse_cmds cmds in
      let als = List.map (fun a ->
        match String.split_on_char '@' a with
        | [name; ovr; body] ->
            (str_of_field name, (parse_prog None body, (if ovr = "N" then None else Some (parse_res ovr).sr_res)))
        | _ -> failwith "bad alias") (split_nonempty '&' aliases) in
      let show_calls l =
        let l = List.filter (fun c -> c.c_name <> on_error_name) l in
        if l = [] then "-" else String.concat ";" (List.map (fun c -> field_of_str c.c_name ^ "|" ^ field_of_list c.c_inv.a_args) l) in
      (match n_run (nat_of_int (int_of_string fuel)) p cs als with
       | OutOfFuel -> print_endline "FUEL\t-\t-\t-\t-\t-"
       | Done (FOk (r, w), _) ->
           let vs = List.map (fun v -> field_of_str v ^ "=" ^ field_of_opt (n_var w v)) (list_of_field watch) in
           Printf.printf "OK\t%s\t-\t-\t%s\t%s\n"
             (match r with ReachedEnd -> "END" | ExitCalled -> "EXIT" | Halted -> "HALT")
             (show_calls (n_log_of w)) (if vs = [] then "-" else String.concat ";" vs)
       | Done (FErr (e, m), t) ->
           let log = match n_iter (nat_of_int (List.length t - 1)) p cs als with
             | Some c -> show_calls (n_log_of c.wd) | None -> "?" in
           Printf.printf "ERR\t%s\t%s\t-\t%s\t-\n" (show_err e)
             (match m.m_line with None -> "N" | Some n -> string_of_int (int_of_nat n)) log)
  | _ -> print_endline "BADLINE")
