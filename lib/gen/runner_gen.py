"""runner_gen — TRANSLATE the fetch/execute loop of /repo/duckscript/src/runner.rs into Gallina on every run
(lib/rs2v.py, classes P3 / FnR) -> coq/generated/GenRunnerFn.v, over the SAME types as the hand model theories/Runner.v
(world / config / final / rerr / event / ri_out / oe_out):

  update_output             gen_update_output   : world -> option str -> option str -> world
  create_runtime            gen_labels_body (the body of its `for` loop), gen_labels_from (the loop from any state),
                            gen_label_table (the whole function: the label table of the runtime it returns)
  run_on_error_instruction  gen_run_on_error    : .. world -> str -> meta -> oe_out
  run_instruction           gen_run_instruction : .. (bnd) world -> instr -> nat -> ri_out
  bind_command_arguments    gen_bind_command_arguments : env -> option (list str) -> list str
  run_instructions          gen_step_with (ONE iteration of its `loop`: halt poll, fetch with bounds test, run_instruction,
                            the five result arms, and — on every `break` — the code after the loop), gen_step (the same
                            with Runner.run_instruction / Runner.run_on_error as the callees), gen_run_loop (the loop with fuel)

theories/RunnerGenTie.v proves each of them EQUAL, for all arguments, to the hand model function of Runner.v
(RunnerBindGenTie.v: to the functions of RunnerBind.v), props/SrcRunner.v / SrcRunnerBind.v hold the wrappers.  Every
function has its own flag `gen_<fn>_understood`; anything the translator does not understand gives `false` and a stub of
the same type (the tie theorem, stated under `flag = true`, stays provable; lib/vlib.py reports that tie inactive).

WHAT COMES FROM THE SOURCE: every test, every call and its argument order, every assignment, the order of effects, which
result arm does what, the constants (`"false"`, `"on_error"`, `line: 0`, `output_variable: None`, the `+ 1`s), the
error texts (recognised by their format strings).
WHAT COMES FROM THIS CONFIGURATION (no Rust counterpart, or an abstraction the hand model makes):
  * the WORLD: the model's `world` lumps `runtime.context.{variables, commands, state}` / the local `state` and
    `runtime.env`; the handlers below check that every `&mut` argument is the place it has to be (the variables where
    the variables are expected, the LIVE copy of the state ..) and thread one world term through the calls;
    `let mut state = runtime.context.state.clone()` makes the local the live copy, `runtime.context.state = state`
    writes it back; returning `runtime.context` while the local is still the live copy is refused (that is what the
    REPL branches do, see below);
  * a command is the Section variable `cmd` of Runner.v: `commands.get_for_use(n)` is Some exactly when
    `exists_cmd (cst w) n` (as `Commands::exists`), `instance.run(CommandInvocationContext {..})` is
    `cmd n (Inv arguments output_variable line) w`;
  * GHOSTS of the model: the invocation log (`Call n inv`, collected into `ri_calls` / `oe_calls` and into the
    `Event line calls` appended to the trace when the iteration has executed an instruction) and the poll counter
    (`runtime.env.halt.load(..)` reads `flag_seen` of the current configuration and advances `polls`);
  * `repl_mode` is the constant `false` (the model does not cover the REPL; `fn run` is checked to call
    `run_instructions(runtime, 0, false)`), so the two `if repl_mode {..}` branches are dead and not translated;
    `runtime.instructions` is `Some prog` (create_runtime's translation is checked to end with exactly that);
  * result shapes: `ScriptError::Runtime(msg, Some(meta))` is `FErr <rerr of msg> meta`; the message texts map to the
    model's constructors (`format!("Exit with error code: {}", z)` RExitCode z, `format!("Label: {} not found.", l)`
    RLabel l, `format!("Command: {} not found.", c)` NotFound c, `"Exiting Script."` RHandlerExit, a handler's crash
    text RHandlerCrash, a command's crash text RCrash), `s.parse::<i32>()` is `parse_i32 s`, `n.to_string()` is `nat_str n`."""
import os
import re
import sys

sys.path.insert(0, os.path.dirname(os.path.dirname(os.path.abspath(__file__))))
import rs2v  # noqa: E402
from rs2v import (Ty, Rs2vError, FnR, T_opt, T_list, T_tuple, T_struct, T_okopt, T_erropt, T_boolopt, T_enum, T_map,  # noqa: E402
                  UNIT, POISON, some_inner, coq_str_lit)

REL = "duckscript/src/runner.rs"
T_OSTR = T_opt(Ty.STR)
T_LSTR = T_list(Ty.STR)
T_INSTR = T_struct("Instruction")
T_LINSTR = T_list(T_INSTR)
T_META = T_struct("InstructionMetaInfo")
T_SI = T_struct("ScriptInstruction")
T_CR = T_enum("CommandResult")
T_LABELS = T_map(Ty.STR, Ty.NAT)
PLACE = ("place",)


def place(f):
    return (PLACE, f)


def need(cond, what):
    if not cond:
        raise Rs2vError(what)


# ---- what is read from the type definitions ------------------------------------------------------------------
def struct_fields(src, name, rel):
    m = re.search(r"pub\s+struct\s+%s\s*(?:<[^>{]*>)?\s*\{(.*?)\n\}" % re.escape(name), src, re.S)
    need(m, "%s: struct %s not found" % (rel, name))
    body = re.sub(r"//[^\n]*", "", m.group(1))
    return re.findall(r"^\s*(?:pub(?:\([a-z]+\))?\s+)?(\w+)\s*:", body, re.M)


def enum_variants(src, name, rel):
    m = re.search(r"enum\s+%s\s*\{(.*?)\n\}" % re.escape(name), src, re.S)
    need(m, "%s: enum %s not found" % (rel, name))
    body = re.sub(r"//[^\n]*", "", m.group(1))
    out = []
    for v, args in re.findall(r"^\s*(\w+)\s*(\([^)]*\))?\s*,", body, re.M):
        out.append((v, 0 if not args else len([a for a in args[1:-1].split(",") if a.strip()])))
    return out


STRUCTS = {
    "Instruction": {"fields": [("meta_info", T_META), ("instruction_type", T_enum("InstructionType"))],
                    "proj": {"meta_info": "(i_meta %s)", "instruction_type": "(i_type %s)"}},
    "InstructionMetaInfo": {"fields": [("line", T_opt(Ty.NAT)), ("source", T_OSTR)],
                            "proj": {"line": "(m_line %s)", "source": "(m_src %s)"}},
    # Runner.sinstr keeps the argument list itself (None and Some [] are not told apart there): the field is only ever
    # handed to bind_command_arguments, whose handler takes the whole instruction
    "ScriptInstruction": {"fields": [("label", T_OSTR), ("output", T_OSTR), ("command", T_OSTR), ("arguments", ("sargs",))],
                          "proj": {"label": "(s_label %s)", "output": "(s_out %s)", "command": "(s_cmd %s)",
                                   "arguments": "(s_args %s)"}},
}
ENUMS = {
    "CommandResult": {"CommandResult::Continue": ("Continue", [T_OSTR]),
                      "CommandResult::GoTo": ("GoTo", [T_OSTR, T_enum("GoToValue")]),
                      "CommandResult::Error": ("Error", [Ty.STR]),
                      "CommandResult::Crash": ("Crash", ["emsg"]),
                      "CommandResult::Exit": ("Exit", [T_OSTR])},
    "GoToValue": {"GoToValue::Label": ("GLabel", [Ty.STR]), "GoToValue::Line": ("GLine", [Ty.NAT])},
    "InstructionType": {"InstructionType::Empty": ("IEmpty", []), "InstructionType::PreProcess": ("IPre", None),
                        "InstructionType::Script": ("IScript", [T_SI])},
}
EXPECTED = {   # (file, kind, name) -> what the configuration above assumes
    ("duckscript/src/types/instruction.rs", "struct", "Instruction"): ["meta_info", "instruction_type"],
    ("duckscript/src/types/instruction.rs", "struct", "InstructionMetaInfo"): ["line", "source"],
    ("duckscript/src/types/instruction.rs", "struct", "ScriptInstruction"): ["label", "output", "command", "arguments"],
    ("duckscript/src/types/instruction.rs", "enum", "InstructionType"): [("Empty", 0), ("PreProcess", 1), ("Script", 1)],
    ("duckscript/src/types/command.rs", "enum", "CommandResult"): [("Continue", 1), ("GoTo", 2), ("Error", 1), ("Crash", 1), ("Exit", 1)],
    ("duckscript/src/types/command.rs", "enum", "GoToValue"): [("Label", 1), ("Line", 1)],
    ("duckscript/src/types/command.rs", "struct", "CommandInvocationContext"):
        ["arguments", "state", "variables", "output_variable", "instructions", "commands", "line", "env"],
    ("duckscript/src/types/runtime.rs", "struct", "Runtime"): ["instructions", "label_to_line", "context", "env"],
    ("duckscript/src/types/runtime.rs", "struct", "Context"): ["variables", "state", "commands"],
    ("duckscript/src/runner.rs", "enum", "EndReason"): [("ExitCalled", 0), ("ReachedEnd", 0), ("Crash", 1), ("Halted", 0)],
}


def check_types(api):
    for (rel, kind, name), want in EXPECTED.items():
        src = api.read(rel)
        got = struct_fields(src, name, rel) if kind == "struct" else enum_variants(src, name, rel)
        need(sorted(got) == sorted(want), "%s: %s %s is %s" % (rel, kind, name, got))
    rt = api.read("duckscript/src/types/runtime.rs")
    m = re.search(r"pub fn new\(context: Context, env: Option<Env>\) -> Runtime \{\s*Runtime \{(.*?)\n        \}", rt, re.S)
    need(m and re.search(r"\binstructions:\s*None\s*,", m.group(1)) and re.search(r"\blabel_to_line:\s*HashMap::new\(\)\s*,", m.group(1))
         and re.search(r"^\s*context\s*,", m.group(1), re.M),
         "types/runtime.rs: Runtime::new does not start with no instructions, an empty label table and the given context")


# ---- the world ---------------------------------------------------------------------------------------------
def W(env):
    return env["%w"][1]


def with_w(env, term, **ghosts):
    env2 = dict(env)
    env2["%w"] = ("world", term)
    for g, v in ghosts.items():
        env2["%" + g] = ("ghost", v)
    return env2


def ghost(env, g, default=None):
    return env["%" + g][1] if ("%" + g) in env else default


def is_place(fn, e, env, facet):
    try:
        tv = fn.pv(e, env)
    except Rs2vError:
        return False
    return tv[0] == PLACE and tv[1] == facet


def need_world_args(fn, what, env, commands, variables, state, envarg):
    need(is_place(fn, commands, env, "commands"), "%s: the commands argument is not the runtime's commands" % what)
    need(is_place(fn, variables, env, "variables"), "%s: the variables argument is not the runtime's variables" % what)
    need(is_place(fn, state, env, ghost(env, "live_state")), "%s: the state argument is not the live state" % what)
    need(is_place(fn, envarg, env, "env"), "%s: the env argument is not the runtime's env" % what)


def need_prog(fn, what, e, env):
    tv = fn.pv(e, env)
    need(tv == ghost(env, "prog"), "%s: the instructions argument is not the program being run" % what)


def calls_term(calls):
    return "[]" if not calls else (calls[0] if len(calls) == 1 else "(" + " ++ ".join(calls) + ")")


def opt_str(tv, what):
    need(tv[0] in (T_OSTR, T_opt(None)) and isinstance(tv[1], str), "%s of type %s" % (what, tv[0]))
    return tv[1]


# ---- handlers shared by the functions ------------------------------------------------------------------------
def c_update_output(fn, args, env, ctx):
    need(len(args) == 3, "update_output arguments")
    need(is_place(fn, args[0], env, "variables"), "update_output: the first argument is not the runtime's variables")
    ov, out = opt_str(fn.pv(args[1], env), "output variable"), opt_str(fn.pv(args[2], env), "output")
    return [], with_w(env, "(update_output %s %s %s)" % (W(env), ov, out)), UNIT


def m_vars_insert(fn, recv, args, env, ctx):
    if not is_place(fn, recv, env, "variables"):
        return None
    need(len(args) == 2, "insert arguments")
    k, v = fn.pv(args[0], env), fn.pv(args[1], env)
    need(k[0] == Ty.STR and v[0] == Ty.STR, "variables.insert(%s, %s)" % (k[0], v[0]))
    return [], with_w(env, "(set_vars %s (<[%s := %s]> (vars %s)))" % (W(env), fn.term_of(k), fn.term_of(v), W(env))), (T_OSTR, POISON)


def m_vars_remove(fn, recv, args, env, ctx):
    if not is_place(fn, recv, env, "variables"):
        return None
    need(len(args) == 1, "remove arguments")
    k = fn.pv(args[0], env)
    need(k[0] == Ty.STR, "variables.remove(%s)" % (k[0],))
    return [], with_w(env, "(set_vars %s (delete %s (vars %s)))" % (W(env), fn.term_of(k), W(env))), (T_OSTR, POISON)


def m_exists(fn, recv, args, env, ctx):
    if not is_place(fn, recv, env, "commands"):
        return None
    need(len(args) == 1, "exists arguments")
    n = fn.pv(args[0], env)
    need(n[0] == Ty.STR, "commands.exists(%s)" % (n[0],))
    return [], env, (Ty.BOOL, "(exists_cmd (cst %s) %s)" % (W(env), fn.term_of(n)))


def m_get_for_use(fn, recv, args, env, ctx):
    if not is_place(fn, recv, env, "commands"):
        return None
    need(len(args) == 1, "get_for_use arguments")
    n = fn.pv(args[0], env)
    need(n[0] == Ty.STR, "commands.get_for_use(%s)" % (n[0],))
    return [], env, (T_boolopt((("cmdinst",), fn.term_of(n))), "(exists_cmd (cst %s) %s)" % (W(env), fn.term_of(n)))


def s_invocation(fn, fields, env):
    """CommandInvocationContext { arguments, state, variables, output_variable, instructions, commands, line, env }"""
    d = dict(fields)
    need(len(fields) == 8 and sorted(d) == sorted(EXPECTED[("duckscript/src/types/command.rs", "struct", "CommandInvocationContext")]),
         "CommandInvocationContext { .. } fields")
    need_world_args(fn, "CommandInvocationContext", env, d["commands"], d["variables"], d["state"], d["env"])
    need_prog(fn, "CommandInvocationContext", d["instructions"], env)
    a = fn.pv(d["arguments"], env)
    need(a[0] in (T_LSTR, T_list(None)), "CommandInvocationContext: arguments of type %s" % (a[0],))
    ov = opt_str(fn.pv(d["output_variable"], env), "CommandInvocationContext: output_variable")
    ln = fn.pv(d["line"], env)
    lterm = fn.num(d["line"], Ty.NAT, env) if ln[0] is None else fn.term_of(ln)
    need(ln[0] in (None, Ty.NAT), "CommandInvocationContext: line of type %s" % (ln[0],))
    return (("invocation",), "(Inv %s %s %s)" % (fn.term_of(a), ov, lterm))


def m_run(fn, recv, args, env, ctx):
    try:
        r = fn.pv(recv, env)
    except Rs2vError:
        return None
    if r[0] != ("cmdinst",):
        return None
    need(len(args) == 1, "run arguments")
    inv = fn.pv(args[0], env)
    need(inv[0] == ("invocation",), "run: argument of type %s" % (inv[0],))
    a, rw = fn.newvar("a"), fn.newvar("rw")
    calls = list(ghost(env, "calls", [])) + ["[Call %s %s]" % (r[1], a)]
    return ([(a, inv[1]), (rw, "cmd %s %s %s" % (r[1], a, W(env)))], with_w(env, "(snd %s)" % rw, calls=calls),
            (T_CR, "(fst %s)" % rw))


FORMATS = {
    "Exit with error code: {}": ("rerr", "(RExitCode %s)", [Ty.INT_Z]),
    "Label: {} not found.": ("rerr", "(RLabel %s)", [Ty.STR]),
    "Command: {} not found.": ("emsg", "(NotFound %s)", [Ty.STR]),
}


def f_format(fn, fmt, args, env):
    need(fmt in FORMATS, "unknown message text %r" % fmt)
    t, coq, ats = FORMATS[fmt]
    need([a[0] for a in args] == ats, "arguments of the message %r: %s" % (fmt, [a[0] for a in args]))
    return (t, coq % tuple(fn.term_of(a) for a in args))


def c_result_ctor(coq, ptypes):
    def h(fn, args, env):
        need(len(args) == len(ptypes), "%s arguments" % coq)
        ts = []
        for a, pt in zip(args, ptypes):
            tv = fn.pv(a, env)
            need(tv[0] == pt or (isinstance(pt, tuple) and isinstance(tv[0], tuple) and pt[0] == tv[0][0] and tv[0][1] is None),
                 "%s: argument of type %s" % (coq, tv[0]))
            ts.append(fn.term_of(tv))
        return (T_CR, "(" + " ".join([coq] + ts) + ")")
    return h


def c_const(t, coq):
    def h(fn, args, env):
        need(not args, "%s with arguments" % coq)
        return (t, coq)
    return h


CTORS = {
    "CommandResult::Continue": c_result_ctor("Continue", [T_OSTR]),
    "CommandResult::Crash": c_result_ctor("Crash", ["emsg"]),
    "CommandResult::Error": c_result_ctor("Error", [Ty.STR]),
    "CommandResult::Exit": c_result_ctor("Exit", [T_OSTR]),
    "EndReason::Halted": c_const(T_enum("EndReason"), "Halted"),
    "EndReason::ExitCalled": c_const(T_enum("EndReason"), "ExitCalled"),
    "EndReason::ReachedEnd": c_const(T_enum("EndReason"), "ReachedEnd"),
}


def m_parse_i32(fn, recv, args, env):
    r = fn.pv(recv, env)
    if args or r[0] != Ty.STR:
        return None
    return (T_okopt(Ty.INT_Z), "(parse_i32 %s)" % fn.term_of(r))


def base_cfg(coq_name):
    return {
        "coq_name": coq_name, "locals": {}, "params": {}, "structs": STRUCTS, "enums": ENUMS, "ctor_handlers": dict(CTORS),
        "struct_handlers": {"CommandInvocationContext": s_invocation}, "format": f_format,
        "pure_methods": {"parse::<i32>": m_parse_i32}, "nat_to_string": "(nat_str %s)",
        "calls": {"update_output": c_update_output},
        "mcalls": {"insert": m_vars_insert, "remove": m_vars_remove, "exists": m_exists, "get_for_use": m_get_for_use, "run": m_run},
    }


def world_params(instructions):
    return {"commands": place("commands"), "variables": place("variables"), "state": place("state"), "env": place("env"),
            "instructions": instructions}


def world_env0(prog):
    return {"%w": ("world", "w"), "%calls": ("ghost", []), "%live_state": ("ghost", "state"), "%prog": ("ghost", prog)}


SIG_CMD = "(cstate : Type) (exists_cmd : cstate -> str -> bool) (cmd : str -> inv -> world cstate -> result * world cstate)"


# ---- update_output ---------------------------------------------------------------------------------------
def b_update_output(api):
    params, body = rs2v.parse_fn3(api.read(REL), "update_output")
    cfg = base_cfg("gen_update_output")
    cfg["params"] = {"variables": place("variables"), "output_variable": (T_OSTR, "ov"), "output": (T_OSTR, "o")}
    cfg["env0"] = {"%w": ("world", "w")}
    cfg["calls"] = {}

    def result(fn, tv, env, ctx):
        need(tv == UNIT, "update_output returns a value of type %s" % (tv[0],))
        return W(env)
    cfg["result"] = result
    fn = FnR(cfg)
    term = fn.function(params, body)
    need(not fn.defs, "update_output: unexpected loop")
    return "Definition gen_update_output (cstate : Type) (w : world cstate) (ov : option str) (o : option str) : world cstate :=\n%s.\n" % term


# ---- create_runtime --------------------------------------------------------------------------------------
def b_create_runtime(api):
    params, body = rs2v.parse_fn3(api.read(REL), "create_runtime")
    cfg = base_cfg("gen_labels")
    cfg["params"] = {"instructions": (T_LINSTR, "p"), "context": place("context"), "env": place("envopt")}
    cfg["locals"] = {"line": Ty.NAT}
    cfg["calls"], cfg["mcalls"] = {}, {}

    def runtime_new(fn, args, env):
        need(len(args) == 2 and is_place(fn, args[0], env, "context") and is_place(fn, args[1], env, "envopt"),
             "Runtime::new arguments")
        # what Runtime::new gives is read from types/runtime.rs by check_types
        return (T_struct("Runtime"), {"instructions": (T_opt(T_LINSTR), "None"), "label_to_line": (T_LABELS, "(∅ : gmap str nat)"),
                                      "context": place("context"), "env": place("envopt")})
    cfg["ctor_handlers"]["Runtime::new"] = runtime_new
    cfg["loop"] = {"kind": "fold", "name": "gen_labels_body", "binders": "", "args": "",
                   "state": ["runtime.label_to_line", "line"], "state_type": "(gmap str nat * nat)",
                   "item": (T_INSTR, "instr")}

    def result(fn, tv, env, ctx):
        need(tv[0] == T_struct("Runtime") and isinstance(tv[1], dict), "create_runtime returns a value of type %s" % (tv[0],))
        d = tv[1]
        need(d["instructions"] == (T_opt(T_LINSTR), "(Some p)"), "create_runtime: the runtime's instructions are not Some(instructions)")
        need(d["context"] == place("context") and d["env"] == place("envopt"), "create_runtime: context / env of the runtime")
        return fn.term_of(d["label_to_line"])
    cfg["result"] = result
    fn = FnR(cfg)
    term = fn.function(params, body)
    need(len(fn.defs) == 1, "create_runtime: expected one loop")
    fi = fn.fold_info
    need(fi["list"] == "p", "create_runtime: the loop does not walk the instructions")
    return (fn.defs[0][1] +
            "Definition gen_labels_from (p : list instr) (line : nat) (t : gmap str nat) : gmap str nat :=\n"
            "fst (foldl %s (t, line) p).\n" % fi["call"] +
            "Definition gen_label_table (p : list instr) : gmap str nat :=\n%s.\n" % term)


# ---- run_on_error_instruction ------------------------------------------------------------------------------
def b_run_on_error(api):
    params, body = rs2v.parse_fn3(api.read(REL), "run_on_error_instruction")
    cfg = base_cfg("gen_run_on_error")
    cfg["params"] = dict(world_params(place("instructions")), error=(Ty.STR, "msg"), meta_info=(T_META, "m"))
    cfg["env0"] = world_env0(place("instructions"))
    cfg["locals"] = {"output_variable": T_OSTR}

    def result(fn, tv, env, ctx):
        need(tv[0] == ("result",), "run_on_error_instruction returns a value of type %s" % (tv[0],))
        kind, x = tv[1]
        calls = calls_term(ghost(env, "calls", []))
        if kind == "Ok":
            need(x == UNIT, "Ok(%s)" % (x[0],))
            return "OE None %s %s" % (W(env), calls)
        if x[0] == Ty.STR and x[1] == coq_str_lit("Exiting Script."):
            return "OE (Some RHandlerExit) %s %s" % (W(env), calls)
        if x[0] == "emsg":
            return "OE (Some (RHandlerCrash %s)) %s %s" % (fn.term_of(x), W(env), calls)
        raise Rs2vError("run_on_error_instruction: error value of type %s" % (x[0],))
    cfg["result"] = result
    fn = FnR(cfg)
    term = fn.function(params, body)
    need(not fn.defs, "run_on_error_instruction: unexpected loop")
    return "Definition gen_run_on_error %s (w : world cstate) (msg : str) (m : meta) : oe_out cstate :=\n%s.\n" % (SIG_CMD, term)


# ---- run_instruction ---------------------------------------------------------------------------------------
def b_run_instruction(api):
    params, body = rs2v.parse_fn3(api.read(REL), "run_instruction")
    cfg = base_cfg("gen_run_instruction")
    cfg["params"] = dict(world_params(place("instructions")), instruction=(T_INSTR, "i"), line=(Ty.NAT, "line"))
    cfg["env0"] = world_env0(place("instructions"))
    cfg["locals"] = {"output_variable": T_OSTR}

    def c_bind(fn, args, env, ctx):
        need(len(args) == 3 and is_place(fn, args[0], env, "variables"), "bind_command_arguments arguments")
        si, mi = fn.pv(args[1], env), fn.pv(args[2], env)
        need(si[0] == T_SI and isinstance(si[1], str), "bind_command_arguments: instruction of type %s" % (si[0],))
        need(mi == (T_META, "(i_meta i)"), "bind_command_arguments: the meta information is not the instruction's")
        return [], env, (T_LSTR, "(bnd (vars %s) (s_args %s))" % (W(env), si[1]))
    cfg["calls"]["bind_command_arguments"] = c_bind

    def result(fn, tv, env, ctx):
        need(tv[0] == T_tuple(T_CR, T_OSTR) and isinstance(tv[1], list), "run_instruction returns a value of type %s" % (tv[0],))
        return "RI %s %s %s %s" % (fn.term_of(tv[1][0]), fn.term_of(tv[1][1]), W(env), calls_term(ghost(env, "calls", [])))
    cfg["result"] = result
    fn = FnR(cfg)
    term = fn.function(params, body)
    need(not fn.defs, "run_instruction: unexpected loop")
    return ("Definition gen_run_instruction %s (bnd : vmap -> list str -> list str) (w : world cstate) (i : instr) (line : nat) "
            ": ri_out cstate :=\n%s.\n" % (SIG_CMD, term))


# ---- bind_command_arguments --------------------------------------------------------------------------------
def b_bind_args(api):
    params, body = rs2v.parse_fn3(api.read(REL), "bind_command_arguments")
    cfg = base_cfg("gen_bind")
    cfg["params"] = {"variables": (("env",), "variables"), "meta_info": (T_META, POISON),
                     "instruction": (T_SI, {"label": (T_OSTR, POISON), "output": (T_OSTR, POISON), "command": (T_OSTR, POISON),
                                            "arguments": (T_opt(T_LSTR), "arguments")})}
    cfg["locals"] = {"arguments": T_LSTR}
    cfg["structs"] = dict(STRUCTS)
    cfg["enums"] = dict(ENUMS, ExpandedValue={"ExpandedValue::Single": ("Single", [Ty.STR]), "ExpandedValue::Multi": ("Multi", [T_LSTR]),
                                              "ExpandedValue::None": ("ENone", [])})
    need(sorted(enum_variants(api.read("duckscript/src/expansion.rs"), "ExpandedValue", "expansion.rs")) ==
         [("Multi", 1), ("None", 0), ("Single", 1)], "expansion.rs: enum ExpandedValue")
    cfg["mcalls"] = {}

    def c_expand(fn, args, env, ctx):
        need(len(args) == 3, "expand_by_wrapper arguments")
        a, mi, vs = fn.pv(args[0], env), fn.pv(args[1], env), fn.pv(args[2], env)
        need(a[0] == Ty.STR and mi[0] == T_META and vs == (("env",), "variables"), "expand_by_wrapper arguments")
        return [], env, (T_enum("ExpandedValue"), "(expand_by_wrapper %s variables)" % fn.term_of(a))
    cfg["calls"] = {"expansion::expand_by_wrapper": c_expand}
    cfg["loop"] = {"kind": "fold", "name": "gen_bind_body", "binders": "(variables : env)", "args": "variables",
                   "state": ["arguments"], "state_type": "(list str)", "item": (Ty.STR, "str")}

    def result(fn, tv, env, ctx):
        need(tv[0] == T_LSTR and isinstance(tv[1], str), "bind_command_arguments returns a value of type %s" % (tv[0],))
        return tv[1]
    cfg["result"] = result
    fn = FnR(cfg)
    term = fn.function(params, body)
    need(len(fn.defs) == 1, "bind_command_arguments: expected one loop")
    return (fn.defs[0][1] + "Definition gen_bind_command_arguments (variables : env) (arguments : option (list str)) : list str :=\n%s.\n" % term)


# ---- run_instructions: one iteration of the loop -----------------------------------------------------------
def trace_term(env):
    ev = ghost(env, "event")
    if ev is None:
        return "(trace c)"
    return "(trace c ++ [Event %s %s])" % (ev[0], calls_term(ev[1]))


def config_term(env, fn):
    parts = (fn.term_of(env["line"]), W(env), ghost(env, "polls"), trace_term(env))
    if parts == ("(pc c)", "(wd c)", "(polls c)", "(trace c)"):
        return "c"
    return "(Config %s %s %s %s)" % parts


def b_step(api):
    src = api.read(REL)
    # `repl_mode` is false and the run starts at line 0: that is how `fn run` calls run_instructions
    run_src = src[src.index("fn run("):src.index("fn create_runtime(")]
    need(len(re.findall(r"\brun_instructions\(", run_src)) == 1 and re.search(r"\brun_instructions\(\s*runtime\s*,\s*0\s*,\s*false\s*\)", run_src),
         "fn run does not call run_instructions(runtime, 0, false)")
    need(re.search(r"let\s+runtime\s*=\s*create_runtime\(instructions,\s*context,\s*env\);", run_src),
         "fn run does not build the runtime with create_runtime(instructions, context, env)")

    params, body = rs2v.parse_fn3(src, "run_instructions")
    cfg = base_cfg("gen_step")
    prog = (T_LINSTR, "prog")
    cfg["params"] = {
        "runtime": (T_struct("Runtime"), {
            "instructions": (T_opt(T_LINSTR), "(Some prog)"), "label_to_line": (T_LABELS, "lt"),
            "context": (T_struct("Context"), {"variables": place("variables"), "state": place("ctxstate"), "commands": place("commands")}),
            "env": place("env")}),
        "start_at": (Ty.NAT, "start_at"), "repl_mode": (Ty.BOOL, "false")}
    cfg["locals"] = {}
    cfg["env0"] = {"%w": ("world", "w"), "%live_state": ("ghost", "ctxstate"), "%prog": ("ghost", prog), "%event": ("ghost", None),
                   "%polls": ("ghost", "0%nat")}

    def clone_hook(fn, tv):
        if tv == place("ctxstate"):
            return (("copy",), "ctxstate")
        return tv
    cfg["clone_hook"] = clone_hook

    def bind_hook(fn, name, tv, env):
        if tv[0] == ("copy",):
            need(tv[1] == "ctxstate" and ghost(env, "live_state") == "ctxstate", "a second copy of the state")
            env2 = fn.declare(env, name, place("state"))
            env2["%live_state"] = ("ghost", "state")
            return env2
        return None
    cfg["bind_hook"] = bind_hook

    def assign_hook(fn, lv, tv, env):
        if lv == "runtime.context.state":
            need(tv == place("state") and ghost(env, "live_state") == "state", "runtime.context.state is assigned something else than the live state")
            env2 = dict(env)
            env2["%live_state"] = ("ghost", "ctxstate")
            return env2
        cur = fn.get3(env, lv)
        need(cur[0] != PLACE and tv[0] != PLACE, "assignment to / of a part of the runtime (%s)" % lv)
        return None
    cfg["assign_hook"] = assign_hook

    def m_load(fn, recv, args, env, ctx):
        r = fn.strip(recv)
        if not (r[0] == "field" and r[2] == "halt" and is_place(fn, r[1], env, "env")):
            return None
        need(len(args) == 1 and fn.strip(args[0]) == ("path", ["Ordering", "SeqCst"]), "halt.load arguments")
        need(fn.in_step, "the halt flag is read outside the loop")
        polls = ghost(env, "polls")
        term = "(flag_seen cstate ext %s)" % config_term(env, fn)
        env2 = dict(env)
        env2["%polls"] = ("ghost", "(S %s)" % polls)
        return [], env2, (Ty.BOOL, term)
    cfg["mcalls"]["load"] = m_load

    def c_run_instruction(fn, args, env, ctx):
        need(len(args) == 7, "run_instruction arguments")
        need_world_args(fn, "run_instruction", env, args[0], args[1], args[2], args[6])
        need_prog(fn, "run_instruction", args[3], env)
        ins, ln = fn.pv(args[4], env), fn.pv(args[5], env)
        need(ins[0] == T_INSTR and isinstance(ins[1], str) and ln[0] == Ty.NAT, "run_instruction: instruction / line arguments")
        need(ghost(env, "event") is None, "a second instruction is run in the same iteration")
        o = fn.newvar("o")
        env2 = with_w(env, "(ri_w %s)" % o, event=(fn.term_of(ln), ["(ri_calls %s)" % o]))
        return ([(o, "ri %s %s %s" % (W(env), ins[1], fn.term_of(ln)))], env2,
                (T_tuple(T_CR, T_OSTR), [(T_CR, "(ri_res %s)" % o), (T_OSTR, "(ri_ov %s)" % o)]))
    cfg["calls"]["run_instruction"] = c_run_instruction

    def c_run_on_error(fn, args, env, ctx):
        need(len(args) == 7, "run_on_error_instruction arguments")
        need_world_args(fn, "run_on_error_instruction", env, args[0], args[1], args[2], args[6])
        need_prog(fn, "run_on_error_instruction", args[3], env)
        msg, mi = fn.pv(args[4], env), fn.pv(args[5], env)
        need(msg[0] == Ty.STR and mi[0] == T_META and isinstance(mi[1], str), "run_on_error_instruction: error / meta arguments")
        ev = ghost(env, "event")
        need(ev is not None, "the error handler runs in an iteration that has not executed an instruction")
        h = fn.newvar("h")
        env2 = with_w(env, "(oe_w %s)" % h, event=(ev[0], ev[1] + ["(oe_calls %s)" % h]))
        return [(h, "roe %s %s %s" % (W(env), fn.term_of(msg), mi[1]))], env2, (T_erropt("rerr"), "(oe_err %s)" % h)
    cfg["calls"]["run_on_error_instruction"] = c_run_on_error

    def c_script_error(fn, args, env):
        need(len(args) == 2, "ScriptError::Runtime arguments")
        msg, mi = fn.pv(args[0], env), fn.pv(args[1], env)
        m = some_inner(mi[1]) if isinstance(mi[1], str) else None
        need(mi[0] == T_opt(T_META) and m is not None, "ScriptError::Runtime without Some(meta information)")
        if msg[0] == "rerr":
            e = fn.term_of(msg)
        elif msg[0] == "emsg":
            e = "(RCrash %s)" % fn.term_of(msg)
        else:
            raise Rs2vError("ScriptError::Runtime with a message of type %s" % (msg[0],))
        return (T_struct("ScriptError"), {"err": ("rerr", e), "meta": (T_META, m)})
    cfg["ctor_handlers"]["ScriptError::Runtime"] = c_script_error

    def result(fn, tv, env, ctx):
        need(fn.in_step, "run_instructions returns outside its loop")
        need(tv[0] == ("result",), "run_instructions returns a value of type %s" % (tv[0],))
        kind, x = tv[1]
        if kind == "Err":
            need(x[0] == T_struct("ScriptError") and isinstance(x[1], dict), "Err(%s)" % (x[0],))
            return "inr (FErr %s %s, %s)" % (x[1]["err"][1], x[1]["meta"][1], trace_term(env))
        need(isinstance(x[1], list) and len(x[1]) == 2 and x[1][1][0] == T_enum("EndReason"), "Ok(%s)" % (x[0],))
        ctxv = x[1][0]
        need(ctxv == (T_struct("Context"), {"variables": place("variables"), "state": place("ctxstate"), "commands": place("commands")}),
             "Ok(..) does not return the runtime's context")
        need(ghost(env, "live_state") == "ctxstate", "the context is returned without the state having been written back")
        return "inr (FOk %s %s, %s)" % (x[1][1][1], W(env), trace_term(env))
    cfg["result"] = result

    def entry(fn, env):
        need(ghost(env, "live_state") == "state", "the loop starts without a local copy of the state")
        need(env.get("instructions") == prog, "the loop does not run over the runtime's instructions")
        need(env["line"] == (Ty.NAT, "start_at"), "the loop does not start at start_at")
        env2 = fn.set(env, "line", (Ty.NAT, "(pc c)"))
        return with_w(env2, "(wd c)", polls="(polls c)", event=None)

    def cont(fn, env):
        need(ghost(env, "live_state") == "state", "the state is written back inside the loop")
        return "inl %s" % config_term(env, fn)

    def drive(fn, env):
        return ("match step_fuel (gen_step_with cstate ext ri roe prog lt) fuel (Config %s %s 0%%nat []) with\n"
                "| Some (f, t) => Done f t\n| None => OutOfFuel\nend" % (fn.term_of(env["line"]), W(env)))
    WITH = ("(cstate : Type) (ext : nat -> bool) (ri : world cstate -> instr -> nat -> ri_out cstate) "
            "(roe : world cstate -> str -> meta -> oe_out cstate) (prog : list instr) (lt : gmap str nat)")
    cfg["loop"] = {"kind": "step", "name": "gen_step_with", "binders": WITH + " (c : config cstate)",
                   "type": "config cstate + final cstate * list event", "state": ["line"],
                   "entry": entry, "cont": cont, "drive": drive}
    fn = FnR(cfg)
    term = fn.function(params, body)
    need(len(fn.defs) == 1, "run_instructions: expected one loop")
    return (fn.defs[0][1] +
            "Definition gen_step %s (ext : nat -> bool) (prog : list instr) (lt : gmap str nat) (c : config cstate) "
            ": config cstate + final cstate * list event :=\n"
            "gen_step_with cstate ext (run_instruction cstate exists_cmd cmd) (run_on_error cstate exists_cmd cmd) prog lt c.\n" % SIG_CMD +
            "Definition gen_run_loop_with %s (fuel : nat) (start_at : nat) (w : world cstate) : outcome cstate :=\n%s.\n" % (WITH, term))


STEP_STUB = (
    "Definition gen_step_with (cstate : Type) (ext : nat -> bool) (ri : world cstate -> instr -> nat -> ri_out cstate) "
    "(roe : world cstate -> str -> meta -> oe_out cstate) (prog : list instr) (lt : gmap str nat) (c : config cstate) "
    ": config cstate + final cstate * list event := inr (FOk Halted (wd c), []).\n"
    "Definition gen_step %s (ext : nat -> bool) (prog : list instr) (lt : gmap str nat) (c : config cstate) "
    ": config cstate + final cstate * list event := inr (FOk Halted (wd c), []).\n"
    "Definition gen_run_loop_with (cstate : Type) (ext : nat -> bool) (ri : world cstate -> instr -> nat -> ri_out cstate) "
    "(roe : world cstate -> str -> meta -> oe_out cstate) (prog : list instr) (lt : gmap str nat) (fuel : nat) (start_at : nat) "
    "(w : world cstate) : outcome cstate := OutOfFuel.\n" % SIG_CMD)

FUNCTIONS = [
    # the tie key's own function first: lib/vlib.py reads the first NOT UNDERSTOOD comment as its reason
    ("run_instructions", "gen_runner_step_understood", b_step, STEP_STUB),
    ("update_output", "gen_update_output_understood", b_update_output,
     "Definition gen_update_output (cstate : Type) (w : world cstate) (ov : option str) (o : option str) : world cstate := w.\n"),
    ("create_runtime", "gen_labels_from_understood", b_create_runtime,
     "Definition gen_labels_body (st : (gmap str nat * nat)) (i : instr) : (gmap str nat * nat) := st.\n"
     "Definition gen_labels_from (p : list instr) (line : nat) (t : gmap str nat) : gmap str nat := t.\n"
     "Definition gen_label_table (p : list instr) : gmap str nat := ∅.\n"),
    ("run_on_error_instruction", "gen_run_on_error_understood", b_run_on_error,
     "Definition gen_run_on_error %s (w : world cstate) (msg : str) (m : meta) : oe_out cstate := OE None w [].\n" % SIG_CMD),
    ("run_instruction", "gen_run_instruction_understood", b_run_instruction,
     "Definition gen_run_instruction %s (bnd : vmap -> list str -> list str) (w : world cstate) (i : instr) (line : nat) "
     ": ri_out cstate := RI (Continue None) None w [].\n" % SIG_CMD),
    ("bind_command_arguments", "gen_bind_command_arguments_understood", b_bind_args,
     "Definition gen_bind_body (variables : env) (st : (list str)) (a : str) : (list str) := st.\n"
     "Definition gen_bind_command_arguments (variables : env) (arguments : option (list str)) : list str := [].\n"),
]

HEAD = ("From stdpp Require Import gmap.\nRequire Import DS.Parser DS.Expansion DS.Runner DS.Rs2vLib3.\n"
        "Local Open Scope bool_scope.\n")


def clean(msg):
    return str(msg).replace("*)", "* )").replace("(*", "( *")


def generate(api):
    text = HEAD
    common_err = None
    try:
        check_types(api)
    except Exception as e:  # noqa: BLE001
        common_err = str(e)
    for rust, flag, build, stub in FUNCTIONS:
        try:
            if common_err:
                raise Rs2vError(common_err)
            body = build(api)
            text += "Definition %s : bool := true.\n%s" % (flag, body)
        except Exception as e:  # noqa: BLE001  anything unexpected means: not understood (never a crash, never a guess)
            text += "(* NOT UNDERSTOOD: %s: %s *)\nDefinition %s : bool := false.\n%s" % (
                rust, (type(e).__name__ + ": " if not isinstance(e, Rs2vError) else "") + clean(e), flag, stub)
    api.emit("GenRunnerFn.v", text, REL + " (update_output, create_runtime, run_on_error_instruction, run_instruction, "
             "bind_command_arguments, the loop of run_instructions) by lib/rs2v.py")
