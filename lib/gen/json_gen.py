"""json_gen — TRANSLATE the JSON <-> nested-handle glue of `json_parse --collection` / `json_encode --collection` into Gallina
on every run (lib/rs2v.py, grammar PColl, executor FnJson) -> coq/generated/GenJsonFn.v:

    gen_create_structure_step (rec : json -> store -> option str * store) (data : json) (st : store) : option str * store
    gen_create_structure (data : json) (st : store) : option str * store          the closed recursion on the structure of json
    gen_encode_from_state_value_step (ev : sv -> eres json) (state : list (str * sv)) (v : sv) : eres json
    gen_encode_from_state_value (fuel : nat) (state) (v) : eres json               the step iterated on fuel
    gen_encode_from_state (render : json -> str) (fuel : nat) (state) (value : str) : eres str
    gen_run_parse (parse : str -> option json) (args : list str) (out : option str) (st : store) : jres * store
    gen_run_encode (render : json -> str) (fuel : nat) (args : list str) (st : store) : jres

over the SAME types as the hand model theories/Json.v (C17), one flag gen_<fn>_understood each.  theories/JsonGenTie.v proves
them equal to Json.create_structure / Json.encode_from_state_value / Json.encode_from_state / JsonRun.run_parse /
JsonRun.run_encode for ALL documents / stores / fuels / argument vectors / oracles (props/SrcJson.v).

What comes from the SOURCE (re-read on every run)
  create_structure:  the `match` on the kind of the JSON value with every arm: what each scalar arm answers (which text), that
             Null answers None; for Array / Object: the empty accumulator, the loop over the children IN ORDER, the recursive
             call on each child threading the state, that a child answering None is skipped, what is pushed / inserted under
             which key and wrapped in which StateValue constructor, the put_handle call AFTER the loop on the accumulated
             value wrapped in List / SubState, the answer Some(key).
  encode_from_state_value:  the String / List / SubState arms of the `match`: the lookup of the string in the handle table and
             the recursive call on the value found / the string leaf otherwise; the loops over the items / entries in order,
             the recursive call on each, the push / insert of each result, the early `return Err(..)`, the final wrapping in
             Value::Array / Value::Object.
  encode_from_state:  the lookup, the call of encode_from_state_value on the value found, the string leaf otherwise, the final
             `to_string` of the Ok value, the propagation of Err.
  run (both):  the argument-count test, the `--collection` flag test (which argument, which text, `len() > 1`), which argument is
             the document / the handle (every `context.arguments[i]` is an access that PANICS when the vector is too short:
             `match nth_error args i with None => JPanic | ..`; the equality proofs show these arms dead), the parse and its
             error arm, the output-variable test, which callee runs on which path, which result constructor each path ends in.

What comes from the CONFIGURATION below
  * the types: serde_json::Value is the model's `json` (Null / Bool / Number / String / Array / Object -> JNull / JBool / JNum /
    JStr / JArr / JObj; a Number is carried as its to_string TEXT, so Number::to_string is the identity; an Object is its
    key/value list in the iteration order of serde_json's Map); StateValue is the model's `sv` (String / List / SubState ->
    SStr / SList / SMap: the part of StateValue that create_structure can build — the ten other arms of the `match` in
    encode_from_state_value (seven scalar arms answering Ok, three answering Err("Unsupported value type.")) have no
    counterpart in `sv` and are NOT translated); HashMap<String, StateValue> / serde_json::Map as a VALUE is an association
    list (insert = Json.alist_insert, iteration = list order: the hand model's stated assumption about HashMap order);
    `state: &mut HashMap<String, StateValue>` of create_structure / context.state is the model's `store`;
    get_handles_sub_state(context.state) / the `state` of the encoder is `cells st` (get = Json.alist_get);
  * put_handle(state, v) is Json.put_handle (fresh name from the counter + insertion);
  * bool::to_string is Json.bool_text; to_string / clone on String / &str is the identity;
  * parse_json is the oracle `parse : str -> option json` (None = Err, its text erased); Value::to_string is the oracle
    `render : json -> str`;
  * create_variables / encode_from_variables (the variable glue) are NOT translated: a path that reaches one of them ends in
    `JVars`;
  * Result<_, String> of the encoder is `eres` (EOk / EErr / EFuel: error TEXTS are erased; a recursive call is matched on all
    three, its EFuel arm leaves the function with EFuel); CommandResult is `jres` (Continue o -> JCont o, Error _ -> JError);
  * the recursion: inside create_structure / encode_from_state_value a call of the function itself is a call of the step
    function's parameter (`rec` / `ev`; the encoder's recursive calls must pass the SAME `state`); from outside it is the closed
    function (encode: on the caller's `fuel`).

Each function has its own flag; a caller of a function that is not understood is not understood either; anything not
understood (every exception) -> flag false and a type-correct stub."""
import os
import sys

sys.path.insert(0, os.path.dirname(os.path.dirname(os.path.abspath(__file__))))
import rs2v  # noqa: E402
from rs2v import Rs2vError, CollV  # noqa: E402

PARSE_RS = "duckscript_sdk/src/sdk/std/json/parse/mod.rs"
ENCODE_RS = "duckscript_sdk/src/sdk/std/json/encode/mod.rs"
HEAD = "Require Import DS.Strings DS.Json DS.Rs2vJsonLib.\n"

SIGS = {
    "create_structure_step": "(rec : json -> store -> option str * store) (data : json) (st : store) : option str * store",
    "create_structure": "(data : json) (st : store) {struct data} : option str * store",
    "encode_from_state_value_step": "(ev : sv -> eres json) (state : list (str * sv)) (v : sv) : eres json",
    "encode_from_state_value": "(fuel : nat) (state : list (str * sv)) (v : sv) {struct fuel} : eres json",
    "encode_from_state": "(render : json -> str) (fuel : nat) (state : list (str * sv)) (value : str) : eres str",
    "run_parse": "(parse : str -> option json) (args : list str) (out : option str) (st : store) : jres * store",
    "run_encode": "(render : json -> str) (fuel : nat) (args : list str) (st : store) : jres",
}
STUBS = {
    "create_structure_step": "(None, st)", "create_structure": "(None, st)",
    "encode_from_state_value_step": "EFuel", "encode_from_state_value": "EFuel", "encode_from_state": "EFuel",
    "run_parse": "(JFuel, st)", "run_encode": "JFuel",
}
ORDER = ["create_structure_step", "create_structure", "encode_from_state_value_step", "encode_from_state_value",
         "encode_from_state", "run_parse", "run_encode"]
# a function whose definition mentions another generated function
NEEDS = {"create_structure": ["create_structure_step"], "encode_from_state_value": ["encode_from_state_value_step"],
         "encode_from_state": ["encode_from_state_value"], "run_parse": ["create_structure"], "run_encode": ["encode_from_state"]}

# `%.0s` swallows the (unused) binder name the executor offers for every constructor: JNull has no payload
ENUMS = {
    "json": [("JNull%.0s", [("Null", None, None)], None), ("JBool %s", [("Bool", "bool", None)], None),
             ("JNum %s", [("Number", "numtext", None)], None), ("JStr %s", [("String", "str", None)], None),
             ("JArr %s", [("Array", ("list", "json"), None)], None), ("JObj %s", [("Object", ("alist", "json"), None)], None)],
    "sv": [("SStr %s", [("String", "str", None)], None), ("SList %s", [("List", ("list", "sv"), None)], None),
           ("SMap %s", [("SubState", ("alist", "sv"), None)], None)],
}
ENCODINGS = {"option": ("Some %s", "None", None)}


def need(cond, what):
    if not cond:
        raise Rs2vError(what)


def tag(ty):
    return ty[0] if isinstance(ty, tuple) else ty


def types(text):
    t = text.replace(" ", "")
    if t in ("String", "&str", "&String", "str"):
        return "str"
    if t == "Option<String>":
        return ("opt", "str")
    if t == "Result<Value,String>":
        return ("res", "json", "err")
    if t == "Result<String,String>":
        return ("res", "str", "err")
    if t == "CommandResult":
        return "cmdresult"
    return None


def coq_type(ty):
    raise Rs2vError("no Coq type needed for %r" % (ty,))


# ---- values as terms -----------------------------------------------------------------------------------------------------
def as_json(v):
    if v.ty == "json":
        need(v.has_term, "JSON value without a term")
        return v.term
    raise Rs2vError("a serde_json Value expected, found %r" % (v.ty,))


def as_sv(v):
    if v.ty == "sv":
        need(v.has_term, "StateValue without a term")
        return v.term
    raise Rs2vError("a StateValue expected, found %r" % (v.ty,))


def as_str(v):
    need(v.ty in ("str", "numtext") and v.has_term, "a text expected, found %r" % (v.ty,))
    return v.term


def opt_str_term(o):
    need(tag(o.ty) == "opt", "Option<String> expected, found %r" % (o.ty,))
    if o.known is not None:
        if o.known[0] == "None":
            return "None"
        return "(Some %s)" % as_str(o.known[1])
    need(o.ty[1] == "str" and o.has_term, "Option of %r" % (o.ty[1],))
    return o.term


def eres_term(v, payload):
    need(tag(v.ty) == "res", "Result expected, found %r" % (v.ty,))
    need(v.known is not None, "a Result that is not statically Ok / Err at the end of a path")
    if v.known[0] == "Ok":
        return "EOk %s" % payload(v.known[1])
    return "EErr"


# ---- constructors --------------------------------------------------------------------------------------------------------
def c_json(name, fmt, pty):
    def c(fn, vs, expect):
        need(len(vs) == 1, "Value::%s with %d arguments" % (name, len(vs)))
        p = vs[0]
        need(p.ty == pty or (tag(p.ty) == tag(pty) and isinstance(p.ty, tuple) and p.ty[1] in (None, pty[1])),
             "Value::%s of a %r" % (name, p.ty))
        return CollV("json", fmt % p.term)
    return c


def c_sv(name, fmt, pty):
    def c(fn, vs, expect):
        need(len(vs) == 1, "StateValue::%s with %d arguments" % (name, len(vs)))
        p = vs[0]
        need(p.ty == pty or (tag(p.ty) == tag(pty) and isinstance(p.ty, tuple) and p.ty[1] in (None, pty[1])),
             "StateValue::%s of a %r" % (name, p.ty))
        return CollV("sv", fmt % p.term)
    return c


def c_new_alist(fn, vs, expect):
    need(not vs, "new with arguments")
    return CollV(("alist", None), "[]")


def c_continue(fn, vs, expect):
    need(len(vs) == 1, "Continue with %d arguments" % len(vs))
    return CollV("cmdresult", "JCont %s" % opt_str_term(vs[0]))


def c_error(fn, vs, expect):
    need(len(vs) == 1 and vs[0].ty in ("str", "err", "msg"), "Error of something else than a text")
    return CollV("cmdresult", "JError")


CTORS = {
    "Value::String": c_json("String", "(JStr %s)", "str"), "Value::Array": c_json("Array", "(JArr %s)", ("list", "json")),
    "Value::Object": c_json("Object", "(JObj %s)", ("alist", "json")),
    "StateValue::String": c_sv("String", "(SStr %s)", "str"), "StateValue::List": c_sv("List", "(SList %s)", ("list", "sv")),
    "StateValue::SubState": c_sv("SubState", "(SMap %s)", ("alist", "sv")),
    "HashMap::new": c_new_alist, "Map::new": c_new_alist,
    "CommandResult::Continue": c_continue, "CommandResult::Error": c_error,
}


# ---- paths with effects --------------------------------------------------------------------------------------------------
def store_cell(fn, v, h):
    need(fn.is_ref(v), "the state is not passed by reference")
    c = v.ty[1]
    while fn.is_ref(h[c]):
        c = h[c].ty[1]
    need(h[c].ty == "store", "a %r where the state is expected" % (h[c].ty,))
    return c


def let_pair(a, b, rhs, body):
    return "let '(%s, %s) := %s in\n%s" % (a, b, rhs, body)


def p_put_handle(fn, vs, h, k, ctx, expect):
    need(len(vs) == 2, "put_handle with %d arguments" % len(vs))
    c = store_cell(fn, vs[0], h)
    key, st2 = fn.fresh("key"), fn.fresh("st")
    body = k(CollV("str", key), fn.write(h, c, CollV("store", st2)))
    return let_pair(key, st2, "put_handle %s %s" % (h[c].term, as_sv(fn.deref(vs[1], h))), body)


def p_create_structure(fun):
    def f(fn, vs, h, k, ctx, expect):
        need(len(vs) == 2, "create_structure with %d arguments" % len(vs))
        data = fn.deref(vs[0], h)
        need(data.ty == "json", "create_structure of a %r" % (data.ty,))
        c = store_cell(fn, vs[1], h)
        o, st2 = fn.fresh("child"), fn.fresh("st")
        body = k(CollV(("opt", "str"), o, enc="option"), fn.write(h, c, CollV("store", st2)))
        return let_pair(o, st2, "%s %s %s" % (fun, data.term, h[c].term), body)
    return f


def call3(fn, term, ok_ty, k, h, ctx):
    """a call of a fuelled Result function: all three outcomes"""
    need(ctx.get("fuel") is not None, "a fuelled call where running out of fuel cannot be expressed")
    y = fn.fresh("ok")
    ok = k(CollV(("res", ok_ty, "err"), None, known=("Ok", CollV(ok_ty, y))), h)
    err = k(CollV(("res", ok_ty, "err"), None, known=("Err", CollV("err"))), h)
    return fn.matchn(term, [("EOk %s" % y, ok), ("EErr", err), ("EFuel", ctx["fuel"])])


def p_efsv(fun, same_state):
    def f(fn, vs, h, k, ctx, expect):
        need(len(vs) == 2, "encode_from_state_value with %d arguments" % len(vs))
        v, state = fn.deref(vs[0], h), fn.deref(vs[1], h)
        need(v.ty == "sv" and state.ty == "cells", "encode_from_state_value(%r, %r)" % (v.ty, state.ty))
        if same_state is not None:
            need(state.term == same_state, "a recursive call of encode_from_state_value on another state")
            return call3(fn, "%s %s" % (fun, v.term), "json", k, h, ctx)
        return call3(fn, "%s %s %s" % (fun, state.term, v.term), "json", k, h, ctx)
    return f


def p_encode_from_state(fn, vs, h, k, ctx, expect):
    need(len(vs) == 2, "encode_from_state with %d arguments" % len(vs))
    v, state = fn.deref(vs[0], h), fn.deref(vs[1], h)
    need(v.ty == "str" and state.ty == "cells", "encode_from_state(%r, %r)" % (v.ty, state.ty))
    return call3(fn, "gen_encode_from_state render fuel %s %s" % (state.term, v.term), "str", k, h, ctx)


def p_get_handles_sub_state(fn, vs, h, k, ctx, expect):
    need(len(vs) == 1, "get_handles_sub_state with %d arguments" % len(vs))
    c = store_cell(fn, vs[0], h)
    return k(CollV("cells", "(cells %s)" % h[c].term), h)


def p_parse_json(fn, vs, h, k, ctx, expect):
    need(len(vs) == 1 and fn.deref(vs[0], h).ty == "str", "parse_json of something else than one text")
    return k(CollV(("res", "json", "err"), "(parse %s)" % fn.deref(vs[0], h).term, enc="option"), h)


def p_variable_glue(fn, vs, h, k, ctx, expect):
    """create_variables / encode_from_variables: not translated; the path ends here"""
    return ctx["vars"]


# ---- methods -------------------------------------------------------------------------------------------------------------
def one(vs, ty=None):
    need(len(vs) == 1 and (ty is None or vs[0].ty == ty), "method called with %r" % ([v.ty for v in vs],))
    return vs[0]


def pure(ty, fmt):
    def m(fn, r, c, vs, h, k, ctx, tf, expect):
        need(not vs, "method called with %d arguments" % len(vs))
        return k(CollV(ty, fmt % r.term), h)
    return m


def m_push(fn, r, c, vs, h, k, ctx, tf, expect):
    need(c is not None, "push on a temporary")
    x = one(vs)
    need(x.ty in ("sv", "json") and r.ty[1] in (None, x.ty), "push of a %r on a %r" % (x.ty, r.ty))
    return k(CollV("unit"), fn.write(h, c, CollV(("list", x.ty), "(%s ++ [%s])" % (r.term, x.term))))


def m_insert(fn, r, c, vs, h, k, ctx, tf, expect):
    need(c is not None and len(vs) == 2 and vs[0].ty == "str", "insert into a map")
    x = vs[1]
    need(x.ty in ("sv", "json") and r.ty[1] in (None, x.ty), "insert of a %r into a %r" % (x.ty, r.ty))
    return k(CollV(("opt", x.ty), None), fn.write(h, c, CollV(("alist", x.ty), "(alist_insert %s %s %s)" % (vs[0].term, x.term, r.term))))


def m_cells_get(fn, r, c, vs, h, k, ctx, tf, expect):
    key = one(vs, "str")
    return k(CollV(("opt", "sv"), "(alist_get %s %s)" % (key.term, r.term), enc="option"), h)


def m_render(fn, r, c, vs, h, k, ctx, tf, expect):
    need(not vs, "to_string with arguments")
    return k(CollV("str", "(render %s)" % r.term), h)


def m_num_text(fn, r, c, vs, h, k, ctx, tf, expect):
    need(not vs, "to_string with arguments")
    return k(CollV("str", r.term), h)


def m_is_empty(fn, r, c, vs, h, k, ctx, tf, expect):
    need(not vs, "is_empty with arguments")
    return k(CollV("bool", "(match %s with [] => true | _ :: _ => false end)" % r.term), h)


def m_insert_front(fn, r, c, vs, h, k, ctx, tf, expect):
    """Vec::insert(0, x): the only index understood is the literal 0"""
    need(c is not None and len(vs) == 2 and vs[0].ty == "intlit" and vs[0].items == 0, "Vec::insert at another index than the literal 0")
    x = vs[1]
    need(x.ty in ("sv", "json") and r.ty[1] in (None, x.ty), "insert of a %r into a %r" % (x.ty, r.ty))
    return k(CollV("unit"), fn.write(h, c, CollV(("list", x.ty), "(%s :: %s)" % (x.term, r.term))))


METHODS = {
    ("list", "is_empty"): m_is_empty, ("alist", "is_empty"): m_is_empty, ("list", "insert"): m_insert_front,
    ("list", "len"): pure("nat", "(length %s)"), ("alist", "len"): pure("nat", "(length %s)"),
    ("bool", "to_string"): pure("str", "(bool_text %s)"), ("numtext", "to_string"): m_num_text,
    ("json", "to_string"): m_render,
    ("list", "push"): m_push, ("alist", "insert"): m_insert, ("cells", "get"): m_cells_get,
    ("args", "len"): pure("nat", "(length %s)"), ("args", "is_empty"): pure("bool", "(Nat.eqb (length %s) 0%%nat)"),
}


# ---- indexing, iteration, macros -----------------------------------------------------------------------------------------
def index(fn, base, ix, env, h, k, ctx):
    need(base.ty == "args", "indexing a value of type %r" % (base.ty,))

    def k_i(iv, h1):
        iv = fn.deref(iv, h1)
        need(iv.ty == "intlit", "indexing the argument vector with something else than a literal")
        i = iv.items
        if i in fn.argcache:
            return k(CollV("str", fn.argcache[i]), h1)
        x = fn.fresh("a%d" % i)
        saved = fn.argcache
        fn.argcache = dict(saved)
        fn.argcache[i] = x
        try:
            body = k(CollV("str", x), h1)
        finally:
            fn.argcache = saved
        return fn.match2("nth_error %s %d" % (base.term, i), "None", ctx["panic"], "Some %s" % x, body)
    return fn.ex(ix, env, h, k_i, ctx, None)


def index_assign(fn, base, c, ix, v, h, k, ctx):
    raise Rs2vError("assignment to an element")


def iter_of(fn, v, h):
    if tag(v.ty) == "list" and v.ty[1] is not None:
        return CollV(("iter", v.ty[1]), v.term)
    if tag(v.ty) == "alist" and v.ty[1] is not None:
        return CollV(("iter", ("pair", "str", v.ty[1])), v.term)
    raise Rs2vError("for over a value of type %r" % (v.ty,))


def mac_vec(fn, args, env, h, k, ctx, expect):
    need(not args, "vec! with elements")
    return k(CollV(("list", None), "[]"), h)


COMPARE = {"nat": {"<": "(Nat.ltb %s %s)", "<=": "(Nat.leb %s %s)", "==": "(Nat.eqb %s %s)"},
           "str": {"==": "(str_eqb %s %s)"}}
LITERAL = {"nat": "%d%%nat"}


def base_cfg(paths, fields=None):
    return {"fields": fields or {}, "args_term": "args", "ctors": CTORS, "paths": paths, "methods": METHODS,
            "macros": {"vec": mac_vec}, "index": index, "index_assign": index_assign, "iter": iter_of,
            "enums": ENUMS, "compare": COMPARE, "arith": {}, "literal": LITERAL, "types": types, "helpers": {}, "coq_type": coq_type,
            "encodings": ENCODINGS, "call_fn": None, "callees": (), "ident_types": ("str", "err", "msg")}


# ---- the functions -------------------------------------------------------------------------------------------------------
def tr_create_structure_step(parse_src, encode_src):
    params, ret, gens, where, body = rs2v.parse_fn_coll(parse_src, "create_structure")
    need(len(params) == 2 and not gens, "create_structure: unexpected parameters / generics")
    (dn, dt), (sn, st) = params
    need(dt == "Value" and st == "&mutHashMap<String,StateValue>", "create_structure: unexpected parameter types %s / %s" % (dt, st))
    need(ret == "Option<String>", "create_structure: unexpected result type %s" % ret)
    fn = rs2v.FnJson(base_cfg({"put_handle": p_put_handle, "create_structure": p_create_structure("rec")}))
    ctx = {"ret": lambda v, h: "(%s, %s)" % (opt_str_term(fn.deref(v, h)), h["ST"].term), "panic": None, "fuel": None,
           "ret_type": ("opt", "str")}
    return fn.function(body, {dn: CollV("json", "data"), sn: CollV(("ref", "ST"))}, {"ST": CollV("store", "st")}, ctx)


def tr_create_structure(parse_src, encode_src):
    return "gen_create_structure_step gen_create_structure data st"


def tr_efsv_step(parse_src, encode_src):
    params, ret, gens, where, body = rs2v.parse_fn_coll(encode_src, "encode_from_state_value")
    need(len(params) == 2 and not gens, "encode_from_state_value: unexpected parameters / generics")
    (vn, vt), (sn, st) = params
    need(vt == "&StateValue" and st == "&HashMap<String,StateValue>", "encode_from_state_value: unexpected parameter types")
    need(ret == "Result<Value,String>", "encode_from_state_value: unexpected result type %s" % ret)
    fn = rs2v.FnJson(base_cfg({"encode_from_state_value": p_efsv("ev", "state")}))
    ctx = {"ret": lambda v, h: eres_term(fn.deref(v, h), as_json), "panic": None, "fuel": "EFuel", "ret_type": ("res", "json", "err")}
    return fn.function(body, {vn: CollV("sv", "v"), sn: CollV("cells", "state")}, {}, ctx)


def tr_efsv(parse_src, encode_src):
    return ("match fuel with\n| O => EFuel\n| S fuel' => gen_encode_from_state_value_step (gen_encode_from_state_value fuel' state) state v\nend")


def tr_encode_from_state(parse_src, encode_src):
    params, ret, gens, where, body = rs2v.parse_fn_coll(encode_src, "encode_from_state")
    need(len(params) == 2 and not gens, "encode_from_state: unexpected parameters / generics")
    (vn, vt), (sn, st) = params
    need(vt == "&str" and st == "&HashMap<String,StateValue>", "encode_from_state: unexpected parameter types")
    need(ret == "Result<String,String>", "encode_from_state: unexpected result type %s" % ret)
    fn = rs2v.FnJson(base_cfg({"encode_from_state_value": p_efsv("gen_encode_from_state_value fuel", None)}))
    ctx = {"ret": lambda v, h: eres_term(fn.deref(v, h), as_str), "panic": None, "fuel": "EFuel", "ret_type": ("res", "str", "err")}
    return fn.function(body, {vn: CollV("str", "value"), sn: CollV("cells", "state")}, {}, ctx)


def run_fields(ctx_name):
    return {(ctx_name, "arguments"): CollV("args", "args"), (ctx_name, "state"): CollV(("ref", "ST")),
            (ctx_name, "output_variable"): CollV(("opt", "str"), "out", enc="option"),
            (ctx_name, "variables"): CollV("variables")}


def tr_run_parse(parse_src, encode_src):
    receiver, params, body = rs2v.parse_run_coll(parse_src)
    need(receiver == "ref" and len(params) == 1 and params[0][1] == "CommandInvocationContext", "run: unexpected parameters")
    fn = rs2v.FnJson(base_cfg({"parse_json": p_parse_json, "create_structure": p_create_structure("gen_create_structure"),
                               "create_variables": p_variable_glue}, run_fields(params[0][0])))

    def finish(v, h):
        v = fn.deref(v, h)
        need(v.ty == "cmdresult", "`run` ends with a value of type %r" % (v.ty,))
        return "(%s, %s)" % (v.term, h["ST"].term)
    ctx = {"ret": finish, "panic": "(JPanic, st)", "fuel": "(JFuel, st)", "vars": "(JVars, st)", "ret_type": "cmdresult"}
    return fn.function(body, {}, {"ST": CollV("store", "st")}, ctx)


def tr_run_encode(parse_src, encode_src):
    receiver, params, body = rs2v.parse_run_coll(encode_src)
    need(receiver == "ref" and len(params) == 1 and params[0][1] == "CommandInvocationContext", "run: unexpected parameters")
    fn = rs2v.FnJson(base_cfg({"get_handles_sub_state": p_get_handles_sub_state, "encode_from_state": p_encode_from_state,
                               "encode_from_variables": p_variable_glue}, run_fields(params[0][0])))

    def finish(v, h):
        v = fn.deref(v, h)
        need(v.ty == "cmdresult", "`run` ends with a value of type %r" % (v.ty,))
        need(h["ST"].term == "st", "json_encode changes the state")
        return v.term
    ctx = {"ret": finish, "panic": "JPanic", "fuel": "JFuel", "vars": "JVars", "ret_type": "cmdresult"}
    return fn.function(body, {}, {"ST": CollV("store", "st")}, ctx)


TRANSLATORS = {"create_structure_step": tr_create_structure_step, "create_structure": tr_create_structure,
               "encode_from_state_value_step": tr_efsv_step, "encode_from_state_value": tr_efsv,
               "encode_from_state": tr_encode_from_state, "run_parse": tr_run_parse, "run_encode": tr_run_encode}
FIXPOINTS = ("create_structure", "encode_from_state_value")


def why_text(e):
    return ((type(e).__name__ + ": " if not isinstance(e, Rs2vError) else "") + str(e)).replace("*)", "* )").replace("(*", "( *")


def translate_all(api):
    """[(name, term or None, reason when None)]"""
    srcs, why_src = {}, {}
    for key, rel in (("parse", PARSE_RS), ("encode", ENCODE_RS)):
        try:
            srcs[key] = api.read(rel)
        except Exception as e:  # noqa: BLE001
            srcs[key], why_src[key] = None, why_text(e)
    pieces, dead = [], {}
    for name in ORDER:
        try:
            for n in NEEDS.get(name, ()):
                if n in dead:
                    raise Rs2vError("uses %s, which is not understood" % n)
            which = "parse" if name in ("create_structure_step", "create_structure", "run_parse") else "encode"
            if srcs[which] is None:
                raise Rs2vError(why_src[which])
            pieces.append((name, TRANSLATORS[name](srcs["parse"], srcs["encode"]), None))
        except Exception as e:  # noqa: BLE001  anything unexpected means: not understood (never a crash, never a guess)
            dead[name] = True
            pieces.append((name, None, why_text(e)))
    return pieces


def assemble(pieces):
    text = HEAD
    for name, term, why in pieces:
        kw = "Fixpoint" if name in FIXPOINTS else "Definition"
        if term is not None:
            text += "Definition gen_%s_understood : bool := true.\n%s gen_%s %s :=\n%s.\n" % (
                name, kw, name, SIGS[name], rs2v.cmd_indent(term))
        else:
            text += "(* NOT UNDERSTOOD %s: %s *)\nDefinition gen_%s_understood : bool := false.\nDefinition gen_%s %s := %s.\n" % (
                name, why, name, name, SIGS[name].replace(" {struct data}", "").replace(" {struct fuel}", ""), STUBS[name])
    return text + "Definition gen_json_understood : bool := true.\n"


def compiles(api, text):
    """does this candidate text of GenJsonFn.v compile (True also when that cannot be judged now)"""
    import subprocess
    import tempfile
    root = os.path.dirname(os.path.dirname(os.path.dirname(os.path.abspath(__file__))))
    coq, cache = os.path.join(root, "coq"), os.path.join(root, ".cache")
    try:
        with tempfile.TemporaryDirectory(dir=cache if os.path.isdir(cache) else None) as td:
            with open(os.path.join(td, "GenJsonFn.v"), "w") as f:
                f.write("Require Import DS.Base.\n" + text)
            p = subprocess.run(["coqc", "-q", "-Q", "theories", "DS", "-Q", td, "DSG", "-Q", "generated", "DSG", "-w",
                                "-notation-overridden,-deprecated-hint-without-locality,-deprecated-instance-without-locality",
                                os.path.join(td, "GenJsonFn.v")], cwd=coq, capture_output=True, text=True, timeout=300)
    except (OSError, subprocess.TimeoutExpired):
        return True
    if p.returncode == 0:
        return True
    err = (p.stderr or "") + (p.stdout or "")
    return any(w in err for w in ("Cannot find a physical path", "Unable to locate library", "Cannot load", "inconsistent assumptions",
                                  "Can't find file", "annot find library"))


def generate(api, force_stub=False):
    """force_stub=True: every function a stub (test of the tie proofs against the stubs); force_stub=<text>: the file written
    before does not type-check (lib/gen_from_source.py): going through the functions in order, a function whose translation
    does not compile next to the ones kept so far becomes a stub (and so do the functions that use it)"""
    pieces = translate_all(api)
    if force_stub is True:
        pieces = [(n, None, "stub requested") for n, _t, _w in pieces]
    elif force_stub:
        why_bad = "the translation does not type-check (%s)" % str(force_stub)[:200]
        kept, dead = [], {}
        for n, t, w in pieces:
            if t is not None and any(d in dead for d in NEEDS.get(n, ())):
                t, w = None, "uses a function whose translation does not type-check"
            if t is not None and not compiles(api, assemble(kept + [(n, t, w)])):
                t, w = None, why_bad
            if t is None:
                dead[n] = True
            kept.append((n, t, w))
        pieces = kept
    api.emit("GenJsonFn.v", assemble(pieces),
             PARSE_RS + " (create_structure, fn run of impl Command for CommandImpl) and " + ENCODE_RS
             + " (encode_from_state_value, encode_from_state, fn run of impl Command for CommandImpl) by lib/rs2v.py")
