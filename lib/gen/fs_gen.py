"""fs_gen — TRANSLATE the `run` functions of the file commands of the SDK (duckscript_sdk/src/sdk/std/fs/<cmd>/mod.rs) and the
helpers of duckscript_sdk/src/utils/io.rs they call into Gallina on every run (lib/rs2v.py, classes PFs / FnFs) ->
coq/generated/GenFsFn.v:

    gen_cmd_<name> (E : fsenv) (args : list (list N)) (t : tree) : gres      one definition and one flag per command

gres = option (out * tree): None is "the function unwinds".  theories/FsGenTie.v proves gen_cmd_<name> E args t = Some (cmd_<name> E
args t) (theories/FsCmd.v: the argument-vector layer over the history steps FsTree.M_step the C18 theorems are about) for ALL
environments, argument vectors and trees (props/SrcFs.v).

What comes from the SOURCE (re-read on every run): the argument-count tests (operator and bound), which argument each operation
reads (`context.arguments[i]` is `match nth_error args i with None => None | ..`: the equality shows these arms dead), rm's flag
parsing (which argument is tested with which flags function, start index, the loop bounds, the early return), which primitive
is called on which argument in which order and on which tree (the tree is threaded through the calls in source order), how each
primitive's Ok / Err maps to the command result ("true" / "false" / the text / an error), the helpers of utils/io.rs inlined
at their call sites (read_text_file, read_raw_file, write_text_file, write_to_text_file, write_to_file, create_empty_file,
get_file_size), handle creation (read_bytes) and handle lookup (write_bytes), the same-file test of cp / mv.

What comes from the CONFIGURATION below (the trusted part; the correspondence run of C18 validates it on real directories):
  * the PRIMITIVES are the tree operations of FsTree.v (section 1 of that file, "assumed specifications"):
      Path::new(s) / s.as_path() / a &str handed to a primitive      path_of E s   (E: any resolution of texts to nodes)
      Path::exists / is_file / is_dir                                p_exists / p_is_file / p_is_dir
      std::fs::metadata(p) (+ Metadata::is_file / len)               stat p t  (Some n = Ok; node_is_file n, node_len n)
      fsio::file::ensure_exists                                      f_ensure_exists
      fsio::file::write_file / append_file                           f_modify_file p data false / true
      fsio::file::read_text_file                                     Rs2vFsLib.f_read_text (p_read, then utf8_decode)
      fsio::file::read_file                                          p_read
      fsio::directory::create                                        f_dir_create (pk p)
      fsio::directory::create_parent                                 f_create_parent
      std::fs::remove_file / remove_dir / remove_dir_all             p_remove_file / p_remove_dir / p_remove_dir_all
      std::fs::copy                                                  p_copy
      std::fs::canonicalize / Path::canonicalize, == on the results  p_canonicalize, bool_decide (=)
      fs_extra::file::move_file with CopyOptions::new().overwrite(true)    x_move_file _ _ true
      fs_extra::move_items(&vec![src], dst, &dir::CopyOptions::new())      x_move_items (e_move_dir E) src dst
      std::fs::rename / fs_extra::dir::copy (directory sources)      e_rename E / e_dir_copy E  (no assumption at all)
      io::ends_with_separator(s) / Path::extension().is_some()       ends_sep (path_of E s) / has_ext (path_of E s)
      flags::is_unix_flags_argument / is_unix_flag_exists('r', _)    is_unix_flags / flag_r
      str::as_bytes                                                  utf8_encode
  * a primitive answers Ok / Err and a new tree: (bool, tree); error TEXTS are erased (the model has ONE error kind, OErr);
  * put_handle(context.state, StateValue::ByteArray(b)) is the model's OBytes b (the handle name and the rest of the state are
    not modelled by FsTree.v); get_handles_sub_state(context.state).get(key) is handle_of E key : option hval, hval = HBytes b |
    HOther; a u64 printed with to_string is ONum; a bool printed with to_string is "true" / "false";
  * `context.arguments` is `args`.

Each command has its own flag; anything not understood (every exception) -> `gen_cmd_<name>_understood := false` and a
type-correct stub.  `list` (ls) is not translated: the C18 model's Ls is the glob-based listing of the harness, not fs/list."""
import os
import sys

sys.path.insert(0, os.path.dirname(os.path.dirname(os.path.abspath(__file__))))
import rs2v  # noqa: E402
from rs2v import Rs2vError, CmdV  # noqa: E402

FS = "duckscript_sdk/src/sdk/std/fs/"
IO = "duckscript_sdk/src/utils/io.rs"
HEAD = ("From Coq Require Import NArith List.\nFrom stdpp Require Import gmap list.\n"
        "Require Import DS.FsTree DS.Rs2vFsLib.\nLocal Open Scope bool_scope.\n")

# (command, directory)
COMMANDS = [
    ("touch", "touch"), ("mkdir", "mkdir"), ("rmdir", "rmdir"), ("exists", "exists"), ("is_file", "is_file"),
    ("is_dir", "is_directory"), ("size", "get_file_size"), ("read", "read_text"), ("readb", "read_bytes"),
    ("write", "write_text"), ("append", "append"), ("writeb", "write_bytes"), ("rm", "rm"), ("cp", "cp"), ("mv", "mv"),
]
IO_HELPERS = ["read_text_file", "read_raw_file", "write_text_file", "write_to_text_file", "write_to_file", "create_empty_file",
              "get_file_size"]


def need(cond, what):
    if not cond:
        raise Rs2vError(what)


def types(text):
    t = text.replace(" ", "")
    if t in ("bool", "u64"):
        return t
    if t == "usize":
        return "nat"
    if t in ("String", "&str", "&String", "str"):
        return "str"
    if t in ("Vec<u8>", "&[u8]"):
        return "bytes"
    if t == "()":
        return "unit"
    if t == "ScriptError":
        return "scripterr"
    if t == "CommandResult":
        return "cmdresult"
    if t.startswith("Result<") and t.endswith(">") and t.count(",") == 1:
        a, b = t[7:-1].split(",")
        return ("res", types(a), types(b))
    raise Rs2vError("type %s" % text)


def coq_type(ty):
    raise Rs2vError("no Coq type for %r" % (ty,))


def as_path(fn, v):
    """a value handed to a primitive as a path: a Path, or a text the primitive resolves itself"""
    if v.ty == "path":
        return v.term
    need(v.ty == "str" and v.term is not None, "a %r where a path is expected" % (v.ty,))
    return "(path_of E %s)" % v.term


# ---- methods ---------------------------------------------------------------------------------------------------------
def unary(ty, fmt):
    def h(fn, r, vs, tf, expect):
        need(not vs, "arguments of a method without parameters")
        return CmdV(ty, fmt % r.term)
    return h


def m_identity(fn, r, vs, tf, expect):
    need(not vs, "arguments of a conversion")
    return r


def m_as_path(fn, r, vs, tf, expect):
    need(not vs, "as_path with arguments")
    return CmdV("path", as_path(fn, r))


def path_read(fmt, ty="bool"):
    def h(fn, r, vs, tf, expect):
        need(not vs, "arguments of a Path query")
        return CmdV(ty, fmt % (r.term, fn.tree))
    return h


def m_bool_to_string(fn, r, vs, tf, expect):
    need(not vs, "to_string with arguments")
    if isinstance(r.known, bool):
        lit = "true" if r.known else "false"
        return CmdV("str", rs2v.coq_str_lit(lit), lit=lit)
    return CmdV("str", "(if %s then s_true else s_false)" % r.term)


def m_err_to_string(fn, r, vs, tf, expect):
    need(not vs, "to_string with arguments")
    return CmdV("msg", items=r.ty)


def m_opt_is_some(fn, r, vs, tf, expect):
    need(not vs and r.ty == ("opt", "ext"), "is_some on %r" % (r.ty,))
    return CmdV("bool", r.term)


def m_overwrite(fn, r, vs, tf, expect):
    need(len(vs) == 1 and isinstance(vs[0].known, bool), "overwrite(<not a literal>)")
    return CmdV("fileopts", None, items=vs[0].known)


def m_state_get(fn, r, vs, tf, expect):
    need(len(vs) == 1 and vs[0].ty == "str", "get on the handles sub-state with %r" % ([v.ty for v in vs],))
    return CmdV(("opt", "sv"), "(handle_of E %s)" % vs[0].term)


METHODS = {
    ("args", "len"): unary("nat", "(length %s)"), ("args", "is_empty"): unary("bool", "(vec_is_empty %s)"),
    ("str", "to_string"): m_identity, ("msg", "to_string"): m_identity,
    ("str", "as_path"): m_as_path, ("str", "as_bytes"): unary("bytes", "(utf8_encode %s)"),
    ("path", "exists"): path_read("(p_exists %s %s)"), ("path", "is_file"): path_read("(p_is_file %s %s)"),
    ("path", "is_dir"): path_read("(p_is_dir %s %s)"),
    ("path", "canonicalize"): path_read("(p_canonicalize %s %s)", ("res", "canon", "ioerr")),
    ("path", "extension"): unary(("opt", "ext"), "(has_ext %s)"), ("opt", "is_some"): m_opt_is_some,
    ("meta", "is_file"): unary("bool", "(node_is_file %s)"), ("meta", "is_dir"): unary("bool", "(node_is_dir %s)"), ("meta", "len"): unary("u64", "(node_len %s)"),
    ("bool", "to_string"): m_bool_to_string, ("u64", "to_string"): unary("numstr", "%s"),
    ("ioerr", "to_string"): m_err_to_string, ("scripterr", "to_string"): m_err_to_string,
    ("fileopts", "overwrite"): m_overwrite, ("handles", "get"): m_state_get,
}


# ---- constructors, paths, effects ------------------------------------------------------------------------------------
def c_continue(fn, vs, expect):
    need(len(vs) == 1 and isinstance(vs[0].ty, tuple) and vs[0].ty[0] == "opt", "Continue of something else than an Option")
    o = vs[0]
    if o.known is not None:
        if o.known[0] == "None":
            return CmdV("cmdresult", "ONone")
        v = o.known[1]
        need(v.term is not None, "Continue(Some(a value without a term))")
        if v.ty == "str":
            return CmdV("cmdresult", "OVal %s" % v.term)
        if v.ty == "numstr":
            return CmdV("cmdresult", "ONum %s" % v.term)
        if v.ty == "handle":
            return CmdV("cmdresult", "OBytes %s" % v.term)
        raise Rs2vError("Continue(Some(value of type %r))" % (v.ty,))
    need(o.ty[1] == "str", "Continue(Option of %r)" % (o.ty[1],))
    return CmdV("cmdresult", "(match %s with Some v => OVal v | None => ONone end)" % o.term)


def c_error(fn, vs, expect):
    need(len(vs) == 1 and vs[0].ty in ("str", "msg"), "Error of something else than a message")
    return CmdV("cmdresult", "OErr")


def c_bytearray(fn, vs, expect):
    need(len(vs) == 1 and vs[0].ty == "bytes", "StateValue::ByteArray of %r" % ([v.ty for v in vs],))
    return CmdV("svbytes", vs[0].term)


def c_script_error(fn, vs, expect):
    return CmdV("scripterr")


CTORS = {"CommandResult::Continue": c_continue, "CommandResult::Error": c_error, "StateValue::ByteArray": c_bytearray,
         "ScriptError::ErrorReadingFile": c_script_error, "ScriptError::Runtime": c_script_error}


def p_path_new(fn, vs, expect):
    need(len(vs) == 1, "Path::new with %d arguments" % len(vs))
    return CmdV("path", as_path(fn, vs[0]))


def read1(fmt, ty):
    def h(fn, vs, expect):
        need(len(vs) == 1, "a one-path primitive called with %d arguments" % len(vs))
        return CmdV(ty, fmt % (as_path(fn, vs[0]), fn.tree))
    return h


def p_put_handle(fn, vs, expect):
    need(len(vs) == 2 and vs[0].ty == "state" and vs[1].ty == "svbytes", "put_handle of something else than (context.state, a byte array)")
    return CmdV("handle", vs[1].term)


def p_handles(fn, vs, expect):
    need(len(vs) == 1 and vs[0].ty == "state", "get_handles_sub_state of something else than context.state")
    return CmdV("handles")


def p_text(fmt, ty="bool"):
    def h(fn, vs, expect):
        need(len(vs) == 1 and vs[0].ty == "str", "a text test called with %r" % ([v.ty for v in vs],))
        return CmdV(ty, fmt % vs[0].term)
    return h


def p_flag_exists(fn, vs, expect):
    need(len(vs) == 2 and vs[0].ty == "char" and vs[0].lit == "r" and vs[1].ty == "str", "is_unix_flag_exists of another flag than 'r'")
    return CmdV("bool", "(flag_r %s)" % vs[1].term)


def p_ends_sep(fn, vs, expect):
    need(len(vs) == 1 and vs[0].ty == "str", "ends_with_separator of %r" % ([v.ty for v in vs],))
    return CmdV("bool", "(ends_sep %s)" % as_path(fn, vs[0]))


def p_file_opts(fn, vs, expect):
    need(not vs, "CopyOptions::new with arguments")
    return CmdV("fileopts", None, items=False)


def p_dir_opts(fn, vs, expect):
    need(not vs, "CopyOptions::new with arguments")
    return CmdV("diropts")


PATHS = {
    "Path::new": p_path_new, "put_handle": p_put_handle, "get_handles_sub_state": p_handles,
    "fsio::file::read_text_file": read1("(f_read_text %s %s)", ("res", "str", "ioerr")),
    "read_file": read1("(p_read %s %s)", ("res", "bytes", "ioerr")),
    "std::fs::metadata": read1("(stat %s %s)", ("res", "meta", "ioerr")),
    "fs::canonicalize": read1("(p_canonicalize %s %s)", ("res", "canon", "ioerr")),
    "flags::is_unix_flags_argument": p_text("(is_unix_flags %s)"), "flags::is_unix_flag_exists": p_flag_exists,
    "ends_with_separator": p_ends_sep,
    "fs_extra::file::CopyOptions::new": p_file_opts, "dir::CopyOptions::new": p_dir_opts,
}


def eff1(prim, key=False):
    def h(fn, vs, k):
        need(len(vs) == 1, "%s called with %d arguments" % (prim, len(vs)))
        p = as_path(fn, vs[0])
        return fn.effect("%s %s" % (prim, "(pk %s)" % p if key else p), k)
    return h


def eff_write(append):
    def h(fn, vs, k):
        need(len(vs) == 2 and vs[1].ty == "bytes", "write_file / append_file called with %r" % ([v.ty for v in vs],))
        return fn.effect("f_modify_file %s %s %s" % (as_path(fn, vs[0]), vs[1].term, append), k)
    return h


def eff2(prim):
    def h(fn, vs, k):
        need(len(vs) == 2, "%s called with %d arguments" % (prim, len(vs)))
        return fn.effect("%s %s %s" % (prim, as_path(fn, vs[0]), as_path(fn, vs[1])), k)
    return h


def eff_dir_copy(fn, vs, k):
    need(len(vs) == 3 and vs[2].ty == "diropts", "dir::copy called with %r" % ([v.ty for v in vs],))
    return fn.effect("e_dir_copy E %s %s" % (as_path(fn, vs[0]), as_path(fn, vs[1])), k)


def eff_move_file(fn, vs, k):
    need(len(vs) == 3 and vs[2].ty == "fileopts" and isinstance(vs[2].items, bool), "move_file called with %r" % ([v.ty for v in vs],))
    return fn.effect("x_move_file %s %s %s" % (as_path(fn, vs[0]), as_path(fn, vs[1]), "true" if vs[2].items else "false"), k)


def eff_move_items(fn, vs, k):
    need(len(vs) == 3 and vs[0].ty == "pathvec" and len(vs[0].items) == 1 and vs[2].ty == "diropts",
         "move_items called with %r" % ([v.ty for v in vs],))
    return fn.effect("x_move_items (e_move_dir E) %s %s" % (as_path(fn, vs[0].items[0]), as_path(fn, vs[1])), k)


EFFECTS = {
    "ensure_exists": eff1("f_ensure_exists"), "fsio::directory::create": eff1("f_dir_create", key=True),
    "create_parent": eff1("f_create_parent"),
    "write_file": eff_write("false"), "append_file": eff_write("true"),
    "fs::remove_file": eff1("p_remove_file"), "fs::remove_dir": eff1("p_remove_dir"), "fs::remove_dir_all": eff1("p_remove_dir_all"),
    "fs::copy": eff2("p_copy"), "rename": eff2("e_rename E"), "dir::copy": eff_dir_copy,
    "fs_extra::file::move_file": eff_move_file, "move_items": eff_move_items,
}


def mac_vec(fn, args, env, k, ctx, expect):
    return fn.seq(args, env, lambda vs: k(CmdV("pathvec", None, items=vs)), ctx)


def mac_format(fn, args, env, k, ctx, expect):
    need(args and args[0][0] == "str", "format! without a literal")
    return fn.seq(args[1:], env, lambda vs: k(CmdV("msg", lit=args[0][1].split("{")[0])), ctx)


COMPARE = {
    "nat": {"<": "(Nat.ltb %s %s)", "<=": "(Nat.leb %s %s)", "==": "(Nat.eqb %s %s)"},
    "canon": {"==": "(bool_decide (%s = %s))"},
}
LITERAL = {"nat": "%d%%nat"}
ENUMS = {"sv": {"ByteArray": ("HBytes", "bytes")}}


def finish(fn, v):
    need(v.ty == "cmdresult", "`run` ends with a value of type %r" % (v.ty,))
    return "Some (%s, %s)" % (v.term, fn.tree)


def loop_ret(fn, v):
    need(v.ty == "cmdresult", "`return` of a value of type %r" % (v.ty,))
    return "(%s)" % v.term


def read_helpers(api):
    helpers = {}
    src = api.read(IO)
    for h in IO_HELPERS:
        try:
            parsed = rs2v.parse_fs_helper(src, h)
        except Rs2vError:
            continue                      # a helper that is not understood is an unknown callee where it is called
        helpers[h] = parsed
        helpers["io::" + h] = parsed
    return helpers


def translate(src, name, helpers):
    receiver, params, body = rs2v.parse_fs_run(src)
    need(receiver == "ref" and len(params) == 1, "run: unexpected parameters")
    ctx_name = params[0][0]
    cfg = {
        "params": {}, "fields": {(ctx_name, "arguments"): CmdV("args", "args"), (ctx_name, "state"): CmdV("state", None)},
        "args_term": "args", "panic": "None", "finish": finish, "ctors": CTORS, "paths": PATHS, "methods": METHODS,
        "macros": {"vec": mac_vec, "format": mac_format}, "casts": {}, "compare": COMPARE, "arith": {}, "literal": LITERAL,
        "types": types, "helpers": helpers, "coq_type": coq_type, "range": {},
        "tree": "t", "effects": EFFECTS, "enums": ENUMS, "loop_ret": loop_ret,
    }
    fn = rs2v.FnFs(cfg)
    term = fn.function(body, "cmdresult")
    return "Definition gen_cmd_%s (E : fsenv) (args : list (list N)) (t : tree) : gres :=\n%s.\n" % (name, rs2v.cmd_indent(term))


def generate(api, force_stub=False):
    text = HEAD
    rels = []
    try:
        helpers = read_helpers(api)
    except Exception:  # noqa: BLE001
        helpers = {}
    for name, d in COMMANDS:
        flag = "gen_cmd_%s_understood" % name
        rel = FS + d + "/mod.rs"
        rels.append(d + "/mod.rs")
        try:
            if force_stub:
                raise Rs2vError(force_stub if isinstance(force_stub, str) else "stub requested")
            body = translate(api.read(rel), name, helpers)
            text += "Definition %s : bool := true.\n%s" % (flag, body)
        except Exception as e:  # noqa: BLE001  anything unexpected means: not understood (never a crash, never a guess)
            why = (type(e).__name__ + ": " if not isinstance(e, Rs2vError) else "") + str(e).replace("*)", "* )").replace("(*", "( *")
            text += ("(* NOT UNDERSTOOD %s: %s *)\nDefinition %s : bool := false.\n"
                     "Definition gen_cmd_%s (E : fsenv) (args : list (list N)) (t : tree) : gres := None.\n" % (name, why, flag, name))
    text += "Definition gen_fs_understood : bool := true.\n"
    api.emit("GenFsFn.v", text, FS + "{" + ", ".join(rels) + "} (fn run of impl Command for CommandImpl) and " + IO + " by lib/rs2v.py")
