"""codeccmds_gen — TRANSLATE the `run` functions of the byte / base64 / properties glue commands of the SDK into Gallina on
every run (lib/rs2v.py: grammar PColl, executor FnColl; the small extension FnCodec below) -> coq/generated/GenCodeccmdsFn.v:

    gen_cmd_<name> (rnd : nat -> str) (args : list str) (s : cstate) : cres * cstate
                                                            one definition and one flag gen_cmd_<name>_understood per command

over the types of theories/CodecCmds.v (C17: the command layer around the codecs of Codec.v / CodecProps.v).
theories/CodeccmdsGenTie.v proves gen_cmd_<name> rnd args s = cmd_<name> .. args s for ALL argument vectors and states
(props/SrcCodeccmds.v), so the C17 statements about the command models are about what the source says now.

What comes from the SOURCE (re-read on every run): the whole control structure of each `run` — the argument-count test (its
operator and bound), which argument every operation reads (every `context.arguments[i]` is an access that PANICS when the
vector is too short: `match nth_error args i with None => (CPanic, s) | ..`; the equality proofs show these arms dead), the
lookup `state.get(key)` in the handle table and under which key, the `match` on the kind of the value found with one arm
per arm of StateValue (which arm is taken for which kind), which codec function is applied to which operand, the `match`
on its Ok / Err, what is stored by put_handle (which StateValue arm around which value), which result constructor each path
ends in and (through the table below) which error kind it carries.

What comes from the CONFIGURATION below:
  * the CONFIGURED CALLEES (third-party crates / std; their models are the hand-written functions the C17 theorems are
    about, tied to the crates by C17's correspondence run):
      base64::engine::general_purpose::STANDARD.encode(bytes) -> Codec.b64_encode, .decode(text) -> Codec.b64_decode (None = Err),
      String::into_bytes / str::as_bytes -> Codec.utf8_encode, str::from_utf8 -> Codec.utf8_decode (None = Err);
    str::trim / trim_start / trim_end -> Base.trim / trim_start / trim_end, str::is_empty / Vec::is_empty -> the [] test, vec![] -> [];
  * the types: Context.state["handles"] is the model's handle table `handles s` (get_handles_sub_state(context.state) is a
    reference to it; the creation of the sub state on first use is not modelled), StateValue is CodecCmds.sval (one
    constructor per arm; the payloads of List / Set / Any are opaque tags), String = str, Vec<u8> = list N;
  * put_handle(context.state, v) is the model's put_handle: the key is `rnd (cdraws s)` (the random 20 alphanumerics are
    the oracle rnd applied to the number of keys drawn so far), the value is inserted under it (HashMap::insert =
    CodecCmds.ht_insert), the counter goes up; HashMap::get on the handle table = CodecCmds.ht_get;
  * the erasure of error TEXTS to the model's error kinds: ERR_TABLE (a message is classified by its static prefix and
    suffix; a message the table does not decide is "not understood"); the Display of a base64::DecodeError is ce_b64, of a
    std::str::Utf8Error pe_utf8;
  * the outcome wrappers: a command result r in handle table h after d draws is `(r, CS h d)` (`s` itself when nothing was
    written), a panic is `(CPanic, s)`; `context.arguments` is `args`; Vec::is_empty on it is Rs2vStrLib.vec_is_empty.

string/base64/mod.rs is a script (script.ds), not a Rust `run`: nothing to translate.

Each command has its own flag; anything not understood (every exception) -> `gen_cmd_<name>_understood := false` and a
type-correct stub."""
import os
import sys

sys.path.insert(0, os.path.dirname(os.path.dirname(os.path.abspath(__file__))))
import rs2v  # noqa: E402
from rs2v import Rs2vError, CollV  # noqa: E402

STD = "duckscript_sdk/src/sdk/std/"
HEAD = ("Require Import DS.Utf8 DS.Strings DS.Codec DS.CodecProps DS.Rs2vStrLib DS.CodecCmds DS.Rs2vCodecLib.\n"
        "Local Open Scope bool_scope.\n")

COMMANDS = [
    ("string_to_bytes", "string/string_to_bytes/mod.rs"),
    ("bytes_to_string", "string/bytes_to_string/mod.rs"),
    ("base64_encode", "string/base64_encode/mod.rs"),
    ("base64_decode", "string/base64_decode/mod.rs"),
    ("map_to_properties", "collections/map_to_properties/mod.rs"),
]
STATE_RS = "duckscript_sdk/src/utils/state.rs"
CMD_SIG = "(rnd : nat -> str) (args : list str) (s : cstate) : cres * cstate"

# (static prefix, static suffix, kind): first match wins; prefix AND suffix must match
ERR_TABLE = [
    ("Array handle not provided.", "", "ce_args"), ("Value not provided.", "", "ce_args"), ("Missing input.", "", "ce_args"),
    ("Map handle not provided.", "", "ce_args"), ("Map handle and/or properties text not provided.", "", "ce_args"),
    ("Invalid handle provided.", "", "ce_kind"),
    ("Array for handle: ", " not found.", "ce_notfound"), ("Map for handle: ", " not found.", "ce_notfound"),
    ("Unsupported value type.", "", "ce_unsupported"),
]
STD_ERR_KINDS = {"DecodeError": "ce_b64", "Utf8Error": "pe_utf8"}

# StateValue arm -> (constructor of CodecCmds.sval, type of the payload)
SVAL = [("Boolean", "SBool", "bool"), ("Number", "SNum", "isize"), ("UnsignedNumber", "SUNum", "usize"),
        ("Number32Bit", "SNum32", "i32"), ("UnsignedNumber32Bit", "SUNum32", "u32"), ("Number64Bit", "SNum64", "i64"),
        ("UnsignedNumber64Bit", "SUNum64", "u64"), ("String", "SString", "str"), ("ByteArray", "SBytes", "bytes"),
        ("List", "SList", "opaque"), ("Set", "SSet", "opaque"), ("SubState", "SSub", "pmap"), ("Any", "SAny", "opaque")]
ENUMS = {"sval": [("%s %%s" % c, [(r, t, None)], None) for r, c, t in SVAL]}
ENCODINGS = {"option": ("Some %s", "None", None)}
COQ_TYPES = {"str": "str", "bool": "bool", "nat": "nat", "bytes": "list N", "sval": "sval", "store": "htable",
             "pmap": "list (str * sval)", "smap": "list (str * str)", "char": "N", "isize": "Z", "usize": "N", "i32": "Z", "u32": "N", "i64": "Z", "u64": "N", "opaque": "N"}


def need(cond, what):
    if not cond:
        raise Rs2vError(what)


def tag(ty):
    return ty[0] if isinstance(ty, tuple) else ty


def types(text):
    t = text.replace(" ", "")
    if t in ("String", "&str", "&String", "str"):
        return "str"
    if t == "Vec<u8>":
        return "bytes"
    if t in ("bool", "isize", "usize", "i32", "u32", "i64", "u64"):
        return t
    if t == "Result<String,String>":
        return ("res", "str", "str")
    if t == "CommandResult":
        return "cmdresult"
    return None


def coq_type(ty):
    if ty in COQ_TYPES:
        return COQ_TYPES[ty]
    raise Rs2vError("no Coq type for %r" % (ty,))


# ---- error texts -> kinds --------------------------------------------------------------------------------------------
def classify(pre, suf, exact):
    for p, sfx, kind in ERR_TABLE:
        if exact:
            if not sfx and pre == p:
                return kind
            if sfx and pre.startswith(p) and pre.endswith(sfx) and len(pre) >= len(p) + len(sfx):
                return kind
            continue
        if sfx and pre.startswith(p) and suf.endswith(sfx):
            return kind
        if (p.startswith(pre) and p != pre) or (not sfx and p.startswith(pre)):
            raise Rs2vError("error text %r{}%r: its class depends on a run-time value" % (pre, suf))
    raise Rs2vError("error text %r is not in the table of message classes" % (pre if exact else pre + "{}" + suf))


def err_term(v):
    if v.ty == "stderr":
        need(v.items in STD_ERR_KINDS, "error text of a %r, which the model has no kind for" % (v.items,))
        return "%s 0" % STD_ERR_KINDS[v.items]
    if v.ty == "perr":
        need(v.has_term, "error value without a term")
        return v.term
    if v.ty == "str" and v.known == "lit":
        return "%s 0" % classify(v.lit, v.lit, True)
    if v.ty == "msg":
        return "%s 0" % classify(v.lit, v.suf, False)
    raise Rs2vError("error message that is not a literal / format! text / the Display of a configured callee's error (%r)" % (v.ty,))


# ---- StateValue ------------------------------------------------------------------------------------------------------
def as_sval(v):
    if v.ty == "sval":
        need(v.has_term, "state value without a term")
        return v.term
    need(v.ty == "sv", "StateValue expected, found %r" % (v.ty,))
    c, p = v.known
    for r, ctor, pty in SVAL:
        if r == c:
            need(p.ty == pty and p.has_term, "StateValue::%s of a value of type %r" % (c, p.ty))
            return "(%s %s)" % (ctor, p.term)
    raise Rs2vError("StateValue::%s" % c)


def c_sv(name):
    def c(fn, vs, expect):
        need(len(vs) == 1, "StateValue::%s with %d arguments" % (name, len(vs)))
        return CollV("sv", None, known=(name, vs[0]))
    return c


def c_continue(fn, vs, expect):
    need(len(vs) == 1 and tag(vs[0].ty) == "opt", "Continue of something else than an Option")
    o = vs[0]
    need(o.known is not None, "Continue of an Option that is not statically Some / None")
    if o.known[0] == "None":
        return CollV("cmdresult", "CNoVal")
    x = o.known[1]
    need(x.ty == "str" and x.has_term, "Continue(Some(value of type %r))" % (x.ty,))
    return CollV("cmdresult", "CVal %s" % x.term)


def c_error(fn, vs, expect):
    need(len(vs) == 1, "Error with %d arguments" % len(vs))
    return CollV("cmdresult", "CErr %s" % err_term(vs[0]))


def c_hashmap_new(fn, vs, expect):
    """HashMap::new(): the only map these commands create is the HashMap<String, String> handed to java_properties::write"""
    need(not vs, "HashMap::new with arguments")
    return CollV("smap", "[]")


CTORS = {"CommandResult::Continue": c_continue, "CommandResult::Error": c_error, "HashMap::new": c_hashmap_new}
for _r, _c, _t in SVAL:
    CTORS["StateValue::" + _r] = c_sv(_r)


# ---- paths -----------------------------------------------------------------------------------------------------------
def p_get_handles_sub_state(fn, vs, h, k, ctx, expect):
    need(len(vs) == 1 and fn.deref(vs[0], h).ty == "rootstate", "get_handles_sub_state of something else than context.state")
    return k(CollV(("ref", "HS")), h)


def p_put_handle(fn, vs, h, k, ctx, expect):
    need(len(vs) == 2 and vs[0].ty == "rootstate", "put_handle on something else than context.state")
    key = "(rnd %s)" % h["DRAWS"].term
    h2 = fn.write(h, "HS", CollV("store", "(ht_insert %s %s %s)" % (key, as_sval(fn.deref(vs[1], h)), h["HS"].term)))
    h2 = fn.write(h2, "DRAWS", CollV("nat", "(S %s)" % h["DRAWS"].term))
    return k(CollV("str", key), h2)


def p_from_utf8(fn, vs, h, k, ctx, expect):
    need(len(vs) == 1, "from_utf8 with %d arguments" % len(vs))
    b = fn.deref(vs[0], h)
    need(b.ty == "bytes", "str::from_utf8 of a %r" % (b.ty,))
    return k(CollV(("res", "str", "Utf8Error"), "(utf8_decode %s)" % b.term, enc="option"), h)


def p_write(fn, vs, h, k, ctx, expect):
    """java_properties::write(&mut buffer, &properties): CodecProps.pp_write on the map in its iteration order; Ok(()) with the
    bytes appended to the (empty) buffer, Err(e) with e's kind and line, or the model's fuel"""
    need(len(vs) == 2 and fn.is_ref(vs[0]), "write(&mut buffer, &map) expected")
    c = vs[0].ty[1]
    buf, m = fn.deref(vs[0], h), fn.deref(vs[1], h)
    need(buf.ty == "bytes" and buf.term == "[]" and m.ty == "smap", "write into something else than an empty Vec<u8> / of a %r" % (m.ty,))
    b, kd, ln = fn.fresh("written"), fn.fresh("kind"), fn.fresh("line")
    ok = k(CollV(("res", "unit", "perr"), None, known=("Ok", CollV("unit"))), fn.write(h, c, CollV("bytes", b)))
    bad = k(CollV(("res", "unit", "perr"), None, known=("Err", CollV("perr", "%s %s" % (kd, ln)))), h)
    return fn.matchn("pp_write %s" % m.term, [("POk %s" % b, ok), ("PErr %s %s" % (kd, ln), bad), ("PFuel", ctx["fuel"])])


PATHS = {"write": p_write, "get_handles_sub_state": p_get_handles_sub_state, "put_handle": p_put_handle, "str::from_utf8": p_from_utf8}
CONSTS = {"base64::engine::general_purpose::STANDARD": CollV("b64engine")}


# ---- methods ---------------------------------------------------------------------------------------------------------
def pure(ty, fmt, argtys=(), enc=None):
    def m(fn, r, c, vs, h, k, ctx, tf, expect):
        need(len(vs) == len(argtys), "method called with %d arguments" % len(vs))
        need(all(v.ty == t for v, t in zip(vs, argtys)), "method called with %r" % ([v.ty for v in vs],))
        terms = tuple(v.term for v in vs)
        return k(CollV(ty, fmt % (((r.term,) if r.has_term else ()) + terms), enc=enc), h)
    return m


def m_store_get(fn, r, c, vs, h, k, ctx, tf, expect):
    need(len(vs) == 1 and vs[0].ty == "str", "get on the handle table with %r" % ([v.ty for v in vs],))
    return k(CollV(("opt", "sval"), "(ht_get %s %s)" % (vs[0].term, r.term), enc="option"), h)


def m_std_err_to_string(fn, r, c, vs, h, k, ctx, tf, expect):
    need(not vs, "to_string with arguments")
    return k(CollV("stderr", None, items=r.ty), h)


def mutating(fn_new):
    def m(fn, r, c, vs, h, k, ctx, tf, expect):
        need(c is not None, "mutation of a temporary")
        ty, term = fn_new(fn, r, vs)
        return k(CollV("unit"), fn.write(h, c, CollV(ty, term)))
    return m


def new_str_insert(fn, r, vs):
    need(len(vs) == 2 and vs[0].ty == "intlit" and vs[0].items == 0 and vs[1].ty == "char", "String::insert of something else than (0, char)")
    return "str", "(%s :: %s)" % (vs[1].term, r.term)


def new_str_insert_str(fn, r, vs):
    need(len(vs) == 2 and vs[0].ty == "intlit" and vs[0].items == 0 and vs[1].ty == "str", "String::insert_str of something else than (0, &str)")
    return "str", "(%s ++ %s)" % (vs[1].term, r.term)


def new_smap_insert(fn, r, vs):
    need(len(vs) == 2 and vs[0].ty == "str" and vs[1].ty == "str", "insert into a HashMap<String, String> of %r" % ([v.ty for v in vs],))
    return "smap", "(map_insert %s %s %s)" % (vs[0].term, vs[1].term, r.term)


def m_trim_end_matches(fn, r, c, vs, h, k, ctx, tf, expect):
    want = ("bin", "||", ("bin", "==", ("path", ["c"]), ("char", "\n")), ("bin", "==", ("path", ["c"]), ("char", "\r")))
    need(len(vs) == 1 and vs[0].ty == "closure", "trim_end_matches of something else than a closure")
    names, body, _env = vs[0].items
    need(list(names) == ["c"] and body == want, "trim_end_matches of another predicate than |c| c == '\\n' || c == '\\r'")
    return k(CollV("str", "(trim_end_nl %s)" % r.term), h)


def m_bool_to_string(fn, r, c, vs, h, k, ctx, tf, expect):
    need(not vs, "to_string with arguments")
    return k(CollV("str", "(if %s then s_true else s_false)" % r.term), h)


METHODS = {
    ("str", "insert"): mutating(new_str_insert), ("str", "insert_str"): mutating(new_str_insert_str),
    ("smap", "insert"): mutating(new_smap_insert), ("str", "trim_end_matches"): m_trim_end_matches,
    ("bool", "to_string"): m_bool_to_string, ("perr", "to_string"): lambda fn, r, c, vs, h, k, ctx, tf, expect: k(r, h),
    ("isize", "to_string"): pure("str", "(show_Z %s)"), ("i32", "to_string"): pure("str", "(show_Z %s)"),
    ("i64", "to_string"): pure("str", "(show_Z %s)"), ("usize", "to_string"): pure("str", "(show_N %s)"),
    ("u32", "to_string"): pure("str", "(show_N %s)"), ("u64", "to_string"): pure("str", "(show_N %s)"),
    ("args", "len"): pure("nat", "(length %s)"), ("args", "is_empty"): pure("bool", "(vec_is_empty %s)"),
    ("str", "into_bytes"): pure("bytes", "(utf8_encode %s)"), ("str", "as_bytes"): pure("bytes", "(utf8_encode %s)"),
    ("str", "trim"): pure("str", "(trim %s)"), ("str", "trim_start"): pure("str", "(trim_start %s)"),
    ("str", "trim_end"): pure("str", "(trim_end %s)"), ("str", "is_empty"): pure("bool", "(str_is_empty %s)"),
    ("bytes", "to_vec"): pure("bytes", "%s"), ("bytes", "is_empty"): pure("bool", "(vec_is_empty %s)"),
    ("store", "get"): m_store_get,
    ("b64engine", "encode"): pure("str", "(b64_encode %s)", ("bytes",)),
    ("b64engine", "decode"): pure(("res", "bytes", "DecodeError"), "(b64_decode %s)", ("str",), enc="option"),
    ("DecodeError", "to_string"): m_std_err_to_string, ("Utf8Error", "to_string"): m_std_err_to_string,
}


# ---- indexing, macros ------------------------------------------------------------------------------------------------
def index(fn, base, ix, env, h, k, ctx):
    need(base.ty == "args", "indexing a value of type %r" % (base.ty,))
    need(ix[0] == "num", "indexing the argument vector with something else than a literal")
    i = ix[1]
    if i in fn.argcache:
        return k(CollV("str", fn.argcache[i]), h)
    x = fn.fresh("a%d" % i)
    saved = fn.argcache
    fn.argcache = dict(saved)
    fn.argcache[i] = x
    try:
        body = k(CollV("str", x), h)
    finally:
        fn.argcache = saved
    return fn.match2("nth_error %s %d" % (base.term, i), "None", ctx["panic"], "Some %s" % x, body)


def no_index_assign(fn, base, c, ix, v, h, k, ctx):
    raise Rs2vError("assignment to an element")


def iter_of(fn, v, h):
    raise Rs2vError("for over a value of type %r" % (v.ty,))


def mac_format(fn, args, env, h, k, ctx, expect):
    need(args and args[0][0] == "str", "format! without a literal")
    lit = args[0][1]

    def k_args(vs, h1):
        need(lit.count("{}") == len(vs) and lit.count("{") == len(vs) and vs, "format string %r" % lit)
        return k(CollV("msg", None, lit=lit.split("{")[0], suf=lit.split("}")[-1]), h1)
    return fn.seq(args[1:], env, h, k_args, ctx)


def mac_vec(fn, args, env, h, k, ctx, expect):
    need(not args and expect in (None, "bytes"), "vec! with elements / of another type than Vec<u8>")
    return k(CollV("bytes", "[]"), h)


COMPARE = {"nat": {"<": "(Nat.ltb %s %s)", "<=": "(Nat.leb %s %s)", "==": "(Nat.eqb %s %s)"},
           "str": {"==": "(str_eqb %s %s)"}}
LITERAL = {"nat": "%d%%nat"}


class FnCodec(rs2v.FnColl):
    """FnColl plus: constants named by a path (cfg["consts"])"""

    def path(self, e, env, h, k, ctx, expect):
        p = e[1]
        if not (len(p) == 1 and p[0] in env) and "::".join(p) in self.cfg.get("consts", {}):
            return k(self.cfg["consts"]["::".join(p)], h)
        return super().path(e, env, h, k, ctx, expect)

    def ex(self, e, env, h, k, ctx, expect=None):
        if e[0] == "char":
            return k(CollV("char", "%d" % ord(e[1])), h)
        return super().ex(e, env, h, k, ctx, expect)

    PAIRS = {"pmap": "sval", "smap": "str"}

    def for_(self, s, env, h, k_next, ctx):
        """for (k, v) in MAP { body }: the body may mutate ONE variable of the enclosing function and may `return`:
             match for_each_ret (fun acc kv => let '(k, v) := kv in <tree with leaves inl acc' / inr result>) MAP init with
             | inl acc => <rest> | inr r => <the function returns r> end
           (a plain fold_left when the body never returns); MAP's list order is the HashMap's iteration order"""
        _, pat, it, body = s
        if isinstance(pat, str):
            return super().for_(s, env, h, k_next, ctx)
        if len(pat) != 2:
            raise Rs2vError("for over a tuple pattern of %d names" % len(pat))

        def k_it(itv, h1):
            itv = self.deref(itv, h1)
            if itv.ty not in self.PAIRS or not itv.has_term:
                raise Rs2vError("for (a, b) over a value of type %r" % (itv.ty,))
            saved = dict(self.names)
            kx, vx, kv = self.fresh(pat[0]), self.fresh(pat[1]), self.fresh("entry")
            env_b, h_b = self.bind(env, h1, pat[0], CollV("str", kx))
            env_b, h_b = self.bind(env_b, h_b, pat[1], CollV(self.PAIRS[itv.ty], vx))

            def run(hstart, leaf_end, leaf_ret):
                ctx2 = dict(ctx)
                ctx2["ret"] = leaf_ret
                return self.block(body, env_b, hstart, leaf_end, ctx2, None)
            changed, returns = [], []

            def end1(v, hb):
                changed.extend(c for c in h1 if hb[c] is not h1[c] and c not in changed)
                return "X"

            def ret1(v, hb):
                if any(hb[c] is not h1[c] for c in h1):
                    raise Rs2vError("`return` after a mutation inside a for loop")
                returns.append(1)
                return "X"
            names2 = dict(self.names)
            run(h_b, end1, ret1)
            self.names = names2
            if not changed and not returns:
                self.names = saved
                return k_next(h1)
            if len(changed) != 1:
                raise Rs2vError("for loop that mutates %d variables" % len(changed))
            c = changed[0]
            acc = self.fresh("acc")
            ty = h1[c].ty
            h_b2 = self.write(h_b, c, CollV(ty, acc))

            def end2(v, hb):
                if [cc for cc in h1 if hb[cc] is not h_b2[cc]] not in ([c], []):
                    raise Rs2vError("for loop whose body does not act uniformly")
                return ("inl %s" if returns else "%s") % hb[c].term

            def ret2(v, hb):
                v = self.deref(v, hb)
                if v.ty != "cmdresult":
                    raise Rs2vError("`return` of a %r inside a for loop" % (v.ty,))
                return "inr (%s)" % v.term
            tree = run(h_b2, end2, ret2)
            fun = "(fun (%s : %s) (%s : str * %s) =>\n  let '(%s, %s) := %s in\n%s)" % (
                acc, self.cfg["coq_type"](ty), kv, self.cfg["coq_type"](self.PAIRS[itv.ty]), kx, vx, kv, rs2v.cmd_indent(tree))
            if not returns:
                return k_next(self.write(h1, c, CollV(ty, "(fold_left\n%s\n  %s %s)" % (rs2v.cmd_indent(fun), itv.term, h1[c].term))))
            new, r = self.fresh("after"), self.fresh("early")
            return self.matchn("for_each_ret\n%s\n  %s %s" % (rs2v.cmd_indent(fun), itv.term, h1[c].term),
                               [("inl %s" % new, k_next(self.write(h1, c, CollV(ty, new)))),
                                ("inr %s" % r, ctx["ret"](CollV("cmdresult", r), h1))])
        return self.ex(it, env, h, k_it, ctx, None)


def base_cfg():
    return {"fields": {}, "args_term": "args", "ctors": CTORS, "paths": PATHS, "methods": METHODS, "consts": CONSTS,
            "macros": {"format": mac_format, "vec": mac_vec}, "index": index, "index_assign": no_index_assign, "iter": iter_of,
            "enums": ENUMS, "compare": COMPARE, "arith": {}, "literal": LITERAL, "types": types, "helpers": {},
            "coq_type": coq_type, "encodings": ENCODINGS, "call_fn": None, "callees": (),
            "ident_types": ("str", "msg", "sval", "sv", "bytes", "smap", "pmap")}


def read_helpers(state_src):
    """the value helper of state.rs that is inlined where it is called"""
    helpers = {}
    for hname in ("get_as_string",):
        try:
            params, ret, gens, where, body = rs2v.parse_fn_coll(state_src, hname)
            if not gens:
                helpers[hname] = (params, ret, body)
        except Rs2vError:
            pass                          # a helper that is not understood is an unknown callee where it is called
    return helpers


def translate_cmd(src, name, helpers=None):
    receiver, params, body = rs2v.parse_run_coll(src)
    need(receiver == "ref" and len(params) == 1 and params[0][1] == "CommandInvocationContext", "run: unexpected parameters")
    ctx_name = params[0][0]
    cfg = base_cfg()
    cfg["helpers"] = helpers or {}
    cfg["fields"] = {(ctx_name, "arguments"): CollV("args", "args"), (ctx_name, "state"): CollV("rootstate")}
    fn = FnCodec(cfg)

    def finish(v, h):
        v = fn.deref(v, h)
        need(v.ty == "cmdresult", "`run` ends with a value of type %r" % (v.ty,))
        hs, dr = h["HS"].term, h["DRAWS"].term
        st = "s" if (hs, dr) == ("(handles s)", "(cdraws s)") else "CS %s %s" % (hs, dr)
        return "(%s, %s)" % (v.term, st)
    ctx = {"ret": finish, "panic": "(CPanic, s)", "fuel": "(CFuel, s)", "ret_type": "cmdresult"}
    term = fn.function(body, {}, {"HS": CollV("store", "(handles s)"), "DRAWS": CollV("nat", "(cdraws s)")}, ctx)
    return "Definition gen_cmd_%s %s :=\n%s.\n" % (name, CMD_SIG, rs2v.cmd_indent(term))


def why_text(e):
    return ((type(e).__name__ + ": " if not isinstance(e, Rs2vError) else "") + str(e)).replace("*)", "* )").replace("(*", "( *")


def generate(api, force_stub=False):
    text = HEAD
    rels = []
    try:
        helpers = read_helpers(api.read(STATE_RS))
    except Exception:  # noqa: BLE001
        helpers = {}
    for name, rel in COMMANDS:
        flag = "gen_cmd_%s_understood" % name
        rels.append(rel)
        try:
            if force_stub:
                raise Rs2vError("stub requested" if force_stub is True else str(force_stub)[:300])
            body = translate_cmd(api.read(STD + rel), name, helpers)
            text += "Definition %s : bool := true.\n%s" % (flag, body)
        except Exception as e:  # noqa: BLE001  anything unexpected means: not understood (never a crash, never a guess)
            text += ("(* NOT UNDERSTOOD %s: %s *)\nDefinition %s : bool := false.\n"
                     "Definition gen_cmd_%s %s := (CFuel, s).\n" % (name, why_text(e), flag, name, CMD_SIG))
    text += "Definition gen_codeccmds_understood : bool := true.\n"
    api.emit("GenCodeccmdsFn.v", text, STD + "{" + ", ".join(rels) + "} (fn run of impl Command for CommandImpl) by lib/rs2v.py")
