"""flowif_gen — regenerate coq/generated/GenFlowifFn.v: the Gallina translation of the if / elseif / else / end_if commands of
duckscript_sdk/src/sdk/std/flowcontrol/ifelse/mod.rs (translator lib/rs2v.py, classes PTs / FnTs, builder B24).

One generated definition and one `gen_<fn>_understood` flag per Rust function:

    flowcontrol/mod.rs     get_line_key                          gen_get_line_key
    end/mod.rs             set_command                           gen_end_set_command
    ifelse/mod.rs          create_if_meta_info_for_line          gen_create_if_meta_info_for_line
                           get_or_create_if_meta_info_for_line   gen_get_or_create_if_meta_info_for_line
                           pop_call_info_for_line                gen_pop_call_info_for_line (+ _body: one loop iteration)
                           store_call_info                       gen_store_call_info
                           IfCommand::run / ElseIfCommand::run / ElseCommand::run / EndIfCommand::run
                                                                 gen_if_run / gen_elseif_run / gen_else_run / gen_endif_run

A function the translator does not understand (any exception) gets `gen_<fn>_understood := false`, a type-correct stub and a
`(* NOT UNDERSTOOD <fn>: reason *)` comment; so does every function that calls it.  Proofs: coq/theories/FlowifGenTie.v.

FROM THE SOURCE (symbolic execution of the parsed function bodies): the control structure of every function; which names
go into the five lists handed to find_commands and in which order (the aliases() / name() / new() bodies of the ten command
structs are executed from their own files); the literals (state keys, aliases, names); which struct fields are read and
written; the order of state reads and writes; every `v[i]` as an explicit panic arm unless an `is_empty()` test on the path
made it safe; the loop of pop_call_info_for_line as a step function; the struct definitions (fields and types checked against
the records below) and the serialise / deserialise pairs (checked to be mutually inverse field by field by ts_check_serde
before the typed view is used at all).

FROM THIS CONFIGURATION:
  * the typed view of the runtime state (LAYOUT; Coq record FlowifGenLib.gis): which nested sub-state holds the serialised
    IfElseMetaInfo / CallInfo / end-command names, and how an insert into each association list is spelled
    (`(k, v) :: l` for the meta-info cache, `aset str_eqb k v l` for the end table — both are HashMap::insert for lookups);
  * the Coq records the structs become (IfElseMetaInfo -> Flow.ifmeta, CallInfo -> FlowifGenLib.gifcall with ALL five fields);
  * the callees that are not translated here, each tied separately or abstracted by the model:
      instruction_query::find_commands -> FlowScan.find_commands on the table of the five lists (tie "findcmds"; Ok(None) is
          not an outcome of the model's function: Src_findcmds_total), Err(_) -> the three error outcomes;
      condition::eval_condition -> a function parameter of the generated run functions (the model's evaluator);
      get_line_context_name -> the component gis_lcn ("" when absent); pckg::concat -> FlowifGenLib.pckg_concat;
  * Result<T, String> is `option T` (error texts are not kept), CommandResult -> Flow.cres with the error-text -> code table
    ERR_TEXT / the per-callee codes ERR_FROM / CRASH_FROM; usize is nat (no overflow), usize::to_string is usize_to_string;
  * the fuel of the loop (S (length of the call stack)); out of fuel is the outcome None of the fuelled functions;
  * signatures (binder order and types) of the generated definitions, so that stubs and translations have the same type.
"""
import os
import sys

sys.path.insert(0, os.path.dirname(os.path.dirname(os.path.abspath(__file__))))
import rs2v  # noqa: E402

FC = "duckscript_sdk/src/sdk/std/flowcontrol/"
IFELSE = FC + "ifelse/mod.rs"
OUT_NAME = "GenFlowifFn.v"

T_META = ("struct", "IfElseMetaInfo")
T_CALL = ("struct", "CallInfo")
STATE_TYPE = "gis X"

STRUCTS = {
    "IfElseMetaInfo": {"mk": "mkIM", "coq": "ifmeta",
                       "fields": [("start", "im_start", "nat"), ("end", "im_end", "nat"), ("else_lines", "im_else", ("list", "nat"))],
                       "rust": [("start", "usize"), ("end", "usize"), ("else_lines", "Vec<usize>")]},
    "CallInfo": {"mk": "mkGIC", "coq": "gifcall",
                 "fields": [("current", "gic_current", "nat"), ("passed", "gic_passed", "bool"), ("else_line_index", "gic_idx", "nat"),
                            ("meta_info", "gic_meta", T_META), ("line_context_name", "gic_lcn", "str")],
                 "rust": [("current", "usize"), ("passed", "bool"), ("else_line_index", "usize"), ("meta_info", "IfElseMetaInfo"),
                          ("line_context_name", "String")]},
}
SERDE = {"IfElseMetaInfo": {"ser": "serialize_ifelse_meta_info", "de": "deserialize_ifelse_meta_info"},
         "CallInfo": {"ser": "serialize_call_info", "de": "deserialize_call_info"}}

LAYOUT = {
    ("cmd", "ifelse"): {"kind": "submap"},
    ("cmd", "ifelse", "meta_info"): {"kind": "dynmap", "comp": "meta", "value": ("serde", "IfElseMetaInfo"),
                                     "lookup": "aget str_eqb %s %s", "insert": "((%s, %s) :: %s)"},
    ("cmd", "ifelse", "call_stack"): {"kind": "list", "comp": "stk", "elem": "CallInfo"},
    ("cmd", "end"): {"kind": "dynmap", "comp": "end", "value": ("variant", "String", "str"),
                     "insert": "(aset str_eqb %s %s %s)"},
}
STATE = {"type": STATE_TYPE, "implicit": "{X : Type} ", "mk": "mkGIS", "comps": ["x", "lcn", "meta", "stk", "end"],
         "proj": {"x": "gis_x", "lcn": "gis_lcn", "meta": "gis_meta", "stk": "gis_stk", "end": "gis_end"}}
PLACE_FNS = {"get_core_sub_state_for_command": ("root", ("cmd",)), "get_sub_state": "sub", "get_list": "list"}

# command structs -> the module (file) their impls live in (None: ifelse/mod.rs itself)
CMD_STRUCTS = {"IfCommand": None, "ElseIfCommand": None, "ElseCommand": None, "EndIfCommand": None,
               "FunctionCommand": "function", "EndFunctionCommand": "function", "ForInCommand": "forin",
               "EndForInCommand": "forin", "WhileCommand": "while_mod", "EndWhileCommand": "while_mod"}
MODULE_FILES = {"function": FC + "function/mod.rs", "forin": FC + "forin/mod.rs", "while_mod": FC + "while_mod/mod.rs",
                "end": FC + "end/mod.rs"}

ERR_TEXT = {"Missing condition": 10,
            "Found an else-if block but not currently running part of an if/else invocation flow.": 2,
            "Found an else block but not currently running part of an if/else invocation flow.": 3}
ERR_FROM = {"eval_condition": 30}
CRASH_FROM = {"get_or_create_if_meta_info_for_line": 1}

EVC_TYPE = "list str -> gis X -> option bool * gis X"


def coq_type(ty):
    if ty in ("nat", "str", "bool", "cres"):
        return ty
    if ty == "instrs":
        return "list (option str)"
    if isinstance(ty, tuple) and ty[0] == "list":
        return "list %s" % coq_type(ty[1])
    if isinstance(ty, tuple) and ty[0] in ("option", "result"):
        return "option %s" % coq_type(ty[1])
    if isinstance(ty, tuple) and ty[0] == "struct":
        return STRUCTS[ty[1]]["coq"]
    raise ValueError("no Coq type for %r" % (ty,))


# order = order of definition in the generated file (callees first)
FNS = [
    ("get_line_key", {"file": FC + "mod.rs", "coq": "gen_get_line_key", "params": [("line", "nat"), ("state", "state")],
                      "ret": ("value", "str"), "stub": "[]"}),
    ("set_command", {"file": FC + "end/mod.rs", "module": "end", "coq": "gen_end_set_command", "flag": "end_set_command",
                     "params": [("line", "nat"), ("state", "state"), ("command", "str")], "ret": ("state",), "stub": "st"}),
    ("create_if_meta_info_for_line", {"file": IFELSE, "coq": "gen_create_if_meta_info_for_line",
                                      "params": [("line", "nat"), ("instructions", "instrs"), ("package", "str")],
                                      "ret": ("value", ("result", T_META)), "stub": "None"}),
    ("get_or_create_if_meta_info_for_line", {"file": IFELSE, "coq": "gen_get_or_create_if_meta_info_for_line",
                                             "params": [("line", "nat"), ("state", "state"), ("instructions", "instrs"), ("package", "str")],
                                             "ret": ("pair", ("result", T_META)), "stub": "(None, st)"}),
    ("pop_call_info_for_line", {"file": IFELSE, "coq": "gen_pop_call_info_for_line", "params": [("line", "nat"), ("state", "state")],
                                "ret": ("pair", ("option", T_CALL)), "fuel": True, "loop_locals": ["line_context_name"],
                                "stub": "None",
                                "stub_body": "Definition gen_pop_call_info_for_line_body {X : Type} (line : nat) (line_context_name : str) "
                                             "(st : gis X) : lstep (gis X) (option gifcall * gis X) :=\nLRet (None, st)."}),
    ("store_call_info", {"file": IFELSE, "coq": "gen_store_call_info", "params": [("call_info", T_CALL), ("state", "state")],
                         "ret": ("state",), "stub": "st"}),
    ("IfCommand::run", {"file": IFELSE, "coq": "gen_if_run", "flag": "if_run", "run": "IfCommand", "ret": ("pair", "cres"),
                        "ctx_fields": ["eval_condition", "package", "arguments", "line", "instructions"], "stub": "(RPanic, st)"}),
    ("ElseIfCommand::run", {"file": IFELSE, "coq": "gen_elseif_run", "flag": "elseif_run", "run": "ElseIfCommand", "ret": ("pair", "cres"),
                            "fuel": True, "ctx_fields": ["eval_condition", "arguments", "line"], "stub": "None"}),
    ("ElseCommand::run", {"file": IFELSE, "coq": "gen_else_run", "flag": "else_run", "run": "ElseCommand", "ret": ("pair", "cres"),
                          "fuel": True, "ctx_fields": ["line"], "stub": "None"}),
    ("EndIfCommand::run", {"file": IFELSE, "coq": "gen_endif_run", "flag": "endif_run", "run": "EndIfCommand", "ret": ("pair", "cres"),
                           "ctx_fields": [], "stub": "(RPanic, st)"}),
]
CTX_BINDERS = {"eval_condition": "(eval_condition : %s)" % EVC_TYPE, "package": "(package : str)",
               "arguments": "(arguments : list str)", "line": "(line : nat)", "instructions": "(instructions : list (option str))"}


def flag_of(name, sig):
    return "gen_%s_understood" % sig.get("flag", name)


def generate(api, force_stub=None):
    R = rs2v
    Rs2vError = R.Rs2vError
    TsV = R.TsV
    notes = []
    src_cache = {}

    def read(rel):
        if rel not in src_cache:
            src_cache[rel] = api.read(rel)
        return src_cache[rel]

    # ---- everything that is shared by the functions; a failure here makes every function "not understood"
    shared_err = None
    cfg_base = None
    try:
        if force_stub:
            raise Rs2vError("the translation %s" % force_stub)
        src = read(IFELSE)
        modules = {}
        for mod, rel in MODULE_FILES.items():
            ms = read(rel)
            modules[mod] = {"src": ms, "statics": {k: v for k, (t, v) in R.read_statics(ms).items() if t == R.Ty.STR}}
        decl, serde_ok = R.ts_check_serde(src, SERDE)
        for s in SERDE:
            if serde_ok[s] is None and decl[s] != STRUCTS[s]["rust"]:
                serde_ok[s] = "struct %s has fields %s; the model's record has %s" % (s, decl[s], STRUCTS[s]["rust"])
        # a struct that is used without going through the state must still be the record the model has
        struct_err = {}
        for s in STRUCTS:
            try:
                d = R.ts_read_struct(src, s)
                if d != STRUCTS[s]["rust"]:
                    struct_err[s] = "struct %s has fields %s; the model's record has %s" % (s, d, STRUCTS[s]["rust"])
            except Rs2vError as e:
                struct_err[s] = str(e)

        def h_find_commands(fn, vs, E, st, k, ctx):
            if len(vs) != 9:
                fn.err("find_commands: %d arguments" % len(vs))
            ins, s_, m_, e_, start, end, rec, sb, eb = vs
            for l in (s_, m_, e_, sb, eb):
                if l.ty != ("list", "str") and l.ty != ("list", None):
                    fn.err("find_commands: a name list is a %s" % (l.ty,))
            if ins.ty != "instrs":
                fn.err("find_commands: the first argument is not the instruction list")
            if not (start.known and start.known[0] == "some" and start.known[1].ty == "nat"):
                fn.err("find_commands: start is not Some(<line>)")
            if not (end.known and end.known[0] == "none"):
                fn.err("find_commands: end is not None")
            if not (rec.ty == "bool" and rec.known and rec.known[1] is True):
                fn.err("find_commands: allow_recursive is not the literal true")
            mid, en = fn.fresh("middle"), fn.fresh("end")
            pos = TsV(("fields", "Positions"), None, None, {"middle": TsV(("list", "nat"), mid), "end": TsV("nat", en)})
            okv = TsV(("result", ("option", ("fields", "Positions"))), None,
                      ("ok", TsV(("option", ("fields", "Positions")), None, ("some", pos))))
            errv = TsV(("result", None), None, ("err", TsV("err", None, ("from", "find_commands"))))
            call = "(find_commands (mkT %s %s %s %s %s) %s %s)" % (s_.term, m_.term, e_.term, sb.term, eb.term, ins.term,
                                                                    start.known[1].term)
            return "match %s with\n| SOk %s %s =>\n%s\n| SMissing =>\n%s\n| SNested =>\n%s\n| SNoNames =>\n%s\nend" % (
                call, mid, en, k(okv, E, st), k(errv, E, st), k(errv, E, st), k(errv, E, st))

        def h_eval_condition(fn, vs, E, st, k, ctx):
            want = ["arguments", "instructions", "state", "variables", "commands", "env"]
            got = [(v.known[1] if (v.known and v.known[0] == "ctx") else ("state" if v.ty == ("place", ()) else "?")) for v in vs]
            if got != want:
                fn.err("eval_condition is called with %s instead of the fields %s of the context" % (got, want))
            if not E.has("%eval_condition"):
                fn.err("eval_condition is called in a function whose configured signature has no evaluator parameter")
            b, s2 = fn.fresh(ctx.get("bind_hint") or "passed"), fn.fresh("st")
            okv = TsV(("result", "bool"), None, ("ok", TsV("bool", b)))
            errv = TsV(("result", "bool"), None, ("err", TsV("err", None, ("from", "eval_condition"))))
            return "match (eval_condition %s %s) with\n| (Some %s, %s) =>\n%s\n| (None, %s) =>\n%s\nend" % (
                vs[0].term, st.term(fn.cfg), b, s2, k(okv, E, R.TsSt(s2)), s2, k(errv, E, R.TsSt(s2)))

        def h_lcn(fn, vs, E, st, k, ctx):
            if len(vs) != 1 or vs[0].ty != ("place", ()):
                fn.err("get_line_context_name is not called on the whole state")
            return k(TsV("str", st.comp(fn.cfg, "lcn")), E, st)

        def h_concat(fn, vs, E, st, k, ctx):
            if len(vs) != 2 or vs[0].ty != "str" or vs[1].ty != "str":
                fn.err("pckg::concat: arguments")
            return k(TsV("str", "(pckg_concat %s %s)" % (vs[0].term, vs[1].term)), E, st)

        def cres(fn, ctor, vs):
            def is_none(v):
                return v.known is not None and v.known[0] == "none"
            if ctor == "Continue" and len(vs) == 1 and is_none(vs[0]):
                return "RContinue"
            if ctor == "GoTo" and len(vs) == 2 and is_none(vs[0]) and vs[1].ty == ("goto", "Line") and vs[1].fields["0"].ty == "nat":
                return "(RGoto %s)" % vs[1].fields["0"].term
            if ctor in ("Error", "Crash") and len(vs) == 1:
                v = vs[0]
                if ctor == "Error" and v.ty == "str" and v.known and v.known[0] == "lit" and v.known[1] in ERR_TEXT:
                    return "(RError %d%%N)" % ERR_TEXT[v.known[1]]
                if v.ty == "err" and v.known and v.known[0] == "from":
                    table = ERR_FROM if ctor == "Error" else CRASH_FROM
                    if v.known[1] in table:
                        return "(R%s %d%%N)" % (ctor, table[v.known[1]])
                fn.err("CommandResult::%s of a text the configured error table does not list" % ctor)
            fn.err("CommandResult::%s(..) with arguments the model has no outcome for" % ctor)

        cfg_base = {
            "state": STATE, "layout": LAYOUT, "place_fns": PLACE_FNS, "serde": SERDE, "serde_ok": serde_ok,
            "structs": STRUCTS, "modules": modules, "cmd_structs": CMD_STRUCTS, "coq_type": coq_type,
            "calls": {"instruction_query::find_commands": h_find_commands, "condition::eval_condition": h_eval_condition,
                      "get_line_context_name": h_lcn, "pckg::concat": h_concat},
            "cres": cres, "panic": lambda fn, st: "(RPanic, %s)" % st.term(fn.cfg),
            "num_to_string": "(usize_to_string %s)",
            "fuel": {"pop_call_info_for_line": "(S (length (gis_stk %s)))"},
            "ifelse_src": src, "struct_err": struct_err,
        }
    except Exception as e:  # noqa: BLE001
        shared_err = "%s: %s" % (type(e).__name__, e) if not isinstance(e, Rs2vError) else str(e)

    def context_setup(sig, pname):
        def setup(fn, params, E, binders):
            if len(params) != 1 or "CommandInvocationContext" not in params[0][1]:
                fn.err("run does not take one CommandInvocationContext")
            fields = {}
            cf = sig["ctx_fields"]
            fields["arguments"] = TsV(("list", "str"), "arguments" if "arguments" in cf else None, ("ctx", "arguments"))
            fields["line"] = TsV("nat", "line" if "line" in cf else None)
            fields["instructions"] = TsV("instrs", "instructions" if "instructions" in cf else None, ("ctx", "instructions"))
            fields["state"] = TsV(("place", ()))
            for o in ("variables", "commands", "env"):
                fields[o] = TsV(("opaque", o), None, ("ctx", o))
            E = E.let(params[0][0], TsV(("context",), None, None, fields))
            E = E.let("self", TsV(("self",), None, None, {"package": TsV("str", "package" if "package" in cf else None)}))
            if "eval_condition" in cf:
                E = E.let("%eval_condition", TsV(("opaque", "evaluator")))
            for c in cf:
                binders.append(CTX_BINDERS[c])
            return E
        return setup

    sigs = {}
    for name, sig in FNS:
        s = dict(sig)
        if "run" in s:
            s["params"] = []
            s["context"] = context_setup(s, name)
        s["understood"] = True
        sigs[name.split("::")[0] if "run" not in s else name] = s
    # rust call names -> signatures
    fns_by_call = {(n if "run" not in s else n): s for n, s in sigs.items()}

    out = ["Require Import DS.FlowTables DS.FlowScan DS.Flow DS.FlowifGenLib.", "Local Open Scope bool_scope.",
           "Definition gen_flowif_understood : bool := true."]
    n_ok = 0
    for name, sig0 in FNS:
        sig = fns_by_call[name]
        short = sig.get("flag", name)
        text, why = None, shared_err
        if why is None:
            try:
                cfg = dict(cfg_base)
                cfg["fns"] = fns_by_call
                cfg["src"] = read(sig["file"])
                cfg["statics"] = {k: v for k, (t, v) in R.read_statics(cfg["src"]).items() if t == R.Ty.STR}
                if sig["file"] != IFELSE:
                    # another module's function: its own command structs / serialisers are not in scope
                    cfg["cmd_structs"] = {}
                for s_, e_ in cfg_base["struct_err"].items():
                    if any(s_ in repr(x) for x in (sig.get("params"), sig.get("ret"))) or "run" in sig:
                        raise Rs2vError(e_)
                fn = R.FnTs(cfg, name)
                if "run" in sig:
                    r = R.parse_trait_fn_ts(cfg["src"], "Command", sig["run"], "run")
                    if r is None:
                        raise Rs2vError("impl Command for %s has no fn run" % sig["run"])
                    recv, params, rt, body = r
                    if recv != "ref" or "".join((rt or "").split()) != "CommandResult":
                        raise Rs2vError("run is not `fn run(&self, ..) -> CommandResult`")
                else:
                    params, rt, body = R.parse_fn_ts(cfg["src"], name)
                defs = fn.translate(params, body)
                text = "\n".join(defs)
            except Rs2vError as e:
                why = str(e)
            except RecursionError:
                why = "the function is too deeply nested for the translator"
            except Exception as e:  # noqa: BLE001
                why = "translator crashed: %s: %s" % (type(e).__name__, e)
        flag = flag_of(name, sig0)
        if text is not None:
            out.append("Definition %s : bool := true." % flag)
            out.append(text)
            n_ok += 1
        else:
            sig["understood"] = False
            why = " ".join(str(why).replace("*)", "* )").replace("(*", "( *").split())
            notes.append("%s: %s" % (short, why))
            out.append("(* NOT UNDERSTOOD %s: %s *)" % (short, why))
            out.append("Definition %s : bool := false." % flag)
            out.append(stub_text(sig))
    api.emit(OUT_NAME, "\n".join(out) + "\n",
             "duckscript_sdk/src/sdk/std/flowcontrol/ifelse/mod.rs (+ fn get_line_key of flowcontrol/mod.rs, fn set_command of "
             "end/mod.rs) by lib/rs2v.py")
    return n_ok, notes


def stub_text(sig):
    """a type-correct definition with the configured signature"""
    if "run" in sig or "ctx_fields" in sig:
        binders = [CTX_BINDERS[c] for c in sig["ctx_fields"]]
        has_state = True
    else:
        binders = ["(%s : %s)" % (p if p != "end" else "end_", coq_type(t)) for p, t in sig["params"] if t != "state"]
        has_state = any(t == "state" for _p, t in sig["params"])
    if has_state:
        binders.append("(st : gis X)")
    kind = sig["ret"]
    if kind[0] == "state":
        rt = STATE_TYPE
    elif kind[0] == "value":
        rt = coq_type(kind[1])
    else:
        rt = "%s * %s" % (coq_type(kind[1]), STATE_TYPE)
    if sig.get("fuel"):
        rt = "option (%s)" % rt
    pre = (sig["stub_body"] + "\n") if sig.get("stub_body") else ""
    return "%sDefinition %s %s%s : %s :=\n%s." % (pre, sig["coq"], "{X : Type} " if has_state else "", " ".join(binders), rt, sig["stub"])
