"""C19: regenerate coq/generated/GenScripts.v — every script-implemented SDK command: the local
name given to pckg::concat, its aliases, the scope name and minimum argument count passed to
create_alias_command, and the script text, read from */mod.rs + */script.ds."""
import os
import re


def generate(api):
    root = os.path.join(api.REPO, "duckscript_sdk", "src", "sdk", "std")
    entries = []
    for d, _, files in sorted(os.walk(root)):
        if "script.ds" not in files:
            continue
        rel = os.path.relpath(d, api.REPO)
        mod = api.read(os.path.join(rel, "mod.rs"))
        m = re.search(r'pckg::concat\(\s*package\s*,\s*"([^"]+)"\s*\)', mod)
        c = re.search(r'create_alias_command\(\s*name\s*,\s*vec!\[(.*?)\]\s*,\s*include_str!\("help\.md"\)\.to_string\(\)\s*,\s*'
                      r'"([^"]*)"\.to_string\(\)\s*,\s*include_str!\("script\.ds"\)\.to_string\(\)\s*,\s*(\d+)\s*,?\s*\)', mod, re.S)
        if not m or not c:
            raise api.GenError("%s/mod.rs: create_alias_command call not understood" % rel)
        aliases = re.findall(r'"([^"]*)"\.to_string\(\)', c.group(1))
        if not aliases:
            raise api.GenError("%s/mod.rs: no aliases" % rel)
        text = api.read(os.path.join(rel, "script.ds"))
        entries.append((rel, m.group(1), aliases, c.group(2), int(c.group(3)), text))
    if len(entries) < 5:
        raise api.GenError("only %d script commands found" % len(entries))
    body = ["Record script_cmd := { sc_path : str; sc_name : str; sc_aliases : list str; sc_scope : str; sc_min_args : N; sc_text : str }.",
            "Definition gen_scripts : list script_cmd := ["]
    rows = []
    for rel, name, aliases, scope, n, text in entries:
        rows.append("  {| sc_path := %s; sc_name := %s; sc_aliases := %s; sc_scope := %s; sc_min_args := %d; sc_text := %s |}"
                    % (api.coq_str(rel), api.coq_str(name), api.coq_list(aliases), api.coq_str(scope), n, api.coq_str(text)))
    body.append(";\n".join(rows))
    body.append("].")
    api.emit("GenScripts.v", "\n".join(body) + "\n", "duckscript_sdk/src/sdk/std/**/{mod.rs,script.ds}")
