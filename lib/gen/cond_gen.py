"""cond_gen — TRANSLATE `is_true` of /repo/duckscript_sdk/src/utils/condition.rs into Gallina on every run
(lib/rs2v.py, class FnM) -> coq/generated/GenCondFn.v:  gen_is_true : option str -> bool.

theories/CondGenTie.v proves, for ALL values, gen_is_true v = Cond.is_true v (the hand model, itself written over
the regenerated table GenTruth.v) and gen_is_true v = the property's rule (None -> false, Some s -> negb (falsy s),
CondSpec.falsy) — props/SrcCond.v.

Modelling assumption (the documented one of Base.lower_str): `str::to_lowercase` is mapped to `lower_str`, ASCII
lower-casing; the correspondence run of C06 checks the two agree wherever the comparison with the ASCII literals
can tell them apart.

Not understood -> `gen_cond_understood := false` and a stub; the tie theorems stay provable, the check reports the
tie inactive."""
import os
import sys

sys.path.insert(0, os.path.dirname(os.path.dirname(os.path.abspath(__file__))))
import rs2v  # noqa: E402
from rs2v import Ty, Rs2vError  # noqa: E402

REL = "duckscript_sdk/src/utils/condition.rs"
HEAD = "Local Open Scope bool_scope.\n"
STUB = """Definition gen_cond_understood : bool := false.
Definition gen_is_true (value : option str) : bool := false.
"""


def m_to_lowercase(fn, recv, args, env):
    if args or fn.type_of(recv, env) != Ty.STR:
        raise Rs2vError("to_lowercase on %r" % (recv,))
    return "(lower_str %s)" % fn.ex(recv, env)


def translate(src):
    params, body = rs2v.parse_fn(src, "is_true")
    if len(params) != 1:
        raise Rs2vError("is_true: %d parameters" % len(params))
    cfg = {
        "coq_name": "gen_is_true", "fn_binders": "(value : option str)", "fn_args": "value", "result_type": "bool",
        "mut_self": False, "locals": {}, "params": {params[0][0]: ("opt:" + Ty.STR, "value")},
        "coq_types": {Ty.STR: "str", Ty.BOOL: "bool", "opt:" + Ty.STR: "option str"},
        "methods": {"to_lowercase": m_to_lowercase, "to_ascii_lowercase": m_to_lowercase},
        "method_types": {"to_lowercase": Ty.STR, "to_ascii_lowercase": Ty.STR},
    }
    fn = rs2v.FnM(cfg)
    term = fn.function(params, body)
    if fn.loops:
        raise Rs2vError("is_true: loop")
    return ("Definition gen_cond_understood : bool := true.\n"
            "Definition gen_is_true (value : option str) : bool :=\n" + term + ".\n")


def generate(api, force_stub=False):
    try:
        if force_stub:
            raise Rs2vError("translation rejected: %s" % force_stub)
        text = HEAD + translate(api.read(REL))
    except (Rs2vError, api.GenError, KeyError, IndexError, TypeError, AttributeError) as e:
        text = HEAD + "(* NOT UNDERSTOOD: %s *)\n" % str(e).replace("*)", "* )").replace("(*", "( *") + STUB
    api.emit("GenCondFn.v", text, REL + " (fn is_true) by lib/rs2v.py")
