"""strings_gen — TRANSLATE the `run` functions of the string / range / hex / number-comparison commands of the SDK into
Gallina on every run (lib/rs2v.py, classes PCmd / FnCmd) -> coq/generated/GenStringsFn.v:

    gen_cmd_<name> (args : list str) : result          one definition and one flag gen_cmd_<name>_understood per command

over the SAME result type as the hand models theories/Strings.v (C16) and theories/Codec.v (C17: the two hex commands).
theories/StringsGenTie.v proves gen_cmd_<name> args = cmd_<name> args for ALL argument vectors (props/SrcStrings.v), so the
C16 / C17 theorems about the command models are about what the source says now.

What comes from the SOURCE (re-read on every run): the whole control structure of each `run` — the argument-count test (its
operator and bound), which argument every operation reads (every `context.arguments[i]` is an access that PANICS when the
vector is too short: `match nth_error args i with None => RPanic | ..`; the equality proofs show these arms dead, which is
the no-panic content), which std function is applied to which operands in which order, the order of parsing and bounds
tests of substring / range, every comparison operator and its operands, the integer arithmetic (checked: an overflow of
`len - 1` / `len + value` is an RPanic arm, shown dead from the ranges of the operands), `try_into().unwrap()`, which
result constructor each path ends in, and (through the table below) which error message it carries.

What comes from the CONFIGURATION below:
  * the std mapping, the documented trusted assumption of Strings.v ("Rust's std string functions are the naive list
    functions of Strings.v", validated by C16's correspondence run and its independent Python oracle):
      str::len -> Utf8.blen (bytes), str::is_empty -> [] test, == on String -> Base.str_eqb,
      str::find / rfind / contains / starts_with / ends_with / replace / split (with a &str pattern) -> Strings.find / rfind /
      contains / starts_with / ends_with / replace / split, str::trim / trim_start / trim_end -> Base.trim / trim_start /
      trim_end, str::get(a..b) -> Utf8.slice_bytes, str::parse::<isize> / <i64> -> Strings.parse_isize / parse_i64,
      str::parse::<u64> -> Codec.parse_u64, u64::from_str_radix(_, 16) -> Codec.from_hex_u64,
      str::trim_start_matches("0x") -> Codec.strip_0x, format!("{:#x}", n) -> Codec.hex_encode,
      usize / u64 to_string -> Strings.show_N, isize / i64 to_string -> Strings.show_Z, bool to_string -> "true" / "false",
      (a..b) on i64 -> Strings.zrange, Iterator::map -> List.map, collect -> the list, Vec::push in a for loop ->
      Rs2vStrLib.for_push (a left fold appending one element per item), Vec::len -> length, Vec::is_empty -> [] test,
      `n as isize` on usize -> Rs2vStrLib.usize_as_isize (two's complement), isize -> usize try_into -> isize_to_usize,
      isize / usize `+` / `-` -> Rs2vStrLib.isize_add / isize_sub / usize_add / usize_sub (None = overflow),
      str::chars -> the list of code points, Iterator::filter / count -> List.filter / length, Option::map -> option_map;
      f64 (less_than / greater_than only): str::parse::<f64> -> Rs2vStrLib.parse_f64 (Strings.parse_dec; DBad is the Err) and
      `<` / `>` on f64 -> Rs2vStrLib.f64_ltb, which answers only on the domain Strings.v documents (both literals finite
      decimals of <= 15 significant digits and a magnitude within 1e-290 .. 1e290) and is ROod elsewhere: f64 rounding is NOT
      modelled, exactly as in the hand model (C16_compare_partial);
  * the erasure of error TEXTS to the model's error kinds: ERR_TABLE is the table of harness/src/bin/c16.rs (a message
    is classified by its static prefix; a message whose prefix is not in the table is "not understood"), the Display of a
    std::num::ParseIntError is kind 2 for the hex commands (Codec.v's numbering: 1 no value, 2 not a number);
  * put_handle(context.state, StateValue::List(v)) is the model's RList of the DISPLAY TEXTS of v: StateValue::String(s) is
    s, StateValue::Number64Bit(n) is show_Z n (what the harness prints for a list element); the handle name and the
    rest of the state are not modelled by Strings.v;
  * `context.arguments` is `args`.

`concat` is implemented by a duckscript script (concat/script.ds), not by a Rust `run`: nothing to translate; its model
cmd_concat is tied by the correspondence run only.

Each command has its own flag; anything not understood (every exception) -> `gen_cmd_<name>_understood := false` and a
type-correct stub."""
import os
import sys

sys.path.insert(0, os.path.dirname(os.path.dirname(os.path.abspath(__file__))))
import rs2v  # noqa: E402
from rs2v import Rs2vError, CmdV  # noqa: E402

STD = "duckscript_sdk/src/sdk/std/"
HEAD = ("Require Import DS.Utf8 DS.Strings DS.Codec DS.Rs2vStrLib.\n"
        "Local Open Scope bool_scope.\n")

# the table of harness/src/bin/c16.rs::err_kind (first matching prefix wins)
ERR_TABLE = [
    ("No argument provided.", 1), ("No arguments provided.", 1), ("Two arguments are required.", 2),
    ("Three arguments are required.", 3), ("Non numeric value", 4),
    ("Start index cannot be bigger than total text size.", 5),
    ("Index from end cannot be bigger than total text size.", 6), ("Start index cannot be negative.", 7),
    ("End index cannot be bigger than total text size.", 8), ("End index cannot be smaller than start index.", 9),
    ("Index is not on a character boundary.", 10), ("Invalid input provided.", 11), ("Invalid/Missing input.", 12),
    ("Invalid arguments provided, range start value", 13), ("Invalid arguments provided.", 14),
]
HEX_TABLE = [("Value not provided.", 1)]

# (command, source file, error table, kinds of std error Displays)
COMMANDS = [
    ("length", "string/length/mod.rs", ERR_TABLE, {}),
    ("indexof", "string/indexof/mod.rs", ERR_TABLE, {}),
    ("last_indexof", "string/last_indexof/mod.rs", ERR_TABLE, {}),
    ("substring", "string/substring/mod.rs", ERR_TABLE, {}),
    ("contains", "string/contains/mod.rs", ERR_TABLE, {}),
    ("starts_with", "string/starts_with/mod.rs", ERR_TABLE, {}),
    ("ends_with", "string/ends_with/mod.rs", ERR_TABLE, {}),
    ("equals", "string/equals/mod.rs", ERR_TABLE, {}),
    ("is_empty", "string/is_empty/mod.rs", ERR_TABLE, {}),
    ("replace", "string/replace/mod.rs", ERR_TABLE, {}),
    ("split", "string/split/mod.rs", ERR_TABLE, {}),
    ("trim", "string/trim/mod.rs", ERR_TABLE, {}),
    ("trim_start", "string/trim_start/mod.rs", ERR_TABLE, {}),
    ("trim_end", "string/trim_end/mod.rs", ERR_TABLE, {}),
    ("range", "collections/range/mod.rs", ERR_TABLE, {}),
    ("less_than", "math/less_than/mod.rs", ERR_TABLE, {}),
    ("greater_than", "math/greater_than/mod.rs", ERR_TABLE, {}),
    ("hex_encode", "math/hex_encode/mod.rs", HEX_TABLE, {"ParseIntError": 2}),
    ("hex_decode", "math/hex_decode/mod.rs", HEX_TABLE, {"ParseIntError": 2}),
]

INT_TYPES = {"usize": "N", "u64": "N", "isize": "Z", "i64": "Z", "nat": "nat"}
PARSERS = {"isize": "parse_isize", "i64": "parse_i64", "u64": "parse_u64", "f64": "parse_f64"}
COQ_TYPES = {"str": "str", "bool": "bool", "usize": "N", "u64": "N", "isize": "Z", "i64": "Z", "nat": "nat", "sv": "str",
             "f64": "dec", "char": "char"}


def need(cond, what):
    if not cond:
        raise Rs2vError(what)


def types(text):
    t = text.replace(" ", "")
    if t in ("usize", "u64", "isize", "i64", "bool", "f64"):
        return t
    if t in ("String", "&str", "&String", "str"):
        return "str"
    if t.startswith("Vec<") and t.endswith(">"):
        inner = t[4:-1]
        return ("list", None if inner == "_" else types(inner))
    if t.startswith("Option<") and t.endswith(">"):
        return ("opt", types(t[7:-1]))
    if t.startswith("Result<") and t.endswith(">") and t.count(",") == 1:
        a, b = t[7:-1].split(",")
        return ("res", types(a), types(b))
    if t == "CommandResult":
        return "cmdresult"
    if t == "StateValue":
        return "sv"
    raise Rs2vError("type %s" % text)


def coq_type(ty):
    if ty in COQ_TYPES:
        return COQ_TYPES[ty]
    raise Rs2vError("no Coq type for %r" % (ty,))


# ---- methods ---------------------------------------------------------------------------------------------------------
def unary(ty, fmt):
    def h(fn, r, vs, tf, expect):
        need(not vs, "arguments of a method without parameters")
        return CmdV(ty, fmt % r.term)
    return h


def str_op(ty, fmt, n):
    """a method of str taking n &str arguments"""
    def h(fn, r, vs, tf, expect):
        need(len(vs) == n and all(v.ty == "str" for v in vs), "string method called with %r" % ([v.ty for v in vs],))
        return CmdV(ty, fmt % ((r.term,) + tuple(v.term for v in vs)))
    return h


def m_identity(fn, r, vs, tf, expect):
    need(not vs, "arguments of a conversion")
    return r


def m_parse(fn, r, vs, tf, expect):
    need(not vs, "parse with arguments")
    if tf is not None:
        t = types(tf)
    elif isinstance(expect, tuple) and expect[0] == "wrap":
        t = expect[1]
    else:
        raise Rs2vError("cannot tell the type of parse()")
    need(t in PARSERS, "parse::<%r>" % (t,))
    return CmdV(("res", t, "ParseError" if t == "f64" else "ParseIntError"), "(%s %s)" % (PARSERS[t], r.term))


def m_trim_start_matches(fn, r, vs, tf, expect):
    need(len(vs) == 1 and vs[0].ty == "str" and vs[0].lit == "0x", "trim_start_matches of something else than \"0x\"")
    return CmdV("str", "(strip_0x %s)" % r.term)


def m_get(fn, r, vs, tf, expect):
    need(len(vs) == 1 and vs[0].ty == ("range", "usize"), "str::get of something else than a usize range")
    a, b = vs[0].items
    return CmdV(("opt", "str"), "(slice_bytes %s %s %s)" % (r.term, a.term, b.term))


def m_bool_to_string(fn, r, vs, tf, expect):
    need(not vs, "to_string with arguments")
    if isinstance(r.known, bool):
        lit = "true" if r.known else "false"
        return CmdV("str", rs2v.coq_str_lit(lit), lit=lit)
    return CmdV("str", "(if %s then s_true else s_false)" % r.term)


def m_try_into(fn, r, vs, tf, expect):
    need(not vs and expect == ("wrap", "usize"), "try_into to something else than usize")
    r = fn.literal(r, "isize")
    return CmdV(("res", "usize", "TryFromIntError"), "(isize_to_usize %s)" % r.term)


def m_err_to_string(fn, r, vs, tf, expect):
    need(not vs, "to_string with arguments")
    return CmdV("msg", items=r.ty)


def m_collect(fn, r, vs, tf, expect):
    need(not vs, "collect with arguments")
    r = fn.as_iter(r)
    return CmdV(("list", r.ty[1]), r.term)


def m_list_iter(fn, r, vs, tf, expect):
    need(not vs, "iter with arguments")
    return CmdV(("iter", r.ty[1]), r.term)


METHODS = {
    ("args", "len"): unary("nat", "(length %s)"), ("args", "is_empty"): unary("bool", "(vec_is_empty %s)"),
    ("str", "len"): unary("usize", "(blen %s)"), ("str", "is_empty"): unary("bool", "(str_is_empty %s)"),
    ("str", "to_string"): m_identity, ("msg", "to_string"): m_identity,
    ("str", "find"): str_op(("opt", "usize"), "(find %s %s)", 1), ("str", "rfind"): str_op(("opt", "usize"), "(rfind %s %s)", 1),
    ("str", "contains"): str_op("bool", "(contains %s %s)", 1), ("str", "starts_with"): str_op("bool", "(starts_with %s %s)", 1),
    ("str", "ends_with"): str_op("bool", "(ends_with %s %s)", 1), ("str", "replace"): str_op("str", "(replace %s %s %s)", 2),
    ("str", "split"): str_op(("iter", "str"), "(split %s %s)", 1),
    ("str", "trim"): unary("str", "(trim %s)"), ("str", "trim_start"): unary("str", "(trim_start %s)"),
    ("str", "trim_end"): unary("str", "(trim_end %s)"), ("str", "trim_start_matches"): m_trim_start_matches,
    ("str", "parse"): m_parse, ("str", "get"): m_get,
    ("usize", "to_string"): unary("str", "(show_N %s)"), ("u64", "to_string"): unary("str", "(show_N %s)"),
    ("isize", "to_string"): unary("str", "(show_Z %s)"), ("i64", "to_string"): unary("str", "(show_Z %s)"),
    ("bool", "to_string"): m_bool_to_string,
    ("isize", "try_into"): m_try_into, ("intlit", "try_into"): m_try_into,
    ("ParseIntError", "to_string"): m_err_to_string, ("ParseError", "to_string"): m_err_to_string,
    ("iter", "collect"): m_collect, ("range", "collect"): m_collect,
    ("str", "chars"): lambda fn, r, vs, tf, expect: CmdV(("iter", "char"), r.term),
    ("iter", "count"): unary("usize", "(N.of_nat (length %s))"), ("list", "len"): unary("usize", "(N.of_nat (length %s))"),
    ("list", "iter"): m_list_iter, ("list", "into_iter"): m_list_iter, ("iter", "into_iter"): m_identity,
}


# ---- constructors, paths, macros -------------------------------------------------------------------------------------
def make_error_kind(table, std_kinds):
    def kind(v):
        if v.ty == "msg" and v.lit is None:
            need(v.items in std_kinds, "error text of a %r, which the model has no kind for" % (v.items,))
            return std_kinds[v.items]
        need(v.lit is not None and v.ty in ("msg", "str"), "error message that is not a literal / format! text")
        for p, k in table:
            if v.lit.startswith(p):
                return k
            if v.ty == "msg" and p.startswith(v.lit):
                raise Rs2vError("error text %r: its class depends on a run-time value" % v.lit)
        raise Rs2vError("error text %r is not in the table of message classes" % v.lit)
    return kind


def make_ctors(kind):
    def c_continue(fn, vs, expect):
        need(len(vs) == 1 and isinstance(vs[0].ty, tuple) and vs[0].ty[0] == "opt", "Continue of something else than an Option")
        o = vs[0]
        if o.known is not None:
            if o.known[0] == "None":
                return CmdV("cmdresult", "RNone")
            v = o.known[1]
            if v.ty == "str":
                return CmdV("cmdresult", "RVal %s" % v.term)
            if v.ty == "handle":
                return CmdV("cmdresult", "RList %s" % v.term)
            raise Rs2vError("Continue(Some(value of type %r))" % (v.ty,))
        need(o.ty[1] == "str", "Continue(Option of %r)" % (o.ty[1],))
        return CmdV("cmdresult", "match %s with Some v => RVal v | None => RNone end" % o.term)

    def c_error(fn, vs, expect):
        need(len(vs) == 1, "Error with %d arguments" % len(vs))
        return CmdV("cmdresult", "RErr %d" % kind(vs[0]))

    def c_sv_string(fn, vs, expect):
        need(len(vs) == 1 and vs[0].ty == "str", "StateValue::String of a non-string")
        return CmdV("sv", vs[0].term)

    def c_sv_i64(fn, vs, expect):
        need(len(vs) == 1 and vs[0].ty == "i64", "StateValue::Number64Bit of a non-i64")
        return CmdV("sv", "(show_Z %s)" % vs[0].term)

    def c_sv_list(fn, vs, expect):
        need(len(vs) == 1 and vs[0].ty in (("list", "sv"), ("list", None)), "StateValue::List of %r" % (vs[0].ty,))
        return CmdV("svlist", vs[0].term)
    return {"CommandResult::Continue": c_continue, "CommandResult::Error": c_error, "StateValue::String": c_sv_string,
            "StateValue::Number64Bit": c_sv_i64, "StateValue::List": c_sv_list}


def p_put_handle(fn, vs, expect):
    need(len(vs) == 2 and vs[0].ty == "state" and vs[1].ty == "svlist", "put_handle of something else than (context.state, a list)")
    return CmdV("handle", vs[1].term)


def p_from_str_radix(fn, vs, expect):
    need(len(vs) == 2 and vs[0].ty == "str" and vs[1].ty == "intlit" and vs[1].items == 16, "from_str_radix with another radix than 16")
    return CmdV(("res", "u64", "ParseIntError"), "(from_hex_u64 %s)" % vs[0].term)


PATHS = {"put_handle": p_put_handle, "u64::from_str_radix": p_from_str_radix}


def mac_vec(fn, args, env, k, ctx, expect):
    need(not args, "vec! with elements")
    return k(CmdV(("list", None), "[]"))


def mac_format(fn, args, env, k, ctx, expect):
    need(args and args[0][0] == "str", "format! without a literal")
    lit = args[0][1]

    def k_args(vs):
        if lit == "{:#x}":
            need(len(vs) == 1 and vs[0].ty == "u64", "{:#x} of something else than a u64")
            return k(CmdV("str", "(hex_encode %s)" % vs[0].term))
        need(lit.count("{}") == len(vs) and lit.count("{") == len(vs), "format string %r" % lit)
        return k(CmdV("msg", lit=lit.split("{")[0]))
    return fn.seq(args[1:], env, k_args, ctx)


def cmp_f64(fn, ab, neg, k):
    a, b = ab
    x = fn.fresh("lt")
    body = k(CmdV("bool", "(negb %s)" % x if neg else x))
    return fn.match2("f64_ltb %s %s" % (a.term, b.term), "None", "ROod", "Some %s" % x, body)


COMPARE = {
    "nat": {"<": "(Nat.ltb %s %s)", "<=": "(Nat.leb %s %s)", "==": "(Nat.eqb %s %s)"},
    "usize": {"<": "(N.ltb %s %s)", "<=": "(N.leb %s %s)", "==": "(N.eqb %s %s)"},
    "u64": {"<": "(N.ltb %s %s)", "<=": "(N.leb %s %s)", "==": "(N.eqb %s %s)"},
    "isize": {"<": "(Z.ltb %s %s)", "<=": "(Z.leb %s %s)", "==": "(Z.eqb %s %s)"},
    "i64": {"<": "(Z.ltb %s %s)", "<=": "(Z.leb %s %s)", "==": "(Z.eqb %s %s)"},
    "str": {"==": "(str_eqb %s %s)"},
    "f64": {"<": cmp_f64},
}
ARITH = {("isize", "+"): "isize_add", ("isize", "-"): "isize_sub", ("i64", "+"): "isize_add", ("i64", "-"): "isize_sub",
         ("usize", "+"): "usize_add", ("usize", "-"): "usize_sub", ("u64", "+"): "usize_add", ("u64", "-"): "usize_sub"}
LITERAL = {"nat": "%d%%nat", "usize": "%d%%N", "u64": "%d%%N", "isize": "(%d)%%Z", "i64": "(%d)%%Z"}


def finish(fn, v):
    need(v.ty == "cmdresult", "`run` ends with a value of type %r" % (v.ty,))
    return v.term


def translate(src, name, table, std_kinds):
    receiver, params, body = rs2v.parse_cmd_run(src)
    need(receiver == "ref" and len(params) == 1, "run: unexpected parameters")
    ctx_name = params[0][0]
    helpers = {}
    for h in rs2v.cmd_free_fns(src):
        if h != "create":
            try:
                helpers[h] = rs2v.parse_cmd_helper(src, h)
            except Rs2vError:
                pass                      # a helper that is not understood is an unknown callee where it is called
    cfg = {
        "params": {}, "fields": {(ctx_name, "arguments"): CmdV("args", "args"), (ctx_name, "state"): CmdV("state", None)},
        "args_term": "args", "panic": "RPanic", "finish": finish, "ctors": make_ctors(make_error_kind(table, std_kinds)),
        "paths": PATHS, "methods": METHODS, "macros": {"vec": mac_vec, "format": mac_format},
        "casts": {("usize", "isize"): "(usize_as_isize %s)"}, "compare": COMPARE, "arith": ARITH, "literal": LITERAL,
        "types": types, "helpers": helpers, "coq_type": coq_type, "range": {"i64": "(zrange %s %s)"},
    }
    fn = rs2v.FnCmd(cfg)
    term = fn.function(body, "cmdresult")
    return "Definition gen_cmd_%s (args : list str) : result :=\n%s.\n" % (name, rs2v.cmd_indent(term))


def generate(api, force_stub=False):
    text = HEAD
    rels = []
    for name, rel, table, std_kinds in COMMANDS:
        flag = "gen_cmd_%s_understood" % name
        rels.append(rel)
        try:
            if force_stub:
                raise Rs2vError("stub requested")
            body = translate(api.read(STD + rel), name, table, std_kinds)
            text += "Definition %s : bool := true.\n%s" % (flag, body)
        except Exception as e:  # noqa: BLE001  anything unexpected means: not understood (never a crash, never a guess)
            why = (type(e).__name__ + ": " if not isinstance(e, Rs2vError) else "") + str(e).replace("*)", "* )").replace("(*", "( *")
            text += ("(* NOT UNDERSTOOD %s: %s *)\nDefinition %s : bool := false.\n"
                     "Definition gen_cmd_%s (args : list str) : result := ROod.\n" % (name, why, flag, name))
    text += "Definition gen_strings_understood : bool := true.\n"
    api.emit("GenStringsFn.v", text, STD + "{" + ", ".join(rels) + "} (fn run of impl Command for CommandImpl) by lib/rs2v.py")
