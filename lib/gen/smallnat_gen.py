"""smallnat_gen — regenerate coq/generated/GenSmallnatFn.v: the Gallina translation of the small native commands the flow /
wrapped-call models pass through (translator lib/rs2v.py, class FnSn = FnTs + the block of builder B30).

One generated definition and one `gen_<fn>_understood` flag per Rust function:

    sdk/std/flowcontrol/end/mod.rs    get_command               gen_end_get_command   (flag gen_end_get_command_understood)
                                      CommandImpl::run          gen_end_run
    sdk/std/flowcontrol/goto/mod.rs   CommandImpl::run          gen_goto_run
    sdk/std/not/mod.rs                CommandImpl::run          gen_not_run
    sdk/std/noop/mod.rs               CommandImpl::run          gen_noop_run
    utils/eval.rs                     eval                      gen_eval
                                      eval_with_error           gen_eval_with_error
    sdk/std/eval/mod.rs               CommandImpl::run          gen_eval_run

(end::set_command and flowcontrol::get_line_key are translated by lib/gen/flowif_gen.py; gen_end_get_command CALLS
GenFlowifFn.gen_get_line_key, the theorems about it carry that function's flag too.  release/mod.rs is translated by
lib/gen/collections_gen.py.)

A function the translator does not understand (any exception) gets `gen_<fn>_understood := false`, a type-correct stub and a
`(* NOT UNDERSTOOD <fn>: reason *)` comment; so does every function that calls it.  Proofs: coq/theories/SmallnatGenTie.v.

FROM THE SOURCE (symbolic execution of the parsed function bodies): the control structure of every function (which test comes
first, which arm returns what), the argument-count tests and their operands, the literal the label must start with, the
negation in `not`, which value goes into which CommandResult and with which output, the key the end table is read with
(get_line_key of the line, in the "end" sub-state), the variant the stored value must have, how the instruction handed to
run_instruction is built (every field of ScriptInstruction / InstructionMetaInfo / Instruction that is assigned, and that
nothing else is), the line it is run at, the instruction list and line `eval` runs its parsed instruction with, the
Crash -> Error conversion of eval_with_error, which error becomes which CommandResult; every `v[i]` as an explicit panic arm
unless an `is_empty()` test on the path made it safe (none is left: goto's `arguments[0]` is behind its is_empty test).

FROM THIS CONFIGURATION:
  * the typed view of the runtime state: FlowifGenLib.gis (as for the tie "flowif"): the end table
    state["duckscriptsdk::command::end"][key] : StateValue::String is the association list gis_end, read with
    `aget str_eqb`; by the typed-view invariant every stored value is a String (set_command, the only writer, stores one:
    Src_flowif_end_set), so the `_ => remove corrupted data` arm of get_command is dead and get_command only reads;
  * the callees that are not translated here, each tied separately or abstracted by the model:
      get_line_key           -> GenFlowifFn.gen_get_line_key (tie "flowif");
      runner::run_instruction (end)  -> the function parameter run_instruction : command name -> line -> state -> cres * state,
          applied only after the translator CHECKED that the instruction is `Script { command: Some(c) }` with every other
          field None / meta_info.line = Some(line) and that the remaining arguments are the context's own fields;
      condition::eval_condition      -> the function parameter eval_condition (the model's evaluator), Err -> code 30;
      utils::eval::parse             -> the function parameter parse : list str -> option I (Err -> None; tie "eval":
          gen_eval_parse / EvalSerIx.eval_parse_ix is what SmallnatGenTie instantiates it with);
      runner::run_instruction (eval) -> the function parameter run_instruction : I -> line -> state -> sres * state, applied only
          after the translator CHECKED that the instruction list is the literal `vec![]`, the line the literal 0;
      ScriptInstruction::new / InstructionMetaInfo::new -> all fields None (checked on duckscript/src/types/instruction.rs:
          `Default::default()` of a struct that derives Default and whose fields are all Option<..>);
  * Result<T, String> is `option T` (error texts are not kept); CommandResult -> Flow.cres for `end` (what the flow machines
    use) and SmallnatGenLib.sres (outputs and goto targets kept) for the others, with the error-text -> code table ERR_TEXT /
    the per-callee codes ERR_FROM; bool::to_string is sn_bool_str, starts_with is sn_starts_with;
  * signatures (binder order and types) of the generated definitions, so that stubs and translations have the same type.
"""
import os
import re
import sys

sys.path.insert(0, os.path.dirname(os.path.dirname(os.path.abspath(__file__))))
import rs2v  # noqa: E402

STD = "duckscript_sdk/src/sdk/std/"
END_RS = STD + "flowcontrol/end/mod.rs"
GOTO_RS = STD + "flowcontrol/goto/mod.rs"
NOT_RS = STD + "not/mod.rs"
NOOP_RS = STD + "noop/mod.rs"
EVALCMD_RS = STD + "eval/mod.rs"
EVAL_RS = "duckscript_sdk/src/utils/eval.rs"
INSTR_RS = "duckscript/src/types/instruction.rs"
OUT_NAME = "GenSmallnatFn.v"

STATE_TYPE = "gis X"
LAYOUT = {
    ("cmd", "end"): {"kind": "dynmap", "comp": "end", "value": ("variant", "String", "str"),
                     "lookup": "aget str_eqb %s %s", "insert": "(aset str_eqb %s %s %s)"},
}
STATE = {"type": STATE_TYPE, "implicit": "{X : Type} ", "mk": "mkGIS", "comps": ["x", "lcn", "meta", "stk", "end"],
         "proj": {"x": "gis_x", "lcn": "gis_lcn", "meta": "gis_meta", "stk": "gis_stk", "end": "gis_end"}}
PLACE_FNS = {"get_core_sub_state_for_command": ("root", ("cmd",))}

ERR_TEXT = {"Missing condition": 10, "Label not provided.": 50, "Multiple labels provided.": 51,
            "Invalid label: {} provided.": 52}
ERR_FROM = {"eval_condition": 30, "eval": 40}

FIELD_STRUCTS = {"ScriptInstruction": ["label", "output", "command", "arguments"],
                 "InstructionMetaInfo": ["line", "source"],
                 "Instruction": ["meta_info", "instruction_type"]}

RI_END_TYPE = "str -> nat -> gis X -> cres * gis X"
EVC_TYPE = "list str -> gis X -> option bool * gis X"
RI_EVAL_TYPE = "I -> nat -> gis X -> sres * gis X"
PARSE_TYPE = "list str -> option I"

CTX_BINDERS = {"run_instruction_end": "(run_instruction : %s)" % RI_END_TYPE,
               "eval_condition": "(eval_condition : %s)" % EVC_TYPE,
               "eval_callees": "{I : Type} (parse : %s) (run_instruction : %s)" % (PARSE_TYPE, RI_EVAL_TYPE),
               "arguments": "(arguments : list str)", "line": "(line : nat)"}

# order = order of definition in the generated file (callees first)
FNS = [
    ("get_command", {"file": END_RS, "coq": "gen_end_get_command", "flag": "end_get_command", "res": "cres",
                     "params": [("line", "nat"), ("state", "state")], "ret": ("value", ("option", "str")), "stub": "None"}),
    ("end_run", {"file": END_RS, "coq": "gen_end_run", "flag": "end_run", "run": "CommandImpl", "res": "cres",
                 "ret": ("pair", "cres"), "ctx_fields": ["run_instruction_end", "line"], "stub": "(RPanic, st)",
                 "needs": ["get_command"]}),
    ("goto_run", {"file": GOTO_RS, "coq": "gen_goto_run", "flag": "goto_run", "run": "CommandImpl", "res": "sres",
                  "ret": ("value", "cres"), "ctx_fields": ["arguments"], "stateless": True, "stub": "SPanic"}),
    ("not_run", {"file": NOT_RS, "coq": "gen_not_run", "flag": "not_run", "run": "CommandImpl", "res": "sres",
                 "ret": ("pair", "cres"), "ctx_fields": ["eval_condition", "arguments"], "stub": "(SPanic, st)"}),
    ("noop_run", {"file": NOOP_RS, "coq": "gen_noop_run", "flag": "noop_run", "run": "CommandImpl", "res": "sres",
                  "ret": ("value", "cres"), "ctx_fields": [], "stateless": True, "stub": "SPanic"}),
    ("eval", {"file": EVAL_RS, "coq": "gen_eval", "flag": "eval", "free": ["arguments", "state", "variables", "commands", "env"],
              "res": "sres", "ret": ("pair", ("result", "cres")), "ctx_fields": ["eval_callees", "arguments"],
              "stub": "(None, st)"}),
    ("eval_with_error", {"file": EVAL_RS, "coq": "gen_eval_with_error", "flag": "eval_with_error",
                         "free": ["arguments", "state", "variables", "commands", "env"], "res": "sres",
                         "ret": ("pair", "cres"), "ctx_fields": ["eval_callees", "arguments"], "stub": "(SPanic, st)",
                         "needs": ["eval"]}),
    ("eval_run", {"file": EVALCMD_RS, "coq": "gen_eval_run", "flag": "eval_run", "run": "CommandImpl", "res": "sres",
                  "ret": ("pair", "cres"), "ctx_fields": ["eval_callees", "arguments"], "stub": "(SPanic, st)",
                  "needs": ["eval_with_error"]}),
]


def flag_of(sig):
    return "gen_%s_understood" % sig["flag"]


def coq_type_for(res):
    def coq_type(ty):
        if ty in ("nat", "str", "bool"):
            return ty
        if ty == "cres":
            return res
        if isinstance(ty, tuple) and ty[0] == "list":
            return "list %s" % coq_type(ty[1])
        if isinstance(ty, tuple) and ty[0] in ("option", "result"):
            return "option %s" % coq_type(ty[1])
        raise ValueError("no Coq type for %r" % (ty,))
    return coq_type


def check_default_new(R, src, struct):
    """`S::new()` is `Default::default()` of a struct deriving Default whose fields are all Option<..>: every field None"""
    fields = R.ts_read_struct(src, struct)
    if [f for f, _t in fields] != FIELD_STRUCTS[struct]:
        raise R.Rs2vError("struct %s has fields %s; the configuration has %s" % (struct, [f for f, _ in fields], FIELD_STRUCTS[struct]))
    for f, t in fields:
        if not t.startswith("Option<"):
            raise R.Rs2vError("field %s of %s is a %s, not an Option" % (f, struct, t))
    m = re.search(r"((?:^[ \t]*(?:#\[[^\n]*\]|///[^\n]*)[ \t]*\n)+)^[ \t]*pub\s+struct\s+%s\s*\{" % re.escape(struct), src, re.M)
    if not m or not re.search(r"#\[derive\([^)]*\bDefault\b[^)]*\)\]", m.group(1)):
        raise R.Rs2vError("struct %s does not derive Default" % struct)
    r = R.parse_impl_fn_ts(src, struct, "new")
    if r is None:
        raise R.Rs2vError("%s::new not found" % struct)
    _recv, params, _rt, body = r
    if params or body[1] or body[2] != ("call", ("path", ["Default", "default"]), []):
        raise R.Rs2vError("%s::new is not `Default::default()`" % struct)


def generate(api, force_stub=None):
    R = rs2v
    Rs2vError = R.Rs2vError
    TsV = R.TsV
    notes = []
    src_cache = {}

    def read(rel):
        if rel not in src_cache:
            src_cache[rel] = api.read(rel)
        return src_cache[rel]

    shared_err = None
    understood = {}
    try:
        if force_stub:
            raise Rs2vError("the translation %s" % force_stub)
        if not hasattr(R, "FnSn"):
            raise Rs2vError("lib/rs2v.py has no class FnSn")
        instr_src = read(INSTR_RS)
        new_err = {}
        for s in ("ScriptInstruction", "InstructionMetaInfo"):
            try:
                check_default_new(R, instr_src, s)
            except Rs2vError as e:
                new_err[s] = str(e)
        try:
            d = [f for f, _t in R.ts_read_struct(instr_src, "Instruction")]
            if d != FIELD_STRUCTS["Instruction"]:
                new_err["Instruction"] = "struct Instruction has fields %s" % d
        except Rs2vError as e:
            new_err["Instruction"] = str(e)
    except Exception as e:  # noqa: BLE001
        shared_err = "%s: %s" % (type(e).__name__, e) if not isinstance(e, Rs2vError) else str(e)

    def none_v():
        return TsV(("option", None), "None", ("none",))

    def is_none(v):
        return v.known is not None and v.known[0] == "none"

    def is_ctx(v, name):
        return v.known is not None and v.known[0] == "ctx" and v.known[1] == name

    def h_new(struct):
        def h(fn, vs, E, st, k, ctx):
            if vs:
                fn.err("%s::new with arguments" % struct)
            if struct in new_err:
                fn.err(new_err[struct])
            return k(TsV(("fields", struct), None, None, {f: none_v() for f in FIELD_STRUCTS[struct]}), E, st)
        return h

    def h_script(fn, vs, E, st, k, ctx):
        if len(vs) != 1 or vs[0].ty != ("fields", "ScriptInstruction"):
            fn.err("InstructionType::Script of something that is not a ScriptInstruction built here")
        return k(TsV(("itype", "Script"), None, None, {"0": vs[0]}), E, st)

    def h_line_key(fn, vs, E, st, k, ctx):
        if len(vs) != 2 or vs[0].ty != "nat" or vs[1].ty != ("place", ()):
            fn.err("get_line_key is not called with a line and the whole state")
        return k(TsV("str", "(gen_get_line_key %s %s)" % (vs[0].term, st.term(fn.cfg))), E, st)

    def h_run_instruction(fn, vs, E, st, k, ctx):
        if len(vs) != 7:
            fn.err("run_instruction: %d arguments" % len(vs))
        cmds, varsv, state, ins, instr, line, env = vs
        if not (is_ctx(cmds, "commands") and is_ctx(varsv, "variables") and is_ctx(env, "env") and state.ty == ("place", ())):
            fn.err("run_instruction is not called with the commands / variables / state / env of the context")
        if not E.has("%run_instruction"):
            fn.err("run_instruction is called in a function whose configured signature has no such callee")
        flavour = E.get("%run_instruction").ty[1]
        r, s2 = fn.fresh("result"), fn.fresh("st")
        if flavour == "end":
            if "Instruction" in new_err:
                fn.err(new_err["Instruction"])
            if not is_ctx(ins, "instructions"):
                fn.err("run_instruction (end): the instruction list is not the context's")
            if instr.ty != ("fields", "Instruction"):
                fn.err("run_instruction (end): the instruction is not built here")
            mi, it = instr.fields["meta_info"], instr.fields["instruction_type"]
            if mi.ty != ("fields", "InstructionMetaInfo") or it.ty != ("itype", "Script"):
                fn.err("run_instruction (end): the instruction is not a Script instruction with a meta info built here")
            si = it.fields["0"]
            for f in ("label", "output", "arguments"):
                if not is_none(si.fields[f]):
                    fn.err("run_instruction (end): the instruction has a %s" % f)
            if not is_none(mi.fields["source"]):
                fn.err("run_instruction (end): the meta info has a source")
            ml, cm = mi.fields["line"], si.fields["command"]
            if not (ml.known and ml.known[0] == "some" and ml.known[1].ty == "nat" and line.ty == "nat"
                    and ml.known[1].term == line.term):
                fn.err("run_instruction (end): meta_info.line is not Some(<the line the instruction is run at>)")
            if not (cm.known and cm.known[0] == "some" and cm.known[1].ty == "str"):
                fn.err("run_instruction (end): the instruction has no command")
            call = "(run_instruction %s %s %s)" % (fn.plain(cm.known[1], "the command"), line.term, st.term(fn.cfg))
        else:
            if not (isinstance(ins.ty, tuple) and ins.ty[0] == "list" and ins.known and ins.known[0] == "items" and not ins.known[1]):
                fn.err("run_instruction (eval): the instruction list is not the literal vec![]")
            if instr.ty != ("parsed",):
                fn.err("run_instruction (eval): the instruction is not the parsed one")
            if not (line.ty == "nat" and line.known and line.known[0] == "lit" and line.known[1] == 0):
                fn.err("run_instruction (eval): the line is not the literal 0")
            call = "(run_instruction %s 0%%nat %s)" % (instr.term, st.term(fn.cfg))
        tup = TsV(("tuple",), None, None, {"0": TsV("cres", r), "1": TsV(("opaque", "output variable"))})
        return "match %s with\n| (%s, %s) =>\n%s\nend" % (call, r, s2, k(tup, E, R.TsSt(s2)))

    def h_eval_condition(fn, vs, E, st, k, ctx):
        want = ["arguments", "instructions", "state", "variables", "commands", "env"]
        got = [(v.known[1] if (v.known and v.known[0] == "ctx") else ("state" if v.ty == ("place", ()) else "?")) for v in vs]
        if got != want:
            fn.err("eval_condition is called with %s instead of the fields %s of the context" % (got, want))
        if not E.has("%eval_condition"):
            fn.err("eval_condition is called in a function whose configured signature has no evaluator parameter")
        b, s2 = fn.fresh(ctx.get("bind_hint") or "passed"), fn.fresh("st")
        okv = TsV(("result", "bool"), None, ("ok", TsV("bool", b)))
        errv = TsV(("result", "bool"), None, ("err", TsV("err", None, ("from", "eval_condition"))))
        return "match (eval_condition %s %s) with\n| (Some %s, %s) =>\n%s\n| (None, %s) =>\n%s\nend" % (
            vs[0].term, st.term(fn.cfg), b, s2, k(okv, E, R.TsSt(s2)), s2, k(errv, E, R.TsSt(s2)))

    def h_parse(fn, vs, E, st, k, ctx):
        if len(vs) != 1 or not is_ctx(vs[0], "arguments"):
            fn.err("parse is not called with the arguments")
        if not E.has("%parse"):
            fn.err("parse is called in a function whose configured signature has no such callee")
        x = fn.fresh(ctx.get("bind_hint") or "instruction")
        okv = TsV(("result", ("parsed",)), None, ("ok", TsV(("parsed",), x)))
        errv = TsV(("result", ("parsed",)), None, ("err", TsV("err", None, ("from", "eval"))))
        return "match (parse %s) with\n| Some %s =>\n%s\n| None =>\n%s\nend" % (vs[0].term, x, k(okv, E, st), k(errv, E, st))

    def eval_args_ok(fn, vs, what):
        want = ["arguments", "state", "variables", "commands", "env"]
        got = [(v.known[1] if (v.known and v.known[0] == "ctx") else ("state" if v.ty == ("place", ()) else "?")) for v in vs]
        if got != want:
            fn.err("%s is called with %s instead of %s" % (what, got, want))

    def h_eval(fn, vs, E, st, k, ctx):
        eval_args_ok(fn, vs, "eval")
        if not understood.get("eval"):
            fn.err("the callee eval is not understood")
        if not E.has("%parse"):
            fn.err("eval is called in a function whose configured signature has no parse / run_instruction callees")
        r, s2 = fn.fresh("result"), fn.fresh("st")
        okv = TsV(("result", "cres"), None, ("ok", TsV("cres", r)))
        errv = TsV(("result", "cres"), None, ("err", TsV("err", None, ("from", "eval"))))
        return "match (gen_eval parse run_instruction %s %s) with\n| (Some %s, %s) =>\n%s\n| (None, %s) =>\n%s\nend" % (
            vs[0].term, st.term(fn.cfg), r, s2, k(okv, E, R.TsSt(s2)), s2, k(errv, E, R.TsSt(s2)))

    def h_eval_with_error(fn, vs, E, st, k, ctx):
        eval_args_ok(fn, vs, "eval_with_error")
        if not understood.get("eval_with_error"):
            fn.err("the callee eval_with_error is not understood")
        if not E.has("%parse"):
            fn.err("eval_with_error is called in a function whose configured signature has no parse / run_instruction callees")
        r, s2 = fn.fresh("result"), fn.fresh("st")
        return "match (gen_eval_with_error parse run_instruction %s %s) with\n| (%s, %s) =>\n%s\nend" % (
            vs[0].term, st.term(fn.cfg), r, s2, k(TsV("cres", r), E, R.TsSt(s2)))

    def cres(fn, ctor, vs):
        res = fn.sig["res"]
        if res == "cres":
            if ctor == "Continue" and len(vs) == 1 and is_none(vs[0]):
                return "RContinue"
            fn.err("CommandResult::%s(..) with arguments the flow model has no outcome for" % ctor)
        if ctor == "Continue" and len(vs) == 1:
            if is_none(vs[0]):
                return "(SContinue None)"
            if vs[0].known and vs[0].known[0] == "some" and vs[0].known[1].ty == "str":
                return "(SContinue (Some %s))" % fn.plain(vs[0].known[1], "the output")
        if ctor == "GoTo" and len(vs) == 2 and is_none(vs[0]) and isinstance(vs[1].ty, tuple) and vs[1].ty[0] == "goto":
            g, a = vs[1].ty[1], vs[1].fields["0"]
            if g == "Label" and a.ty == "str":
                return "(SGoto None (SLabel %s))" % fn.plain(a, "the label")
            if g == "Line" and a.ty == "nat":
                return "(SGoto None (SLine %s))" % fn.plain(a, "the line")
        if ctor == "Error" and len(vs) == 1:
            v = vs[0]
            if v.ty == "str" and v.known and v.known[0] in ("lit", "fmt") and v.known[1] in ERR_TEXT:
                return "(SError %d%%N)" % ERR_TEXT[v.known[1]]
            if v.ty == "err" and v.known and v.known[0] == "from" and v.known[1] in ERR_FROM:
                return "(SError %d%%N)" % ERR_FROM[v.known[1]]
            if v.ty == "err" and v.known and v.known[0] == "code":
                return "(SError %s)" % v.known[1]
            fn.err("CommandResult::Error of a text the configured error table does not list")
        if ctor == "Crash" and len(vs) == 1 and vs[0].ty == "err" and vs[0].known and vs[0].known[0] == "code":
            return "(SCrash %s)" % vs[0].known[1]
        fn.err("CommandResult::%s(..) with arguments the model has no outcome for" % ctor)

    def context_setup(sig):
        def setup(fn, params, E, binders):
            cf = sig["ctx_fields"]
            if "free" in sig:
                if [p for p, _t in params] != sig["free"]:
                    fn.err("parameters %s; the configured signature has %s" % ([p for p, _ in params], sig["free"]))
                for p, _t in params:
                    if p == "arguments":
                        E = E.let(p, TsV(("list", "str"), "arguments", ("ctx", "arguments")))
                    elif p == "state":
                        E = E.let(p, TsV(("place", ())))
                    else:
                        E = E.let(p, TsV(("opaque", p), None, ("ctx", p)))
            else:
                if len(params) != 1 or "CommandInvocationContext" not in params[0][1]:
                    fn.err("run does not take one CommandInvocationContext")
                fields = {}
                fields["arguments"] = TsV(("list", "str"), "arguments" if "arguments" in cf else None, ("ctx", "arguments"))
                fields["line"] = TsV("nat", "line" if "line" in cf else None)
                fields["instructions"] = TsV(("opaque", "instructions"), None, ("ctx", "instructions"))
                fields["state"] = TsV(("opaque", "state")) if sig.get("stateless") else TsV(("place", ()))
                for o in ("variables", "commands", "env"):
                    fields[o] = TsV(("opaque", o), None, ("ctx", o))
                E = E.let(params[0][0], TsV(("context",), None, None, fields))
                E = E.let("self", TsV(("self",), None, None, {"package": TsV("str", None)}))
            if "eval_condition" in cf:
                E = E.let("%eval_condition", TsV(("opaque", "evaluator")))
            if "run_instruction_end" in cf:
                E = E.let("%run_instruction", TsV(("callee", "end")))
            if "eval_callees" in cf:
                E = E.let("%run_instruction", TsV(("callee", "eval")))
                E = E.let("%parse", TsV(("opaque", "parse")))
            for c in cf:
                binders.append(CTX_BINDERS[c])
            return E
        return setup

    sigs = {}
    for name, sig in FNS:
        s = dict(sig)
        if "run" in s or "free" in s:
            s["params"] = []
            s["context"] = context_setup(s)
        s["understood"] = True
        sigs[name] = s

    out = ["Require Import DS.FlowTables DS.FlowScan DS.Flow DS.FlowifGenLib DS.SmallnatGenLib.",
           "Require Import DSG.GenFlowifFn.", "Local Open Scope bool_scope.",
           "Definition gen_smallnat_understood : bool := true."]
    n_ok = 0
    for name, sig0 in FNS:
        sig = sigs[name]
        short = sig["flag"]
        text, why = None, shared_err
        if why is None:
            try:
                for dep in sig.get("needs", []):
                    if not understood.get(dep):
                        raise Rs2vError("the callee %s is not understood" % dep)
                src = read(sig["file"])
                cfg = {
                    "state": STATE, "layout": LAYOUT, "place_fns": PLACE_FNS, "serde": {}, "serde_ok": {}, "structs": {},
                    "modules": {}, "cmd_structs": {}, "coq_type": coq_type_for(sig["res"]),
                    "calls": {"get_line_key": h_line_key, "runner::run_instruction": h_run_instruction,
                              "condition::eval_condition": h_eval_condition, "parse": h_parse, "eval": h_eval,
                              "eval::eval_with_error": h_eval_with_error,
                              "ScriptInstruction::new": h_new("ScriptInstruction"),
                              "InstructionMetaInfo::new": h_new("InstructionMetaInfo"), "InstructionType::Script": h_script},
                    "cres": cres, "num_to_string": "(usize_to_string %s)", "fuel": {},
                    "sv_types": {"String": "str"}, "field_structs": FIELD_STRUCTS,
                    "starts_with": "(sn_starts_with %s %s)", "bool_to_string": "(sn_bool_str %s)",
                    "fns": {n: s for n, s in sigs.items() if n == name or "run" not in s and "free" not in s},
                    "src": src, "statics": {k: v for k, (t, v) in R.read_statics(src).items() if t == R.Ty.STR},
                }
                if sig["res"] == "cres":
                    cfg["panic"] = lambda fn, st: "(RPanic, %s)" % st.term(fn.cfg)
                else:
                    cfg["cres_match"] = {"Crash": "SCrash", "Error": "SError"}
                    if sig.get("stateless"):
                        cfg["panic"] = lambda fn, st: "SPanic"
                    elif sig["ret"] == ("pair", "cres"):
                        cfg["panic"] = lambda fn, st: "(SPanic, %s)" % st.term(fn.cfg)
                fn = R.FnSn(cfg, name)
                if "run" in sig:
                    r = R.parse_trait_fn_ts(src, "Command", sig["run"], "run")
                    if r is None:
                        raise Rs2vError("impl Command for %s has no fn run" % sig["run"])
                    recv, params, rt, body = r
                    if recv != "ref" or "".join((rt or "").split()) != "CommandResult":
                        raise Rs2vError("run is not `fn run(&self, ..) -> CommandResult`")
                else:
                    params, rt, body = R.parse_fn_ts(src, name)
                text = "\n".join(fn.translate(params, body))
            except Rs2vError as e:
                why = str(e)
            except RecursionError:
                why = "the function is too deeply nested for the translator"
            except Exception as e:  # noqa: BLE001
                why = "translator crashed: %s: %s" % (type(e).__name__, e)
        flag = flag_of(sig0)
        if text is not None:
            understood[name] = True
            out.append("Definition %s : bool := true." % flag)
            out.append(text)
            n_ok += 1
        else:
            understood[name] = False
            sig["understood"] = False
            why = " ".join(str(why).replace("*)", "* )").replace("(*", "( *").split())
            notes.append("%s: %s" % (short, why))
            out.append("(* NOT UNDERSTOOD %s: %s *)" % (short, why))
            out.append("Definition %s : bool := false." % flag)
            out.append(stub_text(sig))
    api.emit(OUT_NAME, "\n".join(out) + "\n",
             "duckscript_sdk/src/sdk/std/{flowcontrol/end,flowcontrol/goto,not,noop,eval}/mod.rs and fn eval / eval_with_error of "
             "duckscript_sdk/src/utils/eval.rs by lib/rs2v.py")
    return n_ok, notes


def stub_text(sig):
    """a type-correct definition with the configured signature"""
    if "ctx_fields" in sig:
        binders = [CTX_BINDERS[c] for c in sig["ctx_fields"]]
        has_state = not sig.get("stateless")
    else:
        binders = ["(%s : %s)" % (p, coq_type_for(sig["res"])(t)) for p, t in sig["params"] if t != "state"]
        has_state = any(t == "state" for _p, t in sig["params"])
    if has_state:
        binders.append("(st : gis X)")
    ct = coq_type_for(sig["res"])
    kind = sig["ret"]
    if kind[0] == "value":
        rt = ct(kind[1])
    else:
        rt = "%s * %s" % (ct(kind[1]), STATE_TYPE)
    return "Definition %s %s%s : %s :=\n%s." % (sig["coq"], "{X : Type} " if has_state else "", " ".join(binders), rt, sig["stub"])
