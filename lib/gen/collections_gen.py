"""collections_gen — TRANSLATE the handle helpers of duckscript_sdk/src/utils/state.rs and the `run` functions of the native
collection commands of the SDK into Gallina on every run (lib/rs2v.py, classes PColl / FnColl) ->
coq/generated/GenCollectionsFn.v:

    gen_mutate_list / gen_mutate_map / gen_mutate_set (key) (st : store) (handler : C -> option (res * C))
                                            : outcome (res * store)          one flag gen_mutate_<kind>_understood each
    gen_cmd_<name> (rnd) (ord) (args : list str) (s : mstate) : outcome (cres * mstate)
                                                                              one flag gen_cmd_<name>_understood per command

over the SAME types as the hand model theories/Collections.v (C12).  theories/CollectionsGenTie.v proves
gen_mutate_<kind> = mutate_<kind> and gen_cmd_<name> = cmd_<name> for ALL keys / stores / closures / argument vectors / states
(props/SrcCollections.v), so the C12 theorems about the model are about what the source says now.

What comes from the SOURCE (re-read on every run)
  mutate_*:  the take-out (`state.remove(&key)`), the `match` on the kind of the value with EVERY arm the source has (the
             collection arm: call the closure on the taken-out collection, re-insert what the closure left, return the
             closure's result; each of the twelve other arms: what is re-inserted under which key and which error is
             returned; the None arm), in the order the source has them.
  commands:  the argument-count tests (operator and bound), which argument every operation reads (every
             `context.arguments[i]` is an access that PANICS when the vector is too short: `match nth_error args i with None =>
             Panic | ..`, `&context.arguments[1..]` is `if 1 <=? length args then .. else Panic`; the equality proofs show
             these arms dead), the parse of the index and its error arm, which helper is called on which key, the whole body
             of the closure (every Vec / HashMap / HashSet operation, in order, on the value behind the closure's `&mut`
             parameter; `list[index]`, `list[index] = v`, `list.remove(index)` with an explicit panic arm — a closure that
             panics is `None`), get_optional_as_string / get_as_string of state.rs INLINED from their source, the final
             `match result { Ok(..) => Continue(..), Err(..) => Error(..) }`, the lookups `state.get(key)` and the `match` on
             the kind of the value found, which result constructor each path ends in and (through the table below) which
             error kind it carries; remove_handle of state.rs INLINED from its source (release).

What comes from the CONFIGURATION below
  * the types: Context.state["handles"] is the model's handle table `hs s` (get_handles_sub_state(context.state) is a
    reference to it; the creation of the sub state on first use is not modelled), StateValue as a value of the handle
    table is `hval` (List -> HList, SubState -> HMap, Set -> HSet, the ten other arms -> HOther tag, told apart by
    Rs2vCollLib.other_arm; re-building the SAME arm around the SAME payload is the same HOther tag), StateValue as a list
    item / map value is `elem` (String -> EStr, Number64Bit -> ENum: the only two kinds the commands create), String = str,
    usize = N, i64 = Z, Vec<StateValue> = list elem, HashMap<String, StateValue> = gmap str elem, HashSet<String> = gset str;
  * put_handle(context.state, v) is the model's put_handle: the key is `rnd (draws s)` (the random 20 alphanumerics are the
    oracle rnd applied to the number of keys drawn so far), the value is inserted under it, the counter goes up;
  * the iteration order of a HashMap / HashSet (`for k in map.keys()`, `for v in set`) is the model's oracle
    `ord (draws s) <canonical list>`;
  * the std mapping: Vec::len / push / pop / remove / clear and v[i] / v[i] = e -> length / ++ [x] / Collections.vec_pop /
    vec_remove / [] / nth_error / vec_set (None = the index-out-of-bounds panic); HashMap::insert / remove / get / clear / len /
    keys -> <[k := v]> / lookup-then-delete (a remove of an absent key leaves the map as it is) / !! / empty / size / the
    key list; HashSet::insert / remove / contains / clear / len -> union with the singleton / difference (the returned bool is
    membership before) / membership / empty / size; str::parse::<usize> / <i64> -> Collections.parse_usize / parse_i64;
    usize / i64 / bool to_string -> dec_N / dec_Z / bool_str; (a..b) on i64 -> seqZ a (b - a); == on String -> Collections.str_eqb;
    `+` / `-` on usize -> Rs2vCollLib.usize_add / usize_sub (checked, 64 bits: None is the overflow panic arm);
  * the erasure of error TEXTS to the model's `ekind`: classify() is the table of harness/src/bin/c12.rs::err_kind (a
    message is classified by its static prefix / suffix; a message the table does not decide is "not understood");
  * the outcome wrappers: a command result r in state h is `Done (r, MS <handle table> <draws> (stale s))` (`s` itself when
    nothing was written), a panic is `Panic`; a closure returning r and leaving c behind is `Some (r, c)`, a panicking
    closure `None`; the result of a mutate_* call is matched as `Done (r, st') | Panic | Fuel`.

`release`: its `run` is translated (the argument tests, the `-r` / `--recursive` flag, which argument is the key, the plain
branch with remove_handle of state.rs inlined, the result text), but its callee remove_handle_recursive is NOT: the call
is the model's `release_recursive (hs s) key` (a recursion over hash-ordered iterations in the source; the model runs it on
fuel over the canonical order and C12_release proves what it removes) - that function stays tied by the correspondence run
only.

Each function has its own flag; a command that calls a mutate_* helper which is not understood is not understood either;
anything not understood (every exception) -> flag false and a type-correct stub."""
import os
import sys

sys.path.insert(0, os.path.dirname(os.path.dirname(os.path.abspath(__file__))))
import rs2v  # noqa: E402
from rs2v import Rs2vError, CollV  # noqa: E402

STATE_RS = "duckscript_sdk/src/utils/state.rs"
STD = "duckscript_sdk/src/sdk/std/"
HEAD = ("From stdpp Require Import gmap list.\nFrom Coq Require Import NArith ZArith.\n"
        "Require Import DS.Collections DS.Rs2vCollLib.\n")

# (command, source file)
COMMANDS = [
    ("array", "collections/array/mod.rs"), ("range", "collections/range/mod.rs"),
    ("array_push", "collections/array_push/mod.rs"), ("array_pop", "collections/array_pop/mod.rs"),
    ("array_get", "collections/array_get/mod.rs"), ("array_set", "collections/array_set/mod.rs"),
    ("array_remove", "collections/array_remove/mod.rs"), ("array_clear", "collections/array_clear/mod.rs"),
    ("array_length", "collections/array_length/mod.rs"),
    ("map", "collections/map/mod.rs"), ("map_put", "collections/map_put/mod.rs"), ("map_get", "collections/map_get/mod.rs"),
    ("map_remove", "collections/map_remove/mod.rs"), ("map_size", "collections/map_size/mod.rs"),
    ("map_keys", "collections/map_keys/mod.rs"), ("map_clear", "collections/map_clear/mod.rs"),
    ("set_new", "collections/set/mod.rs"), ("set_put", "collections/set_put/mod.rs"),
    ("set_remove", "collections/set_remove/mod.rs"), ("set_contains", "collections/set_contains/mod.rs"),
    ("set_size", "collections/set_size/mod.rs"), ("set_clear", "collections/set_clear/mod.rs"),
    ("set_to_array", "collections/set_to_array/mod.rs"),
    ("is_array", "collections/is_array/mod.rs"), ("is_map", "collections/is_map/mod.rs"), ("is_set", "collections/is_set/mod.rs"),
    ("release", "release/mod.rs"),
]
MUTATE = [("list", "Vec<StateValue>", ("list", "elem")), ("map", "HashMap<String,StateValue>", ("map",)),
          ("set", "HashSet<String>", ("set",))]
OTHER = ["Boolean", "Number", "UnsignedNumber", "Number32Bit", "UnsignedNumber32Bit", "Number64Bit", "UnsignedNumber64Bit",
         "String", "ByteArray", "Any"]
RES = ("res", ("opt", "str"), "err")
COQ_TYPES = {"str": "str", "bool": "bool", "usize": "N", "i64": "Z", "nat": "nat", "elem": "elem", "hval": "hval",
             ("list", "elem"): "list elem", ("list", "str"): "list str", ("map",): "gmap str elem", ("set",): "gset str",
             "store": "store"}
ENUMS = {
    "hval": [("HList %s", [("List", ("list", "elem"), None)], None),
             ("HMap %s", [("SubState", ("map",), None)], None),
             ("HSet %s", [("Set", ("set",), None)], None),
             ("HOther %s", [(c, None, "O" + c) for c in OTHER], "other_arm %s")],
    "elem": [("EStr %s", [("String", "str", None)], None), ("ENum %s", [("Number64Bit", "i64", None)], None)],
}
ENCODINGS = {"option": ("Some %s", "None", None), "res": ("ROk %s", "RErr %s", "err")}


def need(cond, what):
    if not cond:
        raise Rs2vError(what)


def tag(ty):
    return ty[0] if isinstance(ty, tuple) else ty


def types(text):
    t = text.replace(" ", "")
    if t in ("usize", "i64", "bool"):
        return t
    if t in ("String", "&str", "&String", "str"):
        return "str"
    if t.startswith("Option<") and t.endswith(">"):
        inner = types(t[7:-1])
        return None if inner is None else ("opt", inner)
    if t.startswith("Result<") and t.endswith(",String>"):
        inner = types(t[7:-8])
        return None if inner is None else ("res", inner, "err")
    if t == "CommandResult":
        return "cmdresult"
    return None


def coq_type(ty):
    if ty in COQ_TYPES:
        return COQ_TYPES[ty]
    raise Rs2vError("no Coq type for %r" % (ty,))


# ---- error texts -> ekind (harness/src/bin/c12.rs::err_kind) -------------------------------------------------------------
def classify(pre, suf, exact):
    """pre / suf: the static prefix / suffix of the message; exact: the message is exactly pre (a literal)"""
    def sw(p):
        if pre.startswith(p):
            return True
        if not exact and p.startswith(pre):
            raise Rs2vError("error text %r..: its class depends on a run-time value" % pre)
        return False

    def ew(p):
        if suf.endswith(p):
            return True
        if not exact and p.endswith(suf):
            raise Rs2vError("error text ..%r: its class depends on a run-time value" % suf)
        return False
    # rules on the static PREFIX first (a run-time value in the middle of the message cannot change them) ...
    if sw("Invalid arguments provided, range start"):
        return "ERange"
    if sw("Array handle or item index not provided") or sw("Invalid input provided") or sw("Key not provided") \
            or sw("Key/Value not provided") or sw("Value not provided") or sw("Invalid arguments provided."):
        return "EArgs"
    if sw("Non numeric value"):
        return "ENonNum"
    if sw("Invalid handle provided"):
        return "EKind"
    if (sw("Handle: ") or sw("Array for handle: ") or sw("Map for handle: ") or sw("Set for handle: ")) and ew("not found."):
        return "ENotFound"
    if sw("Index: "):
        return "EIndex"
    if sw("Invalid input, non array handle or array not found"):
        return "ETrigger"
    # ... then the one rule on the suffix, for literal messages only
    if exact and ew("handle not provided."):
        return "EArgs"
    raise Rs2vError("error text %r is not in the table of message classes" % (pre if exact else pre + "{}" + suf))


def err_term(v):
    if v.ty == "err":
        need(v.has_term, "error value without a term")
        return v.term
    if v.ty == "str" and v.known == "lit":
        return classify(v.lit, v.lit, True)
    if v.ty == "msg":
        return classify(v.lit, v.suf, False)
    raise Rs2vError("error message that is not a literal / format! text / the error of a callee (%r)" % (v.ty,))


def opt_str_term(o):
    need(tag(o.ty) == "opt", "Option<String> expected, found %r" % (o.ty,))
    if o.known is not None:
        if o.known[0] == "None":
            return "None"
        s = o.known[1]
        need(s.ty == "str" and s.has_term, "Some(value of type %r) where Some(String) is expected" % (s.ty,))
        return "(Some %s)" % s.term
    need(o.ty[1] == "str" and o.has_term and (o.enc or "option") == "option", "Option of %r" % (o.ty[1],))
    return o.term


def res_term(v):
    need(tag(v.ty) == "res", "Result expected, found %r" % (v.ty,))
    if v.known is None:
        need(v.enc == "res" and v.has_term, "a Result of another shape than Result<Option<String>, String>")
        return v.term
    if v.known[0] == "Ok":
        return "ROk %s" % opt_str_term(v.known[1])
    return "RErr %s" % err_term(v.known[1])


# ---- StateValue ----------------------------------------------------------------------------------------------------------
def as_elem(v):
    if v.ty == "elem":
        need(v.has_term, "list item without a term")
        return v.term
    need(v.ty == "sv", "StateValue expected, found %r" % (v.ty,))
    c, p = v.known
    if c == "String" and p.ty == "str":
        return "(EStr %s)" % p.term
    if c == "Number64Bit" and p.ty == "i64":
        return "(ENum %s)" % p.term
    raise Rs2vError("StateValue::%s as a list item / map value: the model has String and Number64Bit items only" % c)


def as_hval(v):
    if v.ty == "hval":
        need(v.has_term, "handle value without a term")
        return v.term
    need(v.ty == "sv", "StateValue expected, found %r" % (v.ty,))
    c, p = v.known
    if c == "List" and tag(p.ty) == "list" and p.ty[1] in ("elem", None):
        return "(HList %s)" % p.term
    if c == "SubState" and p.ty == ("map",):
        return "(HMap %s)" % p.term
    if c == "Set" and p.ty == ("set",):
        return "(HSet %s)" % p.term
    if c in OTHER and p.ty == ("payload", c) and p.items[0] == "hval":
        return "(HOther %s)" % p.items[1]        # the same arm around the same payload
    raise Rs2vError("StateValue::%s(%r) as a value of the handle table" % (c, p.ty))


def c_sv(name):
    def c(fn, vs, expect):
        need(len(vs) == 1, "StateValue::%s with %d arguments" % (name, len(vs)))
        return CollV("sv", None, known=(name, vs[0]))
    return c


def c_continue(fn, vs, expect):
    need(len(vs) == 1, "Continue with %d arguments" % len(vs))
    return CollV("cmdresult", "Cont %s" % opt_str_term(vs[0]))


def c_error(fn, vs, expect):
    need(len(vs) == 1, "Error with %d arguments" % len(vs))
    return CollV("cmdresult", "Error %s" % err_term(vs[0]))


def c_new(ty, term):
    def c(fn, vs, expect):
        need(not vs, "new with arguments")
        return CollV(ty, term)
    return c


CTORS = {"CommandResult::Continue": c_continue, "CommandResult::Error": c_error,
         "HashMap::new": c_new(("map",), "(empty : gmap str elem)"), "HashSet::new": c_new(("set",), "(empty : gset str)")}
for _c in ["List", "SubState", "Set"] + OTHER:
    CTORS["StateValue::" + _c] = c_sv(_c)


# ---- paths with effects --------------------------------------------------------------------------------------------------
def p_get_handles_sub_state(fn, vs, h, k, ctx, expect):
    need(len(vs) == 1 and fn.deref(vs[0], h).ty == "rootstate", "get_handles_sub_state of something else than context.state")
    return k(CollV(("ref", "HS")), h)


def p_put_handle(fn, vs, h, k, ctx, expect):
    need(len(vs) == 2 and vs[0].ty == "rootstate", "put_handle on something else than context.state")
    key = "(rnd %s)" % h["DRAWS"].term
    h2 = fn.write(h, "HS", CollV("store", "(<[%s := %s]> %s)" % (key, as_hval(fn.deref(vs[1], h)), h["HS"].term)))
    h2 = fn.write(h2, "DRAWS", CollV("nat", "(S %s)" % h["DRAWS"].term))
    return k(CollV("str", key), h2)


def finish_closure(fn, v, new):
    return "Some (%s, %s)" % (res_term(v), new.term)


def p_mutate(kind, cty):
    def f(fn, vs, h, k, ctx, expect):
        need(len(vs) == 3, "mutate_%s with %d arguments" % (kind, len(vs)))
        key, st, clo = fn.deref(vs[0], h), vs[1], vs[2]
        need(key.ty == "str" and fn.is_ref(st) and fn.deref(st, h).ty == "store" and clo.ty == "closure",
             "mutate_%s(key, handle table, closure) expected" % kind)
        need(kind in fn.cfg["callees"], "mutate_%s, which is not understood itself" % kind)
        fuel = ctx.get("fuel")
        need(fuel is not None, "mutate_%s called inside a closure" % kind)
        c = st.ty[1]
        while fn.is_ref(h[c]):
            c = h[c].ty[1]
        fun = fn.closure_fun(clo, cty, h, finish_closure, "None", RES)
        r, st2 = fn.fresh("result"), fn.fresh("st")
        body = k(CollV(RES, r, enc="res"), fn.write(h, c, CollV("store", st2)))
        return fn.matchn("gen_mutate_%s %s %s\n%s" % (kind, key.term, h[c].term, rs2v.cmd_indent(fun, 4)),
                         [("Done (%s, %s)" % (r, st2), body), ("Panic", ctx["panic"]), ("Fuel", fuel)])
    return f


def p_remove_handle_recursive(fn, vs, h, k, ctx, expect):
    """remove_handle_recursive(context.state, key) is NOT translated: it is the model's release_recursive (rel_rec on fuel)"""
    need(len(vs) == 2 and vs[0].ty == "rootstate", "remove_handle_recursive on something else than context.state")
    key = fn.deref(vs[1], h)
    need(key.ty == "str", "remove_handle_recursive of a key of type %r" % (key.ty,))
    fuel = ctx.get("fuel")
    need(fuel is not None, "remove_handle_recursive called inside a closure")
    r, st2 = fn.fresh("removed"), fn.fresh("st")
    body = k(CollV("bool", r), fn.write(h, "HS", CollV("store", st2)))
    return fn.matchn("release_recursive %s %s" % (h["HS"].term, key.term),
                     [("Done (%s, %s)" % (r, st2), body), ("Panic", ctx["panic"]), ("Fuel", fuel)])


PATHS = {"get_handles_sub_state": p_get_handles_sub_state, "put_handle": p_put_handle,
         "remove_handle_recursive": p_remove_handle_recursive}
for _k, _t, _c in MUTATE:
    PATHS["mutate_" + _k] = p_mutate(_k, _c)


def call_fn(fn, f, vs, h, k, ctx):
    """a call of the closure-typed parameter: handler(&mut c)"""
    need(len(vs) == 1 and fn.is_ref(vs[0]), "call of the handler with something else than one &mut argument")
    c = vs[0].ty[1]
    cur = fn.deref(vs[0], h)
    need(cur.ty == f.ty[1] or (tag(cur.ty) == "list" and tag(f.ty[1]) == "list"), "handler called on a %r" % (cur.ty,))
    r, new = fn.fresh("result"), fn.fresh("new")
    body = k(CollV(RES, r, enc="res"), fn.write(h, c, CollV(f.ty[1], new)))
    return fn.match2("%s %s" % (f.term, cur.term), "Some (%s, %s)" % (r, new), body, "None", ctx["panic"])


# ---- methods -------------------------------------------------------------------------------------------------------------
def pure(ty, fmt, n=0, argty=None):
    def m(fn, r, c, vs, h, k, ctx, tf, expect):
        need(len(vs) == n, "method called with %d arguments" % len(vs))
        need(all(v.ty == argty for v in vs), "method called with %r" % ([v.ty for v in vs],))
        return k(CollV(ty, fmt % ((r.term,) + tuple(v.term for v in vs))), h)
    return m


def m_parse(fn, r, c, vs, h, k, ctx, tf, expect):
    need(not vs, "parse with arguments")
    t = types(tf) if tf is not None else (expect[1] if isinstance(expect, tuple) and expect[0] == "wrap" else None)
    need(t in ("usize", "i64"), "parse::<%r>" % (t,))
    return k(CollV(("res", t, "parseerr"), "(parse_%s %s)" % (t, r.term), enc="option"), h)


def mutating(fn_new, value=None):
    """a method that replaces its receiver: fn_new(r, vs) -> (ty, term); its own value is `value(r, vs)` or unit"""
    def m(fn, r, c, vs, h, k, ctx, tf, expect):
        need(c is not None, "mutation of a temporary")
        ty, term = fn_new(r, vs)
        v = value(r, vs) if value is not None else CollV("unit")
        return k(v, fn.write(h, c, CollV(ty, term)))
    return m


def one(vs, ty=None):
    need(len(vs) == 1 and (ty is None or vs[0].ty == ty), "method called with %r" % ([v.ty for v in vs],))
    return vs[0]


def m_list_pop(fn, r, c, vs, h, k, ctx, tf, expect):
    need(c is not None and not vs, "pop")
    item, new = fn.fresh("item"), fn.fresh("rest")
    body = k(CollV(("opt", "elem"), item, enc="option"), fn.write(h, c, CollV(("list", "elem"), new)))
    return fn.matchn("vec_pop %s" % r.term, [("(%s, %s)" % (item, new), body)])


def m_list_remove(fn, r, c, vs, h, k, ctx, tf, expect):
    need(c is not None, "remove on a temporary")
    i = fn.literal(one(vs), "usize")
    need(i.ty == "usize", "Vec::remove of an index of type %r" % (i.ty,))
    new = fn.fresh("rest")
    # the removed element: inside the Some arm the index is in range, so this is the element that was there
    removed = CollV("elem", "(default (EStr []) (nth_error %s (N.to_nat %s)))" % (r.term, i.term))
    body = k(removed, fn.write(h, c, CollV(("list", "elem"), new)))
    return fn.match2("vec_remove %s (N.to_nat %s)" % (r.term, i.term), "Some %s" % new, body, "None", ctx["panic"])


def lookup_remove(val_ty, coll_ty):
    """HashMap::remove(&k): the value found is taken out; an absent key leaves the map as it is"""
    def m(fn, r, c, vs, h, k, ctx, tf, expect):
        need(c is not None, "remove on a temporary")
        key = one(vs, "str")
        x = fn.fresh("found")
        some = k(CollV(("opt", val_ty), None, known=("Some", CollV(val_ty, x))),
                 fn.write(h, c, CollV(coll_ty, "(delete %s %s)" % (key.term, r.term))))
        none = k(CollV(("opt", val_ty), "None", known=("None",)), h)
        return fn.match2("%s !! %s" % (r.term, key.term), "Some %s" % x, some, "None", none)
    return m


def m_store_get(fn, r, c, vs, h, k, ctx, tf, expect):
    key = one(vs, "str")
    return k(CollV(("opt", "hval"), "(%s !! %s)" % (r.term, key.term), enc="option"), h)


def m_map_get(fn, r, c, vs, h, k, ctx, tf, expect):
    key = one(vs, "str")
    return k(CollV(("opt", "elem"), "(%s !! %s)" % (r.term, key.term), enc="option"), h)


def m_identity(fn, r, c, vs, h, k, ctx, tf, expect):
    need(not vs, "arguments of a conversion")
    return k(r, h)


def m_args_iter(fn, r, c, vs, h, k, ctx, tf, expect):
    need(not vs, "iter with arguments")
    return k(CollV(("iter", "str"), r.term), h)


def m_skip(fn, r, c, vs, h, k, ctx, tf, expect):
    n = one(vs)
    need(n.ty == "intlit", "skip of something else than a literal")
    return k(CollV(r.ty, "(skipn %d %s)" % (n.items, r.term)), h)


def m_store_insert(fn, r, c, vs, h, k, ctx, tf, expect):
    need(c is not None and len(vs) == 2 and vs[0].ty == "str", "insert into the handle table")
    return k(CollV(("opt", "hval"), None), fn.write(h, c, CollV("store", "(<[%s := %s]> %s)" % (vs[0].term, as_hval(vs[1]), r.term))))


def m_map_insert(fn, r, c, vs, h, k, ctx, tf, expect):
    need(c is not None and len(vs) == 2 and vs[0].ty == "str", "insert into a map")
    return k(CollV(("opt", "elem"), None), fn.write(h, c, CollV(("map",), "(<[%s := %s]> %s)" % (vs[0].term, as_elem(vs[1]), r.term))))


def m_bool_to_string(fn, r, c, vs, h, k, ctx, tf, expect):
    need(not vs, "to_string with arguments")
    if isinstance(r.known, bool):
        return k(CollV("str", "s_true" if r.known else "s_false"), h)
    return k(CollV("str", "(bool_str %s)" % r.term), h)


def m_keys(fn, r, c, vs, h, k, ctx, tf, expect):
    need(not vs, "keys with arguments")
    return k(CollV(("keys",), r.term), h)


def m_map_closure(fn, r, c, vs, h, k, ctx, tf, expect):
    """(a..b).map(|x| E) on i64"""
    need(len(vs) == 1 and vs[0].ty == "closure" and r.ty == ("range", "i64"), "map of a closure over something else than an i64 range")
    names, body, cenv = vs[0].items
    need(len(names) == 1, "closure of %d parameters" % len(names))
    x = fn.fresh(names[0])
    env2, h2 = fn.bind(cenv, h, names[0], CollV("i64", x))
    v, h3 = fn.straight(body, env2, h2, ctx, block=True)
    need(all(h3[cc] is h[cc] for cc in h), "closure that mutates a captured variable")
    a, b = r.items
    return k(CollV(("iter", "elem"), "(map (fun %s : Z => %s) (seqZ %s (%s - %s)%%Z))" % (x, as_elem(fn.deref(v, h3)), a.term, b.term, a.term)), h)


def m_collect(fn, r, c, vs, h, k, ctx, tf, expect):
    need(not vs, "collect with arguments")
    return k(CollV(("list", r.ty[1]), r.term), h)


METHODS = {
    ("args", "len"): pure("nat", "(length %s)"), ("args", "is_empty"): pure("bool", "(Nat.eqb (length %s) 0%%nat)"),
    ("str", "parse"): m_parse,
    ("usize", "to_string"): pure("str", "(dec_N %s)"), ("i64", "to_string"): pure("str", "(dec_Z %s)"),
    ("bool", "to_string"): m_bool_to_string,
    ("list", "len"): pure("usize", "(N.of_nat (length %s))"),
    ("list", "push"): mutating(lambda r, vs: (("list", "elem"), "(%s ++ [%s])" % (r.term, as_elem(one(vs))))),
    ("list", "pop"): m_list_pop, ("list", "remove"): m_list_remove,
    ("list", "clear"): mutating(lambda r, vs: (("list", "elem"), "[]")),
    ("map", "len"): pure("usize", "(N.of_nat (size %s))"), ("map", "insert"): m_map_insert,
    ("map", "remove"): lookup_remove("elem", ("map",)), ("map", "keys"): m_keys,
    ("map", "clear"): mutating(lambda r, vs: (("map",), "(empty : gmap str elem)")),
    ("set", "len"): pure("usize", "(N.of_nat (size %s))"),
    ("set", "insert"): mutating(lambda r, vs: (("set",), "(union (singleton %s) %s)" % (one(vs, "str").term, r.term)),
                                lambda r, vs: CollV("bool", None)),
    ("set", "remove"): mutating(lambda r, vs: (("set",), "(difference %s (singleton %s))" % (r.term, one(vs, "str").term)),
                                lambda r, vs: CollV("bool", "(bool_decide (elem_of %s %s))" % (vs[0].term, r.term))),
    ("set", "contains"): pure("bool", "(bool_decide (elem_of %s %s))", 1, "str"),
    ("set", "clear"): mutating(lambda r, vs: (("set",), "(empty : gset str)")),
    ("store", "remove"): lookup_remove("hval", "store"), ("store", "get"): m_store_get, ("store", "insert"): m_store_insert,
    ("range", "map"): m_map_closure, ("iter", "collect"): m_collect,
    ("map", "get"): m_map_get, ("opt", "cloned"): m_identity,
    ("args", "iter"): m_args_iter, ("list", "iter"): m_identity, ("iter", "skip"): m_skip, ("iter", "iter"): m_identity,
    ("list", "is_empty"): pure("bool", "(Nat.eqb (length %s) 0%%nat)"),
    ("map", "is_empty"): pure("bool", "(Nat.eqb (size %s) 0%%nat)"), ("set", "is_empty"): pure("bool", "(Nat.eqb (size %s) 0%%nat)"),
}
# `set.contains(&v)`: elem_of v set  (pure() puts the receiver first)
METHODS[("set", "contains")] = lambda fn, r, c, vs, h, k, ctx, tf, expect: k(
    CollV("bool", "(bool_decide (elem_of %s %s))" % (one(vs, "str").term, r.term)), h)


# ---- indexing, iteration, macros -----------------------------------------------------------------------------------------
def index(fn, base, ix, env, h, k, ctx):
    if base.ty == "args":
        if ix[0] == "num":
            i = ix[1]
            if i in fn.argcache:
                return k(CollV("str", fn.argcache[i]), h)
            x = fn.fresh("a%d" % i)
            saved = fn.argcache
            fn.argcache = dict(saved)
            fn.argcache[i] = x
            try:
                body = k(CollV("str", x), h)
            finally:
                fn.argcache = saved
            return fn.match2("nth_error %s %d" % (base.term, i), "None", ctx["panic"], "Some %s" % x, body)
        if ix[0] == "rangefrom" and ix[1][0] == "num":
            n = ix[1][1]
            return fn.ite("Nat.leb %d (length %s)" % (n, base.term), k(CollV(("list", "str"), "(skipn %d %s)" % (n, base.term)), h),
                          ctx["panic"])
        raise Rs2vError("indexing the argument vector with something else than a literal / `n..`")
    if base.ty == ("list", "elem"):
        def k_i(i, h1):
            i = fn.deref(i, h1)
            need(i.ty == "usize", "list index of type %r" % (i.ty,))
            x = fn.fresh("item")
            return fn.match2("nth_error %s (N.to_nat %s)" % (base.term, i.term), "Some %s" % x, k(CollV("elem", x), h1),
                             "None", ctx["panic"])
        return fn.ex(ix, env, h, k_i, ctx, "usize")
    raise Rs2vError("indexing a value of type %r" % (base.ty,))


def index_assign(fn, base, c, ix, v, h, k, ctx):
    ix, v = fn.deref(ix, h), fn.deref(v, h)
    need(base.ty == ("list", "elem") and ix.ty == "usize", "assignment to an element of a %r" % (base.ty,))
    new = fn.fresh("rest")
    body = k(CollV("unit"), fn.write(h, c, CollV(("list", "elem"), new)))
    return fn.match2("vec_set %s (N.to_nat %s) %s" % (base.term, ix.term, as_elem(v)), "Some %s" % new, body, "None", ctx["panic"])


def iter_of(fn, v, h):
    if v.ty == "args":
        return CollV(("iter", "str"), v.term)
    if tag(v.ty) in ("list", "iter") and v.ty[1] is not None:
        return CollV(("iter", v.ty[1]), v.term)
    if v.ty == ("keys",):
        return CollV(("iter", "str"), "(ord %s (map_to_list %s).*1)" % (h["DRAWS"].term, v.term))
    if v.ty == ("set",):
        return CollV(("iter", "str"), "(ord %s (elements %s))" % (h["DRAWS"].term, v.term))
    raise Rs2vError("for over a value of type %r" % (v.ty,))


def mac_vec(fn, args, env, h, k, ctx, expect):
    need(not args, "vec! with elements")
    return k(CollV(("list", "elem"), "[]"), h)


def mac_format(fn, args, env, h, k, ctx, expect):
    need(args and args[0][0] == "str", "format! without a literal")
    lit = args[0][1]

    def k_args(vs, h1):
        need(lit.count("{}") == len(vs) and lit.count("{") == len(vs) and vs, "format string %r" % lit)
        return k(CollV("msg", None, lit=lit.split("{")[0], suf=lit.split("}")[-1]), h1)
    return fn.seq(args[1:], env, h, k_args, ctx)


COMPARE = {
    "nat": {"<": "(Nat.ltb %s %s)", "<=": "(Nat.leb %s %s)", "==": "(Nat.eqb %s %s)"},
    "usize": {"<": "(N.ltb %s %s)", "<=": "(N.leb %s %s)", "==": "(N.eqb %s %s)"},
    "i64": {"<": "(Z.ltb %s %s)", "<=": "(Z.leb %s %s)", "==": "(Z.eqb %s %s)"},
    "str": {"==": "(Collections.str_eqb %s %s)"},
}
ARITH = {("usize", "+"): "usize_add", ("usize", "-"): "usize_sub"}
LITERAL = {"nat": "%d%%nat", "usize": "%d%%N", "i64": "(%d)%%Z"}


def base_cfg(helpers, callees):
    return {"fields": {}, "args_term": "args", "ctors": CTORS, "paths": PATHS, "methods": METHODS,
            "macros": {"vec": mac_vec, "format": mac_format}, "index": index, "index_assign": index_assign, "iter": iter_of,
            "enums": ENUMS, "compare": COMPARE, "arith": ARITH, "literal": LITERAL, "types": types, "helpers": helpers, "coq_type": coq_type,
            "encodings": ENCODINGS, "call_fn": call_fn, "callees": callees,
            "ident_types": ("str", "msg", "err", "elem", "hval", "sv")}


def read_helpers(state_src):
    """the value helpers of state.rs that are inlined where they are called"""
    helpers = {}
    for h in ("get_optional_as_string", "get_as_string", "remove_handle", "get_handle"):
        try:
            params, ret, gens, where, body = rs2v.parse_fn_coll(state_src, h)
            if not gens:
                helpers[h] = (params, ret, body)
        except Rs2vError:
            pass                          # a helper that is not understood is an unknown callee where it is called
    return helpers


# ---- the three mutate_* helpers ------------------------------------------------------------------------------------------
def mutate_sig(kind, cty):
    return ("(key : str) (st : store) (handler : %s -> option (res * %s)) : outcome (res * store)"
            % (coq_type(cty), coq_type(cty)))


def translate_mutate(state_src, kind, rust_ty, cty):
    params, ret, gens, where, body = rs2v.parse_fn_coll(state_src, "mutate_" + kind)
    need(len(params) == 3 and len(gens) == 1, "mutate_%s: unexpected parameters / generics" % kind)
    (kn, kt), (sn, st), (hn, ht) = params
    need(kt == "String" and st == "&mutHashMap<String,StateValue>" and ht == gens[0], "mutate_%s: unexpected parameter types" % kind)
    need(ret == "Result<Option<String>,String>", "mutate_%s: unexpected result type %s" % (kind, ret))
    want = "%s:FnMut(&mut%s)->Result<Option<String>,String>" % (gens[0], rust_ty)
    need(where is not None and where.rstrip(",") == want, "mutate_%s: the closure type is not %s" % (kind, want))
    fn = rs2v.FnColl(base_cfg({}, ()))
    ctx = {"ret": lambda v, h: "Done (%s, %s)" % (res_term(fn.deref(v, h)), h["ST"].term), "panic": "Panic", "fuel": "Fuel",
           "ret_type": RES}
    term = fn.function(body, {kn: CollV("str", "key"), sn: CollV(("ref", "ST")), hn: CollV(("fn", cty), "handler")},
                       {"ST": CollV("store", "st")}, ctx)
    return "Definition gen_mutate_%s %s :=\n%s.\n" % (kind, mutate_sig(kind, cty), rs2v.cmd_indent(term))


# ---- the commands --------------------------------------------------------------------------------------------------------
CMD_SIG = "(rnd : nat -> str) (ord : nat -> list str -> list str) (args : list str) (s : mstate) : outcome (cres * mstate)"


def translate_cmd(src, name, helpers, callees):
    receiver, params, body = rs2v.parse_run_coll(src)
    need(receiver == "ref" and len(params) == 1 and params[0][1] == "CommandInvocationContext", "run: unexpected parameters")
    ctx_name = params[0][0]
    cfg = base_cfg(helpers, callees)
    cfg["fields"] = {(ctx_name, "arguments"): CollV("args", "args"), (ctx_name, "state"): CollV("rootstate")}
    fn = rs2v.FnColl(cfg)

    def finish(v, h):
        v = fn.deref(v, h)
        need(v.ty == "cmdresult", "`run` ends with a value of type %r" % (v.ty,))
        hs, dr = h["HS"].term, h["DRAWS"].term
        st = "s" if (hs, dr) == ("(hs s)", "(draws s)") else "MS %s %s (stale s)" % (hs, dr)
        return "Done (%s, %s)" % (v.term, st)
    ctx = {"ret": finish, "panic": "Panic", "fuel": "Fuel", "ret_type": "cmdresult"}
    term = fn.function(body, {}, {"HS": CollV("store", "(hs s)"), "DRAWS": CollV("nat", "(draws s)")}, ctx)
    return "Definition gen_cmd_%s %s :=\n%s.\n" % (name, CMD_SIG, rs2v.cmd_indent(term))


def why_text(e):
    return ((type(e).__name__ + ": " if not isinstance(e, Rs2vError) else "") + str(e)).replace("*)", "* )").replace("(*", "( *")


def compiles(api, text):
    """does this candidate text of GenCollectionsFn.v compile (True also when that cannot be judged now)"""
    import subprocess
    import tempfile
    root = os.path.dirname(os.path.dirname(os.path.dirname(os.path.abspath(__file__))))
    coq, cache = os.path.join(root, "coq"), os.path.join(root, ".cache")
    try:
        with tempfile.TemporaryDirectory(dir=cache if os.path.isdir(cache) else None) as td:
            with open(os.path.join(td, "GenCollectionsFn.v"), "w") as f:
                f.write("Require Import DS.Base.\n" + text)
            p = subprocess.run(["coqc", "-q", "-Q", "theories", "DS", "-Q", td, "DSG", "-Q", "generated", "DSG", "-w",
                                "-notation-overridden,-deprecated-hint-without-locality,-deprecated-instance-without-locality",
                                os.path.join(td, "GenCollectionsFn.v")], cwd=coq, capture_output=True, text=True, timeout=300)
    except (OSError, subprocess.TimeoutExpired):
        return True
    if p.returncode == 0:
        return True
    err = (p.stderr or "") + (p.stdout or "")
    return any(w in err for w in ("Cannot find a physical path", "Unable to locate library", "Cannot load", "inconsistent assumptions",
                                  "Can't find file", "annot find library"))


def generate(api, force_stub=False):
    """force_stub=True: every function a stub (test of the tie proofs against the stubs); force_stub=<text>: the file written
    before does not type-check (lib/gen_from_source.py): the functions whose translation is ill-typed are found one by one
    and only they (and the commands that call an ill-typed helper) become stubs"""
    pieces, src_note = translate_all(api)
    if force_stub is True:
        pieces = [(n, kind, None, "stub requested", sig) for n, kind, _b, _w, sig in pieces]
    elif force_stub:
        why_bad = "the translation does not type-check (%s)" % str(force_stub)[:200]

        def ill_typed(fixed, items):
            """the items (by bisection) that do not compile next to the fixed ones"""
            if not items or compiles(api, assemble(fixed + items)):
                return []
            if len(items) == 1:
                return [items[0][0]]
            half = len(items) // 2
            return ill_typed(fixed, items[:half]) + ill_typed(fixed, items[half:])
        helpers = [p for p in pieces if p[1] == "mutate"]
        bad = set(ill_typed([], [p for p in helpers if p[2] is not None]))
        helpers = [(n, k, None if n in bad else b, why_bad if n in bad else w, sg) for n, k, b, w, sg in helpers]
        dead = ["gen_%s " % n for n, _k, b, _w, _sg in helpers if b is None]
        cmds = []
        for n, k, b, w, sg in pieces:
            if k == "cmd":
                if b is not None and any(d in b for d in dead):
                    b, w = None, "calls a mutate_* helper whose translation does not type-check"
                cmds.append((n, k, b, w, sg))
        bad = set(ill_typed(helpers, [p for p in cmds if p[2] is not None]))
        cmds = [(n, k, None if n in bad else b, why_bad if n in bad else w, sg) for n, k, b, w, sg in cmds]
        pieces = helpers + cmds
    api.emit("GenCollectionsFn.v", assemble(pieces), src_note)


def assemble(pieces):
    text = HEAD
    for n, kind, body, why, sig in pieces:
        flag = "gen_%s_understood" % n if kind == "mutate" else "gen_cmd_%s_understood" % n
        name = "gen_%s" % n if kind == "mutate" else "gen_cmd_%s" % n
        if body is not None:
            text += "Definition %s : bool := true.\n%s" % (flag, body)
        else:
            text += ("(* NOT UNDERSTOOD %s: %s *)\nDefinition %s : bool := false.\nDefinition %s %s := Fuel.\n"
                     % (n, why, flag, name, sig))
    return text + "Definition gen_collections_understood : bool := true.\n"


def translate_all(api):
    """[(name, "mutate" | "cmd", definition text or None, reason when None, Coq signature)], note on the sources"""
    pieces = []
    try:
        state_src = api.read(STATE_RS)
    except Exception as e:  # noqa: BLE001
        state_src = None
        state_why = why_text(e)
    callees = []
    for kind, rust_ty, cty in MUTATE:
        try:
            if state_src is None:
                raise Rs2vError(state_why)
            pieces.append(("mutate_" + kind, "mutate", translate_mutate(state_src, kind, rust_ty, cty), None, mutate_sig(kind, cty)))
            callees.append(kind)
        except Exception as e:  # noqa: BLE001  anything unexpected means: not understood (never a crash, never a guess)
            pieces.append(("mutate_" + kind, "mutate", None, why_text(e), mutate_sig(kind, cty)))
    helpers = read_helpers(state_src) if state_src is not None else {}
    rels = []
    for name, rel in COMMANDS:
        rels.append(rel)
        try:
            pieces.append((name, "cmd", translate_cmd(api.read(STD + rel), name, helpers, tuple(callees)), None, CMD_SIG))
        except Exception as e:  # noqa: BLE001
            pieces.append((name, "cmd", None, why_text(e), CMD_SIG))
    note = (STATE_RS + " (mutate_list / mutate_map / mutate_set; get_optional_as_string / get_as_string / remove_handle inlined) and "
            + STD + "{" + ", ".join(rels) + "} (fn run of impl Command for CommandImpl) by lib/rs2v.py")
    return pieces, note
