"""mapload_gen — TRANSLATE `run` of collections/map_load_properties/mod.rs and `mutate_map` of utils/state.rs into Gallina on
every run (lib/rs2v.py: grammar PColl, executor FnColl; lib/gen/codeccmds_gen.py's executor subclass FnCodec and its
configuration, which this generator EXTENDS without editing it) -> coq/generated/GenMaploadFn.v:

    gen_mutate_map_sv (key : str) (st : htable) (handler : pmap -> option (mres * pmap)) : mout     flag gen_mutate_map_sv_understood
    gen_cmd_map_load_properties (rnd : nat -> str) (args : list str) (s : cstate) : cres * cstate    flag gen_cmd_map_load_properties_understood

over the types of theories/CodecCmds.v (builder B32) and theories/CodecMapload.v (mres / mout, the command model).
theories/MaploadGenTie.v proves both equal to the hand models mutate_map_sv / cmd_map_load_properties_run for ALL inputs
(props/SrcMapload.v), which completes the command layer of C17's properties format.

What comes from the SOURCE (re-read on every run):
  * run: the argument-count test (operator and bound), the condition under which `--prefix` is recognised (its bound AND the
    compared literal), which `context.arguments[i]` each of prefix / key / text is read from (every such access is an explicit
    `(CPanic, s)` arm when the vector is too short; the tie shows the arms dead), that the reader runs BEFORE the handle is
    looked at (a rejected text leaves the table untouched), the key handed to mutate_map, the closure: the loop over the
    pairs read, the prefixing (`insert(0, '.')`, `insert_str(0, &prefix)` under `!prefix.is_empty()`), that the value is stored as
    StateValue::String under the prefixed key in the map GIVEN (HashMap::insert = CodecCmds.ht_insert), its result Ok(None);
    the `match` on mutate_map's result and what each arm answers (Continue(Some("true")) / Error(error)), the arm of the reader's
    error;
  * mutate_map: `state.remove(&key)`, the match on the kind of the value removed (one arm per arm of StateValue), that the
    handler is applied to the map of a SubState and the outcome stored back under the same key, that every other kind is stored
    back unchanged with Err("Invalid handle provided."), the error of a missing key.

What comes from the CONFIGURATION (here and in codeccmds_gen.py, see its header for the shared part: sval, htable, argument
vector, error-text erasure, outcome wrappers):
  * the CONFIGURED CALLEE `java_properties::read(text.as_bytes())` as a whole = CodecProps.pp_read (pp_decode_text text): the
    DecodeIter of the crate works on the UTF-8 bytes of the text, the model's pp_decode_text is stated on the text (tied to the
    crate by C17's correspondence run); Ok(map) = POk, Err(e) = PErr kind line (Display of the error erased to those two), PFuel is
    the third constructor of the model's result type (pp_read never yields it: CodecMaploadProof.pp_read_no_fuel);
  * the HashMap<String, String> read is the list of pairs in ITS iteration order (CodecProps.v's convention);
  * HashMap::remove on the handle table = the value ht_get finds + CodecCmds.ht_remove, HashMap::insert = ht_insert (on the table
    and on the map of the SubState), HashMap::clear on the map of a SubState = [] (not used by the current source);
  * the closure handed to mutate_map is a Coq function pmap -> option (mres * pmap) (None: the closure panicked - no closure
    here does); Result<Option<String>, String> is CodecMapload.mres (MOk o | MErr kind), mutate_map's outcome mout
    (MDone result table | MPanic);
  * two error texts added to the table of message classes: "Handle: {} not found." -> ce_notfound.

Each of the two has its own flag; anything not understood (every exception) -> flag false and a type-correct stub; when mutate_map
is not understood the command is not understood either (its translation calls gen_mutate_map_sv)."""
import os
import sys

sys.path.insert(0, os.path.dirname(os.path.dirname(os.path.abspath(__file__))))
sys.path.insert(0, os.path.dirname(os.path.abspath(__file__)))
import rs2v  # noqa: E402
from rs2v import Rs2vError, CollV  # noqa: E402
import codeccmds_gen as cc  # noqa: E402

STD = "duckscript_sdk/src/sdk/std/"
REL = "collections/map_load_properties/mod.rs"
STATE_RS = "duckscript_sdk/src/utils/state.rs"
HEAD = ("Require Import DS.Utf8 DS.Strings DS.Codec DS.CodecProps DS.Rs2vStrLib DS.CodecCmds DS.Rs2vCodecLib DS.CodecMapload.\n"
        "Local Open Scope bool_scope.\n")
CMD_SIG = cc.CMD_SIG
MUT_SIG = "(key : str) (st : htable) (handler : list (str * sval) -> option (mres * list (str * sval))) : mout"
RES = ("res", ("opt", "str"), "ekind")
ERR_TABLE = list(cc.ERR_TABLE) + [("Handle: ", " not found.", "ce_notfound")]
need, tag = cc.need, cc.tag


def types(text):
    t = text.replace(" ", "")
    if t == "Result<Option<String>,String>":
        return RES
    if t == "HashMap<String,StateValue>":
        return "pmap"
    return cc.types(text)


def coq_type(ty):
    if ty == RES:
        return "mres"
    return cc.coq_type(ty)


# ---- error texts -> kinds (codeccmds_gen.classify over the extended table) -------------------------------------------
def classify(pre, suf, exact):
    for p, sfx, kind in ERR_TABLE:
        if exact:
            if not sfx and pre == p:
                return kind
            if sfx and pre.startswith(p) and pre.endswith(sfx) and len(pre) >= len(p) + len(sfx):
                return kind
            continue
        if sfx and pre.startswith(p) and suf.endswith(sfx):
            return kind
        if (p.startswith(pre) and p != pre) or (not sfx and p.startswith(pre)):
            raise Rs2vError("error text %r{}%r: its class depends on a run-time value" % (pre, suf))
    raise Rs2vError("error text %r is not in the table of message classes" % (pre if exact else pre + "{}" + suf))


def kind_term(v):
    """the error KIND of a message (mutate_map's errors carry no line)"""
    if v.ty == "ekind":
        need(v.has_term, "error value without a term")
        return v.term
    if v.ty == "str" and v.known == "lit":
        return classify(v.lit, v.lit, True)
    if v.ty == "msg":
        return classify(v.lit, v.suf, False)
    raise Rs2vError("error message that is not a literal / format! text / an error of mutate_map (%r)" % (v.ty,))


def err_term(v):
    if v.ty in ("ekind", "msg") or (v.ty == "str" and v.known == "lit"):
        return "%s 0" % kind_term(v)
    return cc.err_term(v)


def c_error(fn, vs, expect):
    need(len(vs) == 1, "Error with %d arguments" % len(vs))
    return CollV("cmdresult", "CErr %s" % err_term(vs[0]))


def opt_str_term(o):
    need(tag(o.ty) == "opt", "Option<String> expected, found %r" % (o.ty,))
    if o.known is not None:
        if o.known[0] == "None":
            return "None"
        x = o.known[1]
        need(x.ty == "str" and x.has_term, "Some(value of type %r)" % (x.ty,))
        return "(Some %s)" % x.term
    need(o.has_term, "Option without a term")
    return o.term


def res_term(v):
    need(tag(v.ty) == "res", "Result<Option<String>, String> expected, found %r" % (v.ty,))
    if v.known is not None:
        if v.known[0] == "Ok":
            return "MOk %s" % opt_str_term(v.known[1])
        return "MErr %s" % kind_term(v.known[1])
    need(v.has_term, "Result without a term")
    return v.term


# ---- paths -----------------------------------------------------------------------------------------------------------
def p_read(fn, vs, h, k, ctx, expect):
    """java_properties::read(text.as_bytes()) = CodecProps.pp_read (pp_decode_text text)"""
    need(len(vs) == 1, "read with %d arguments" % len(vs))
    b = fn.deref(vs[0], h)
    need(b.ty == "bytes" and isinstance(b.items, tuple) and b.items[0] == "utf8_of",
         "java_properties::read of something else than the bytes of a text (text.as_bytes())")
    fuel = ctx.get("fuel")
    need(fuel is not None, "java_properties::read called inside a closure")
    data, kd, ln = fn.fresh("data"), fn.fresh("kind"), fn.fresh("line")
    ok = k(CollV(("res", "smap", "perr"), None, known=("Ok", CollV("smap", data))), h)
    bad = k(CollV(("res", "smap", "perr"), None, known=("Err", CollV("perr", "%s %s" % (kd, ln)))), h)
    return fn.matchn("pp_read (pp_decode_text %s)" % b.items[1],
                     [("POk %s" % data, ok), ("PErr %s %s" % (kd, ln), bad), ("PFuel", fuel)])


def finish_closure(fn, v, new):
    return "Some (%s, %s)" % (res_term(v), new.term)


def p_mutate_map(fn, vs, h, k, ctx, expect):
    need(len(vs) == 3, "mutate_map with %d arguments" % len(vs))
    key, st, clo = fn.deref(vs[0], h), vs[1], vs[2]
    need(key.ty == "str" and fn.is_ref(st) and fn.deref(st, h).ty == "store" and clo.ty == "closure",
         "mutate_map(key, handle table, closure) expected")
    need(fn.cfg.get("mutate_ok"), "mutate_map, which is not understood itself")
    need(ctx.get("fuel") is not None, "mutate_map called inside a closure")
    c = st.ty[1]
    while fn.is_ref(h[c]):
        c = h[c].ty[1]
    fun = fn.closure_fun(clo, "pmap", h, finish_closure, "None", RES)
    r, st2 = fn.fresh("result"), fn.fresh("st")
    body = k(CollV(RES, r, enc="res"), fn.write(h, c, CollV("store", st2)))
    return fn.matchn("gen_mutate_map_sv %s %s\n%s" % (key.term, h[c].term, rs2v.cmd_indent(fun, 4)),
                     [("MDone %s %s" % (r, st2), body), ("MPanic", ctx["panic"])])


def call_fn(fn, f, vs, h, k, ctx):
    """a call of the closure-typed parameter: handler(&mut map)"""
    need(len(vs) == 1 and fn.is_ref(vs[0]), "call of the handler with something else than one &mut argument")
    c = vs[0].ty[1]
    cur = fn.deref(vs[0], h)
    need(cur.ty == f.ty[1], "handler called on a %r" % (cur.ty,))
    r, new = fn.fresh("result"), fn.fresh("new")
    body = k(CollV(RES, r, enc="res"), fn.write(h, c, CollV(f.ty[1], new)))
    return fn.match2("%s %s" % (f.term, cur.term), "Some (%s, %s)" % (r, new), body, "None", ctx["panic"])


# ---- methods ---------------------------------------------------------------------------------------------------------
def m_as_bytes(fn, r, c, vs, h, k, ctx, tf, expect):
    need(not vs and r.has_term, "as_bytes with arguments")
    return k(CollV("bytes", "(utf8_encode %s)" % r.term, items=("utf8_of", r.term)), h)


def m_store_remove(fn, r, c, vs, h, k, ctx, tf, expect):
    """HashMap::remove(&key) on the handle table: the value found (ht_get) and the table without the entry (ht_remove)"""
    need(c is not None and len(vs) == 1 and vs[0].ty == "str", "remove on the handle table with %r" % ([v.ty for v in vs],))
    return k(CollV(("opt", "sval"), "(ht_get %s %s)" % (vs[0].term, r.term), enc="option"),
             fn.write(h, c, CollV("store", "(ht_remove %s %s)" % (vs[0].term, r.term))))


def new_sv_insert(ty):
    def f(fn, r, vs):
        need(len(vs) == 2 and vs[0].ty == "str", "insert into a HashMap<String, StateValue> of %r" % ([v.ty for v in vs],))
        return ty, "(ht_insert %s %s %s)" % (vs[0].term, cc.as_sval(vs[1]), r.term)
    return f


def new_pmap_clear(fn, r, vs):
    need(not vs, "clear with arguments")
    return "pmap", "[]"


def base_cfg(mutate_ok):
    cfg = cc.base_cfg()
    cfg["ctors"] = dict(cc.CTORS)
    cfg["ctors"]["CommandResult::Error"] = c_error
    cfg["paths"] = dict(cc.PATHS)
    cfg["paths"].update({"read": p_read, "mutate_map": p_mutate_map})
    cfg["methods"] = dict(cc.METHODS)
    cfg["methods"].update({("str", "as_bytes"): m_as_bytes, ("store", "remove"): m_store_remove,
                           ("store", "insert"): cc.mutating(new_sv_insert("store")),
                           ("pmap", "insert"): cc.mutating(new_sv_insert("pmap")),
                           ("pmap", "clear"): cc.mutating(new_pmap_clear)})
    cfg["types"], cfg["coq_type"], cfg["call_fn"] = types, coq_type, call_fn
    cfg["encodings"] = dict(cc.ENCODINGS)
    cfg["encodings"]["res"] = ("MOk %s", "MErr %s", "ekind")
    cfg["ident_types"] = tuple(cc.base_cfg()["ident_types"]) + ("ekind",)
    cfg["mutate_ok"] = mutate_ok
    return cfg


# ---- the two functions -----------------------------------------------------------------------------------------------
def translate_mutate(state_src):
    params, ret, gens, where, body = rs2v.parse_fn_coll(state_src, "mutate_map")
    need(len(params) == 3 and len(gens) == 1, "mutate_map: unexpected parameters / generics")
    (kn, kt), (sn, st), (hn, ht) = params
    need(kt == "String" and st == "&mutHashMap<String,StateValue>" and ht == gens[0], "mutate_map: unexpected parameter types")
    need(ret == "Result<Option<String>,String>", "mutate_map: unexpected result type %s" % ret)
    want = "%s:FnMut(&mutHashMap<String,StateValue>)->Result<Option<String>,String>" % gens[0]
    need(where is not None and where.rstrip(",") == want, "mutate_map: the closure type is not %s" % want)
    fn = cc.FnCodec(base_cfg(False))
    ctx = {"ret": lambda v, h: "MDone (%s) %s" % (res_term(fn.deref(v, h)), h["ST"].term), "panic": "MPanic", "ret_type": RES}
    term = fn.function(body, {kn: CollV("str", "key"), sn: CollV(("ref", "ST")), hn: CollV(("fn", "pmap"), "handler")},
                       {"ST": CollV("store", "st")}, ctx)
    return "Definition gen_mutate_map_sv %s :=\n%s.\n" % (MUT_SIG, rs2v.cmd_indent(term))


def translate_cmd(src):
    receiver, params, body = rs2v.parse_run_coll(src)
    need(receiver == "ref" and len(params) == 1 and params[0][1] == "CommandInvocationContext", "run: unexpected parameters")
    ctx_name = params[0][0]
    cfg = base_cfg(True)
    cfg["fields"] = {(ctx_name, "arguments"): CollV("args", "args"), (ctx_name, "state"): CollV("rootstate")}
    fn = cc.FnCodec(cfg)

    def finish(v, h):
        v = fn.deref(v, h)
        need(v.ty == "cmdresult", "`run` ends with a value of type %r" % (v.ty,))
        hs, dr = h["HS"].term, h["DRAWS"].term
        st = "s" if (hs, dr) == ("(handles s)", "(cdraws s)") else "CS %s %s" % (hs, dr)
        return "(%s, %s)" % (v.term, st)
    ctx = {"ret": finish, "panic": "(CPanic, s)", "fuel": "(CFuel, s)", "ret_type": "cmdresult"}
    term = fn.function(body, {}, {"HS": CollV("store", "(handles s)"), "DRAWS": CollV("nat", "(cdraws s)")}, ctx)
    return "Definition gen_cmd_map_load_properties %s :=\n%s.\n" % (CMD_SIG, rs2v.cmd_indent(term))


MUT_STUB = "Definition gen_mutate_map_sv %s := MPanic.\n" % MUT_SIG
CMD_STUB = "Definition gen_cmd_map_load_properties %s := (CFuel, s).\n" % CMD_SIG


def generate(api, force_stub=False):
    text = HEAD
    mutate_ok = False
    try:
        if force_stub:
            raise Rs2vError("stub requested" if force_stub is True else str(force_stub)[:300])
        body = translate_mutate(api.read(STATE_RS))
        text += "Definition gen_mutate_map_sv_understood : bool := true.\n" + body
        mutate_ok = True
    except Exception as e:  # noqa: BLE001  anything unexpected means: not understood (never a crash, never a guess)
        text += ("(* NOT UNDERSTOOD mutate_map_sv: %s *)\nDefinition gen_mutate_map_sv_understood : bool := false.\n%s"
                 % (cc.why_text(e), MUT_STUB))
    try:
        if force_stub:
            raise Rs2vError("stub requested" if force_stub is True else str(force_stub)[:300])
        need(mutate_ok, "mutate_map of utils/state.rs, which `run` calls, is not understood")
        body = translate_cmd(api.read(STD + REL))
        text += "Definition gen_cmd_map_load_properties_understood : bool := true.\n" + body
    except Exception as e:  # noqa: BLE001
        text += ("(* NOT UNDERSTOOD map_load_properties: %s *)\nDefinition gen_cmd_map_load_properties_understood : bool := false.\n%s"
                 % (cc.why_text(e), CMD_STUB))
    text += "Definition gen_mapload_understood : bool := true.\n"
    api.emit("GenMaploadFn.v", text, STD + REL + " (fn run of impl Command for CommandImpl), " + STATE_RS + " (fn mutate_map) by lib/rs2v.py")
