"""alias_gen — TRANSLATE the wrapper around script-implemented commands into Gallina on every run (lib/rs2v.py, class FnState)
-> coq/generated/GenAliasFn.v:

  duckscript_sdk/src/types/scope.rs    clear                                   gen_scope_clear : str -> vars -> vars
  duckscript_sdk/src/types/command.rs  impl Command for AliasCommand { run }   gen_alias_run   : (handles -> str) ->
        (vars -> handles -> (option wres * option str) * vars * handles) -> str -> nat -> list str -> vars -> handles ->
        wres * vars * handles

over the SAME types as the hand model theories/AliasCmd.v (vars = gmap str str: `context.variables`; handles = gset str:
the KEYS of the handle table inside `context.state`).  theories/AliasGenTie.v proves, for ALL arguments,
AliasCmd.keep = gen_scope_clear and AliasCmd.alias_run = gen_alias_run (props/SrcAlias.v), so the wrapper theorems of C19
(and C11's CClearScope) are about what the source says now.

What comes from the SOURCE (re-read on every run): the whole control structure of `run` — the argument-count test and
its operands, what start_count / end_count are taken from and when, the emptiness test, the argument loop (index
arithmetic, the key built by clone / push_str / to_string, the insertion into the variables, the array push), the
`::arguments` key and its insertion, the order of all of these, the call of eval_instructions and WHICH variables /
state it receives, the release of the handle, the call of clear and its arguments, the leak test (operator and
operands) and which result is returned on each path; for `clear`: the prefix construction and the retain predicate.

What comes from the CONFIGURATION below (the parts the hand model abstracts, exactly its Section variables / ghost parts):
  * `context.state` is modelled by the key set of its handle sub-state only: get_handles_sub_state(state) IS that set,
    `.remove(&k)` on it is set difference, remove_handle(state, k) likewise;
  * put_handle(state, StateValue::List(array)) = the Section variable `fresh` applied to the current key set, plus
    insertion of that name (the VALUE stored — the argument array — is not kept by the model: key set);
  * eval::eval_instructions(&self.instructions, context.commands, context.state, context.variables, context.env, 0)
    = the Section variable `body` applied to the current variables and key set (the handler checks that these are the
    actual arguments, in this order);
  * set_line_context_name(.., context.state) is a NO-OP on the modelled state: it only touches the
    "line_context_name" entry of the core sub-state.  This is checked on scope.rs on every run (`frame_check`): in
    get_line_context_name / set_line_context_name every use of `state` is as the argument of
    get_core_sub_state_for_runtime(state, CONTEXT_NAME_SUB_STATE_KEY..) or get_line_context_name(state);
  * `index.to_string()` on the usize index = AliasCmd.dec (decimal rendering), str::starts_with = ScriptConf.starts_with;
  * self.scope_name = P, self.arguments_amount = min_args, context.arguments = args;
  * the TEXT of the Error / Crash messages is erased (WError [] / WCrash []): the model compares result kinds only;
  * StateValue::String(x) is x (the argument array is a list of strings).

Each function has its own flag; anything not understood -> `gen_<fn>_understood := false` and a type-correct stub (and
gen_alias_run is not understood when clear is not: it calls it)."""
import os
import re
import sys

sys.path.insert(0, os.path.dirname(os.path.dirname(os.path.abspath(__file__))))
import rs2v  # noqa: E402
from rs2v import Ty, Rs2vError, T_opt, T_list, T_struct, POISON  # noqa: E402

REL_CMD = "duckscript_sdk/src/types/command.rs"
REL_SCOPE = "duckscript_sdk/src/types/scope.rs"

T_VARS, T_HANDLES, T_WRES, T_OPAQUE = "vars", "handles", "wres", "opaque"
T_LSTR, T_OSTR, T_OWRES = T_list(Ty.STR), T_opt(Ty.STR), T_opt("wres")

HEAD = ("Require Import DS.ScriptConf DS.AliasCmd.\nFrom stdpp Require Import gmap.\n"
        "Require Import DS.Rs2vMapLib DS.AliasGenLib.\nLocal Open Scope bool_scope.\n")

RUN_BINDERS = ("(fresh : handles -> str) (body : vars -> handles -> (option wres * option str) * vars * handles) "
               "(P : str) (min_args : nat) (args : list str) (v : vars) (h : handles)")
RUN_ARGS = "fresh body P min_args args v h"
RUN_TYPE = "wres * vars * handles"

STUB_CLEAR = "Definition gen_scope_clear (name : str) (variables : vars) : vars := variables.\n"
STUB_RUN = "Definition gen_alias_run %s : %s := (WGoto, v, h).\n" % (RUN_BINDERS, RUN_TYPE)

COMMON = {
    "maps": {T_VARS: {"key": Ty.STR, "val": Ty.STR}},
    "sets": {T_HANDLES: {"elem": Ty.STR, "add": "(hset_add %s %s)", "del": "(hset_remove %s %s)"}},
    "coq_types": {Ty.STR: "str", Ty.NUM_N: "N", Ty.NAT: "nat", T_LSTR: "list str", T_VARS: "vars", T_HANDLES: "handles",
                  T_OSTR: "option str", Ty.BOOL: "bool"},
    "num_to_string": {Ty.NUM_N: "(dec %s)"},
    "str_preds": {"starts_with": "(starts_with %(arg)s %(recv)s)", "ends_with": "(str_ends_with %(arg)s %(recv)s)",
                  "contains": "(str_contains %(arg)s %(recv)s)"},
}


def need(cond, what):
    if not cond:
        raise Rs2vError(what)


# ---- scope::clear -------------------------------------------------------------------------------------
def translate_clear(src):
    params, body = rs2v.parse_fn_state(src, "clear")
    need([p for p, _m in params] == ["name", "variables"] and [m for _p, m in params] == [False, True],
         "clear: parameters %r" % (params,))
    cfg = dict(COMMON)
    cfg.update({
        "coq_name": "gen_scope_clear", "fn_params": "(name : str) (variables : vars)", "fn_args": "name variables",
        "result_type": "vars", "locals": {},
        "params": {"name": (Ty.STR, "name"), "variables": (T_VARS, "variables")},
        "final_state": lambda fn, env: fn.plain(fn.get(env, "variables")[1], "variables"),
    })
    fn = rs2v.FnState(cfg)
    term = fn.function(params, body)
    need(not fn.loops, "clear: a loop")
    return "Definition gen_scope_clear (name : str) (variables : vars) : vars :=\n%s.\n" % term


# ---- AliasCommand::run --------------------------------------------------------------------------------
def is_place(fn, e, env, dotted):
    return fn.place(e, env) == dotted


def c_set_ctx_check(fn, args, env):
    need(len(args) == 2 and is_place(fn, args[1], env, "context.state"), "set_line_context_name: arguments")
    a0 = fn.strip(args[0])
    lv = fn.lvalue(a0)
    need(lv is not None and fn.has(env, lv) and fn.get(env, lv)[0] in (Ty.STR, T_OPAQUE), "set_line_context_name: name argument")


def c_set_ctx_bind(fn, args, env, name):
    c_set_ctx_check(fn, args, env)
    env2 = dict(env)
    env2[name] = (T_OPAQUE, POISON)          # the previous context name: not part of the modelled state
    return env2


def c_set_ctx_stmt(fn, args, env):
    c_set_ctx_check(fn, args, env)
    return env


def c_put_handle(fn, args, env, name):
    need(len(args) == 2 and is_place(fn, args[0], env, "context.state"), "put_handle: state argument")
    val = fn.strip(args[1])
    need(val[0] == "call" and val[1] == ("path", ["StateValue", "List"]) and len(val[2]) == 1
         and fn.type_of(val[2][0], env) == T_LSTR, "put_handle: the value is not StateValue::List(<the array>)")
    fn.ex(val[2][0], env)                    # must be available here; its contents are not kept (key set)
    t, cur = fn.get(env, "context.state")
    k = "(fresh %s)" % fn.plain(cur, "context.state")
    env2 = fn.set(env, "context.state", (t, "(hset_add %s %s)" % (k, cur)))
    env2[name] = (Ty.STR, k)
    return env2


def c_handles_alias(fn, args, env, name):
    need(len(args) == 1 and is_place(fn, args[0], env, "context.state"), "get_handles_sub_state: argument")
    env2 = dict(env)
    env2[name] = (("alias", "context.state"), None)
    return env2


def c_remove_handle(fn, args, env):
    need(len(args) == 2 and is_place(fn, args[0], env, "context.state") and fn.type_of(args[1], env) == Ty.STR,
         "remove_handle: arguments")
    t, cur = fn.get(env, "context.state")
    return fn.set(env, "context.state", (t, "(hset_remove %s %s)" % (fn.ex(args[1], env), fn.plain(cur, "context.state"))))


def c_eval(fn, args, env, names):
    need(len(args) == 6 and len(names) == 2, "eval_instructions: %d arguments" % len(args))
    need(fn.lvalue(fn.strip(args[0])) == "self.instructions", "eval_instructions: not self.instructions")
    need(fn.lvalue(fn.strip(args[1])) == "context.commands", "eval_instructions: not context.commands")
    need(is_place(fn, args[2], env, "context.state"), "eval_instructions: not context.state")
    need(is_place(fn, args[3], env, "context.variables"), "eval_instructions: not context.variables")
    need(fn.lvalue(fn.strip(args[4])) == "context.env", "eval_instructions: not context.env")
    need(args[5] == ("num", 0), "eval_instructions: start line is not 0")
    vt, vcur = fn.get(env, "context.variables")
    ht, hcur = fn.get(env, "context.state")
    fr, fo, v2, h2 = fn.newvar("fr"), fn.newvar("fo"), fn.newvar("v"), fn.newvar("h")
    env2 = fn.set(fn.set(env, "context.variables", (vt, v2)), "context.state", (ht, h2))
    for n, (t, var) in zip(names, ((T_OWRES, fr), (T_OSTR, fo))):
        if n != "_":
            env2[n] = (t, var)
    head = "match body %s %s with\n| (%s, %s, %s, %s) =>\n" % (
        fn.plain(vcur, "context.variables"), fn.plain(hcur, "context.state"), fr, fo, v2, h2)
    return (lambda rest: head + rest + "\nend"), env2


def c_clear(fn, args, env):
    need(len(args) == 2 and is_place(fn, args[1], env, "context.variables") and fn.type_of(args[0], env) == Ty.STR,
         "clear: arguments")
    t, cur = fn.get(env, "context.variables")
    return fn.set(env, "context.variables", (t, "(gen_scope_clear %s %s)" % (fn.ex(args[0], env), fn.plain(cur, "context.variables"))))


def wres_term(fn, e, env):
    while e[0] == "mcall" and e[2] in ("to_string", "clone") and not e[3] and fn.type_of(e[1], env) == T_WRES:
        e = e[1]
    if e[0] == "call" and e[1][0] == "path" and len(e[1][1]) == 2 and e[1][1][0] == "CommandResult" and len(e[2]) == 1:
        kind, a = e[1][1][1], e[2][0]
        if kind in ("Error", "Crash"):
            # the message text is erased; it must be a string expression (literal / format!) all the same
            b = a
            while b[0] == "mcall" and b[2] in ("to_string", "to_owned", "clone") and not b[3]:
                b = b[1]
            need(b[0] == "str" or (b[0] == "macro" and b[1] == "format"), "the %s message is not a literal / format!" % kind)
            return "(W%s [])" % kind
        if kind in ("Continue", "Exit"):
            need(fn.type_of(a, env) == T_OSTR, "CommandResult::%s of a %s" % (kind, fn.type_of(a, env)))
            return "(W%s %s)" % (kind, fn.ex(a, env))
    lv = fn.lvalue(e)
    if lv is not None and fn.has(env, lv) and fn.get(env, lv)[0] == T_WRES:
        return fn.ex(e, env)
    raise Rs2vError("result value %r" % (e,))


def run_result(fn, e, env, ctx):
    return "(%s, %s, %s)" % (wres_term(fn, e, env), fn.plain(fn.get(env, "context.variables")[1], "context.variables"),
                             fn.plain(fn.get(env, "context.state")[1], "context.state"))


def frame_check(scope_src):
    """set_line_context_name / get_line_context_name reach `state` only through the core sub-state entry of the line context name"""
    for f in ("get_line_context_name", "set_line_context_name"):
        params, _b = rs2v.parse_fn_state(scope_src, f)
        need("state" in [p for p, _m in params], "%s: no `state` parameter" % f)
        m = re.search(r"fn\s+%s\s*\(" % f, scope_src)
        body = rs2v.balanced_block(scope_src, scope_src.index("{", scope_src.index(")", m.end())))
        body = re.sub(r"//[^\n]*", "", body)
        uses = len(re.findall(r"\bstate\b", body))
        ok = len(re.findall(r"get_core_sub_state_for_runtime\(\s*state\s*,\s*CONTEXT_NAME_SUB_STATE_KEY\b", body)) + \
            len(re.findall(r"get_line_context_name\(\s*state\s*\)", body))
        need(uses == ok and uses > 0, "%s: `state` is used outside the line-context-name entry" % f)
    need(re.search(r'static\s+CONTEXT_NAME_SUB_STATE_KEY\s*:\s*&str\s*=\s*"line_context_name"\s*;', scope_src) is not None,
         "CONTEXT_NAME_SUB_STATE_KEY is not \"line_context_name\"")


def translate_run(src, scope_src):
    frame_check(scope_src)
    receiver, params, body = rs2v.parse_trait_method(src, "Command", "AliasCommand", "run")
    need(receiver == "ref" and [p for p, _m in params] == ["context"], "run: receiver %s, parameters %r" % (receiver, params))
    fields, _new = rs2v.read_struct(src.replace("pub(crate) struct", "pub struct"), "AliasCommand")
    need("scope_name" in fields and "arguments_amount" in fields and "instructions" in fields,
         "struct AliasCommand: fields %r" % (fields,))
    need(re.search(r"scope_name\s*:\s*String\s*,", src) and re.search(r"arguments_amount\s*:\s*usize\s*,", src),
         "struct AliasCommand: field types")
    cfg = dict(COMMON)
    cfg.update({
        "coq_name": "gen_alias_run", "fn_params": RUN_BINDERS, "fn_args": RUN_ARGS, "result_type": RUN_TYPE,
        "locals": {"handle_option": T_OSTR, "index": Ty.NUM_N, "array": T_LSTR},
        "self": (T_struct("AliasCommand"), {"scope_name": (Ty.STR, "P"), "arguments_amount": (Ty.NAT, "min_args"),
                                            "instructions": (T_OPAQUE, POISON)}),
        "params": {"context": (T_struct("CommandInvocationContext"), {
            "arguments": (T_LSTR, "args"), "variables": (T_VARS, "v"), "state": (T_HANDLES, "h"),
            "commands": (T_OPAQUE, POISON), "env": (T_OPAQUE, POISON)})},
        "structs": {},
        "loop": {"state": ["index", "array", "context.variables"]},
        "ctor_types": {"StateValue::String": Ty.STR},
        "ctor_handlers": {"StateValue::String": lambda fn, args, env: (Ty.STR, fn.ex(args[0], env))},
        "calls": {
            "set_line_context_name": {"bind": c_set_ctx_bind, "stmt": c_set_ctx_stmt},
            "put_handle": {"bind": c_put_handle},
            "get_handles_sub_state": {"bind": c_handles_alias},
            "remove_handle": {"stmt": c_remove_handle},
            "eval::eval_instructions": {"tuple": c_eval},
            "clear": {"stmt": c_clear},
        },
        "result": run_result,
    })
    fn = rs2v.FnState(cfg)
    term = fn.function(params, body)
    out = "".join(text for _n, text in fn.loops)
    return out + "Definition gen_alias_run %s : %s :=\n%s.\n" % (RUN_BINDERS, RUN_TYPE, term)


def clean(e):
    return ((type(e).__name__ + ": ") if not isinstance(e, Rs2vError) else "") + str(e).replace("*)", "* )").replace("(*", "( *")


def generate(api):
    text = HEAD
    clear_ok = False
    scope_src = ""
    try:
        scope_src = api.read(REL_SCOPE)
        body = translate_clear(scope_src)
        text += "Definition gen_scope_clear_understood : bool := true.\n" + body
        clear_ok = True
    except Exception as e:  # noqa: BLE001  anything unexpected means: not understood (never a crash, never a guess)
        text += "(* NOT UNDERSTOOD: clear: %s *)\nDefinition gen_scope_clear_understood : bool := false.\n%s" % (clean(e), STUB_CLEAR)
    try:
        if not clear_ok:
            raise Rs2vError("its callee types/scope.rs::clear is not understood")
        body = translate_run(api.read(REL_CMD), scope_src)
        text += "Definition gen_alias_run_understood : bool := true.\n" + body
    except Exception as e:  # noqa: BLE001
        text += "(* NOT UNDERSTOOD: AliasCommand::run: %s *)\nDefinition gen_alias_run_understood : bool := false.\n%s" % (clean(e), STUB_RUN)
    api.emit("GenAliasFn.v", text, "%s (fn clear) and %s (impl Command for AliasCommand: fn run) by lib/rs2v.py" % (REL_SCOPE, REL_CMD))
