"""flowfor_gen — TRANSLATE the for / end_for commands of the SDK and their helpers
(/repo/duckscript_sdk/src/sdk/std/flowcontrol/forin/mod.rs) into Gallina on every run (lib/rs2v.py: grammar PColl, executor
FnSub) -> coq/generated/GenFlowforFn.v, one definition and ONE FLAG per Rust function:

  store_call_info                          gen_store_call_info (ci : gcall) (gs : gstate)                  : gres (unit * gstate)
  get_next_iteration                       gen_get_next_iteration (iteration : nat) (handle : str) (gs)    : gres (option str * gstate)
  get_or_create_forin_meta_info_for_line   gen_get_or_create_forin_meta_info_for_line (P : list instr) (line : nat) (gs)
                                                                                                           : gres (option lmeta * gstate)
  pop_call_info_for_line                   gen_pop_call_info_for_line (line : nat) (recursive : bool) (gs) : gres (option gcall * gstate)
  ForInCommand::run                        gen_forin_run (P : list instr) (line : nat) (args : list str) (vars : list (str * str)) (gs)
                                                                                                           : gres (cres * list (str * str) * gstate)
  EndForInCommand::run                     gen_endforin_run (same parameters)                              : same type

over the types of theories/FlowforLib.v (gres: GVal / GPanic / GFuel; gstate, gcall).  theories/FlowforGenTie.v proves each
EQUAL, for ALL inputs, to `GVal` of the hand-written g-model of FlowforLib.v (so no GPanic / GFuel is reachable: the
`arguments[i]` / `list[iteration]` accesses are explicit panic arms shown dead, the `loop` of pop_call_info_for_line never
runs out of its fuel); theories/FlowforEmbed.v proves — without any generated file — that on the states the hand model
theories/Flow.v describes (every call-info entry carries the current line context name) the g-model is Flow.v's
for_meta_info / for_pop_top / for_pop / for_push / get_next_iteration / step_for / step_endfor, the functions the theorems
of props/C04.v and props/C05.v are about (FlowFn.v runs Flow.step on the projected program).  Wrappers: props/SrcFlowfor.v,
tie key "flowfor" (C04, C05; no-panic content: C07).

WHAT COMES FROM THE SOURCE (re-read on every run): every statement of the six functions — the tests on the argument vector and
their order (`len() != 3`, `arguments[1] != "in"`, which index is the variable, which the handle), which helper is called with
which arguments in which order, the `recursive` flag passed by each command, the three-way test of pop_call_info_for_line
(start == line || end == line, && line_context_name equal) and what happens on each outcome (return the entry / push it back
and return None / drop it and go round again), what is pushed back (iteration + 1, the same meta info, the CURRENT context
name), that the variable is bound after store_call_info, the GoTo targets (end + 1, start), which CommandResult is returned
where, the cache lookup before create_forin_meta_info_for_line and the write after it, the line handed to end::set_command and
the command name (EndForInCommand.name()), `list.len() > iteration` before `list[iteration]`; the sub-state key literals
(statics of the file); the field lists of ForInMetaInfo and CallInfo; and the (de)serialisation functions, which are EXECUTED
on symbolic records here (FnSub check mode): `deserialize_X(serialize_X(r))` must return `Some(r)` field by field (same keys,
same StateValue variants, nested meta info included) — only then "serialise, then push / insert" is translated as pushing /
inserting the record and "pop / look up, then deserialise" as reading it; otherwise every function that uses them is
"not understood".

WHAT COMES FROM THIS CONFIGURATION (the representation of the hand model, or a callee outside this file):
  * `state` is FlowforLib.gstate: get_core_sub_state_for_command(state, "forin") / get_sub_state("meta_info", ..) /
    get_sub_state(<line key>, ..) is the typed cache gs_meta (aget Nat.eqb / FlowforLib.meta_put: HashMap::insert spelled as
    Flow.v does); get_list("call_stack", ..) is the typed stack gs_stk (head = top of the Vec; Vec::pop / push = uncons / cons);
    a sub-state that does not deserialise is "absent", a stack holds only what store_call_info pushed (the frame assumption of
    the hand model: no other code writes the "forin" sub-state; parameter order of the utils/state.rs helpers checked on the
    source);
  * flowcontrol::get_line_key(line, state) — the current line context name, "::", the line number — is represented by `line`
    itself: within one context name the key is injective in the line (Flow.v's assumption: one context name);
  * types::scope::get_line_context_name(state) is the component gs_lcn (read-only here);
  * end::set_command(line, state, name) is FlowforLib.end_put on gs_end (= Flow.end_set); `EndForInCommand { package }.name()`
    is GenFlowNames.gen_endfor_name (c04_gen reads it from the source and checks that create() hands the package on);
  * create_forin_meta_info_for_line(line, instructions, package) is Flow.create_loop_meta gen_for_tables P line (its name
    tables and the way it uses find_commands' result are regenerated and checked by lib/gen/c04_gen.py, find_commands itself
    is tie "findcmds"); a Result<T, String> is kept as `option T` (error texts have no counterpart in Flow.cres);
  * get_handle(state, key) is aget str_eqb key gs_arrs, a handle being an array of strings as in Flow.w_arrs (a List whose
    elements are StateValue::String: get_as_string is Ok of the element);
  * context.arguments = args, context.line = line, context.instructions = P, context.variables = vars (insert = aset str_eqb,
    Flow.vset), self.package only flows into the two configured callees above; usize is nat (`x + 1` = S x; 2^64 overflow is
    outside the model);
  * CommandResult::Continue(None) = RContinue, GoTo(None, GoToValue::Line(n)) = RGoto n, Error(_) / Crash(_) = RError / RCrash
    with the model's ghost codes (CODES below: the texts are not compared, only the kind is);
  * the `loop` of pop_call_info_for_line is FlowforLib.gloop with fuel S (length gs_stk) (each round that continues has popped
    an entry).

A function the translator does not understand — or that calls one it does not understand — gets
`gen_<fn>_understood := false` and a type-correct stub."""
import os
import re
import sys

sys.path.insert(0, os.path.dirname(os.path.dirname(os.path.abspath(__file__))))
import rs2v  # noqa: E402
from rs2v import Rs2vError, SubV  # noqa: E402

REL = "duckscript_sdk/src/sdk/std/flowcontrol/forin/mod.rs"
REL_STATE = "duckscript_sdk/src/utils/state.rs"
REL_SCOPE = "duckscript_sdk/src/types/scope.rs"
REL_FC = "duckscript_sdk/src/sdk/std/flowcontrol/mod.rs"
REL_END = "duckscript_sdk/src/sdk/std/flowcontrol/end/mod.rs"
HEAD = ("Require Import DS.Cond DS.FlowTables DS.FlowScan DS.Flow DS.FlowforLib.\nRequire Import DSG.GenFlowNames.\n"
        "Local Open Scope bool_scope.\n")

T_META, T_CALL = ("struct", "ForInMetaInfo"), ("struct", "CallInfo")
STRUCTS = {
    "ForInMetaInfo": {"fields": [("start", "nat"), ("end", "nat")], "mk": "(mkLM %s %s)",
                      "proj": {"start": "(lm_start %s)", "end": "(lm_end %s)"}},
    "CallInfo": {"fields": [("iteration", "nat"), ("meta_info", T_META), ("line_context_name", "str")], "mk": "(mkGC %s %s %s)",
                 "proj": {"iteration": "(gc_iter %s)", "meta_info": "(gc_meta %s)", "line_context_name": "(gc_lcn %s)"}},
    "ForInCommand": {"fields": [("package", "pkg")]},
    "EndForInCommand": {"fields": [("package", "pkg")]},
}
DECLS = [("ForInMetaInfo", "start:usize,end:usize"), ("CallInfo", "iteration:usize,meta_info:ForInMetaInfo,line_context_name:String")]
SV_VARIANTS = ["Boolean", "Number", "UnsignedNumber", "Number32Bit", "UnsignedNumber32Bit", "Number64Bit", "UnsignedNumber64Bit",
               "String", "ByteArray", "List", "Set", "SubState", "Any"]
CTORS = dict([("StateValue::" + v, ("sv", 1)) for v in SV_VARIANTS] +
             [("CommandResult::Continue", ("cres", 1)), ("CommandResult::Error", ("cres", 1)), ("CommandResult::Crash", ("cres", 1)),
              ("CommandResult::GoTo", ("cres", 2)), ("GoToValue::Line", ("goto", 1))])
# the typed sub-states of the command sub-state "forin"
SUB_STATE = "forin"
TABLES = {"meta_info": ("meta", "ForInMetaInfo")}
STACKS = {"call_stack": ("stk", "CallInfo")}
SERIAL = {"ForInMetaInfo": ("serialize_forin_meta_info", "deserialize_forin_meta_info"),
          "CallInfo": ("serialize_call_info", "deserialize_call_info")}
CELLS = [("meta", "gs_meta"), ("stk", "gs_stk"), ("end", "gs_end"), ("arrs", "gs_arrs"), ("lcn", "gs_lcn")]
STATE_MK = "(mkGS %s %s %s %s %s)"
# ghost result codes of Flow.cres (function, CommandResult kind) -> code
CODES = {("forin_run", "Error"): 10, ("forin_run", "Crash"): 1, ("endforin_run", "Error"): 5}
TY_TEXT = {"nat": ("usize",), "state": ("&mutHashMap<String,StateValue>",), "bool": ("bool",), "str": ("String", "&str", "&String"),
           "instrs": ("&Vec<Instruction>",), "pkg": ("String", "&str", "&String"), T_CALL: ("&CallInfo", "CallInfo"),
           T_META: ("&ForInMetaInfo", "ForInMetaInfo"), "ctx": ("CommandInvocationContext",)}
RET_TEXT = {"unit": (None,), ("opt", "str"): ("Option<String>",), ("res", T_META, "str"): ("Result<ForInMetaInfo,String>",),
            ("opt", T_CALL): ("Option<CallInfo>",), "cres": ("CommandResult",)}

# Rust function -> how it is translated.  params: (rust name, type, Coq name); order: the Coq parameters before `gs`
FNS = {
    "store_call_info": {
        "coq": "gen_store_call_info", "params": [("call_info", T_CALL, "ci"), ("state", "state", None)], "order": ["call_info"],
        "ret": "unit", "sig": "(ci : gcall) (gs : gstate)", "rtype": "gres (unit * gstate)"},
    "get_next_iteration": {
        "coq": "gen_get_next_iteration",
        "params": [("iteration", "nat", "iteration"), ("handle", "str", "handle"), ("state", "state", None)],
        "order": ["iteration", "handle"], "ret": ("opt", "str"),
        "sig": "(iteration : nat) (handle : str) (gs : gstate)", "rtype": "gres (option str * gstate)"},
    "get_or_create_forin_meta_info_for_line": {
        "coq": "gen_get_or_create_forin_meta_info_for_line",
        "params": [("line", "nat", "line"), ("state", "state", None), ("instructions", "instrs", "P"), ("package", "pkg", None)],
        "order": ["instructions", "line"], "ret": ("res", T_META, "str"),
        "sig": "(P : list instr) (line : nat) (gs : gstate)", "rtype": "gres (option lmeta * gstate)"},
    "pop_call_info_for_line": {
        "coq": "gen_pop_call_info_for_line",
        "params": [("line", "nat", "line"), ("state", "state", None), ("recursive", "bool", "recursive")],
        "order": ["line", "recursive"], "ret": ("opt", T_CALL),
        "sig": "(line : nat) (recursive : bool) (gs : gstate)", "rtype": "gres (option gcall * gstate)"},
}
RUN_SIG = "(P : list instr) (line : nat) (args : list str) (vars : list (str * str)) (gs : gstate)"
RUN_RTYPE = "gres (cres * list (str * str) * gstate)"
RUNS = {"forin_run": ("ForInCommand", "gen_forin_run"), "endforin_run": ("EndForInCommand", "gen_endforin_run")}
ORDER = ["store_call_info", "get_next_iteration", "get_or_create_forin_meta_info_for_line", "pop_call_info_for_line",
         "forin_run", "endforin_run"]
# parameter names (in order) of the callees outside forin/mod.rs the handlers below rely on
CALLEE_PARAMS = [
    (REL_STATE, "get_core_sub_state_for_command", ["state", "name"]), (REL_STATE, "get_sub_state", ["key", "state"]),
    (REL_STATE, "get_list", ["key", "state"]), (REL_STATE, "get_handle", ["state", "key"]),
    (REL_STATE, "get_as_string", ["state_value"]), (REL_SCOPE, "get_line_context_name", ["state"]),
    (REL_FC, "get_line_key", ["line", "state"]), (REL_END, "set_command", ["line", "state", "command"]),
    (REL, "create_forin_meta_info_for_line", ["line", "instructions", "package"]),
]


def need(cond, what):
    if not cond:
        raise Rs2vError(what)


def why(e):
    return (type(e).__name__ + ": " if not isinstance(e, Rs2vError) else "") + str(e).replace("*)", "* )").replace("(*", "( *")


# ---- handlers: the callees outside the six functions ---------------------------------------------------------------
def ev(fn, args, n, what, env, st, k, ctx):
    need(len(args) == n, "%s: %d arguments" % (what, len(args)))
    return fn.ex_list(args, env, st, k, ctx)


def h_lcn(fn, args, env, st, k, ctx):
    def kk(vs, e2, s2):
        need(vs[0].ty == "state", "get_line_context_name of a %s" % (vs[0].ty,))
        return k(SubV("str", fn.cell(s2, "lcn")), e2, s2)
    return ev(fn, args, 1, "get_line_context_name", env, st, kk, ctx)


def h_line_key(fn, args, env, st, k, ctx):
    def kk(vs, e2, s2):
        need(vs[0].ty == "nat" and vs[1].ty == "state", "get_line_key(%s, %s)" % (vs[0].ty, vs[1].ty))
        return k(SubV("linekey", fn.term(vs[0])), e2, s2)
    return ev(fn, args, 2, "get_line_key", env, st, kk, ctx)


def place(desc):
    return SubV("place", known=("place", desc))


def lit_of(v, what):
    need(v.ty == "str" and v.known is not None and v.known[0] == "lit", "%s: the key is not a literal" % what)
    return v.known[1]


def h_cmd_sub(fn, args, env, st, k, ctx):
    def kk(vs, e2, s2):
        need(vs[0].ty == "state", "get_core_sub_state_for_command of a %s" % (vs[0].ty,))
        key = lit_of(vs[1], "get_core_sub_state_for_command")
        need(key == SUB_STATE, "the command sub-state %r is not the one the model keeps (%r)" % (key, SUB_STATE))
        return k(place(("dir",)), e2, s2)
    return ev(fn, args, 2, "get_core_sub_state_for_command", env, st, kk, ctx)


def h_get_sub_state(fn, args, env, st, k, ctx):
    def kk(vs, e2, s2):
        key, parent = vs
        need(parent.ty == "place", "get_sub_state inside a %s" % (parent.ty,))
        d = parent.known[1]
        if d[0] == "dir":
            name = lit_of(key, "get_sub_state")
            need(name in TABLES, "the sub-state %r of %r is not one the model keeps" % (name, SUB_STATE))
            return k(place(("table",) + TABLES[name]), e2, s2)
        if d[0] == "table":
            need(key.ty == "linekey", "the key of a %s entry is a %s, not get_line_key(..)" % (d[1], key.ty))
            return k(place(("rec", d[1], d[2], fn.term(key))), e2, s2)
        raise Rs2vError("get_sub_state inside a %s" % d[0])
    return ev(fn, args, 2, "get_sub_state", env, st, kk, ctx)


def h_get_list(fn, args, env, st, k, ctx):
    def kk(vs, e2, s2):
        key, parent = vs
        need(parent.ty == "place" and parent.known[1][0] == "dir", "get_list outside the command sub-state")
        name = lit_of(key, "get_list")
        need(name in STACKS, "the list %r of %r is not one the model keeps" % (name, SUB_STATE))
        return k(place(("stack",) + STACKS[name]), e2, s2)
    return ev(fn, args, 2, "get_list", env, st, kk, ctx)


def place_methods(fn, v, name, args, env, st, k, ctx):
    d = v.known[1]
    if d[0] == "stack" and name == "pop" and not args:
        fn.branching("Vec::pop")
        e, r = fn.fresh("top"), fn.fresh("rest")
        rec = SubV(("struct", d[2]), e)
        some = SubV(("opt", "sv"), known=("ctor", "Some", [SubV("sv", known=("ctor", "StateValue::SubState", [
            SubV("map", known=("ser", d[2], rec))]))]))
        none = SubV(("opt", "sv"), known=("ctor", "None", []))
        return "match %s with\n| [] =>\n%s\n| %s :: %s =>\n%s\nend" % (
            fn.cell(st, d[1]), k(none, env, st), e, r, k(some, env, fn.set_cell(st, d[1], r)))
    if d[0] == "stack" and name == "push" and len(args) == 1:
        def kk(x, e2, s2):
            ok = (x.ty == "sv" and x.known and x.known[0] == "ctor" and x.known[1] == "StateValue::SubState"
                  and x.known[2][0].known and x.known[2][0].known[0] == "ser" and x.known[2][0].known[1] == d[2])
            need(ok, "push of something that is not StateValue::SubState(<a serialised %s>)" % d[2])
            rec = x.known[2][0].known[2]
            return k(fn.unit(), e2, fn.set_cell(s2, d[1], "(%s :: %s)" % (fn.term(rec), fn.cell(s2, d[1]))))
        return fn.ex(args[0], env, st, kk, ctx)
    raise Rs2vError("method %s on the %s sub-state" % (name, d[0]))


def h_deserialize(struct):
    def h(fn, args, env, st, k, ctx):
        def kk(vs, e2, s2):
            v = vs[0]
            if v.ty == "place" and v.known[1][0] == "rec" and v.known[1][2] == struct:
                _r, cell, _s, key = v.known[1]
                fn.branching("lookup")
                m = fn.fresh("info")
                some = SubV(("opt", ("struct", struct)), known=("ctor", "Some", [SubV(("struct", struct), m)]))
                none = SubV(("opt", ("struct", struct)), known=("ctor", "None", []))
                return "match aget Nat.eqb %s %s with\n| Some %s =>\n%s\n| None =>\n%s\nend" % (
                    key, fn.cell(s2, cell), m, k(some, e2, s2), k(none, e2, s2))
            if v.ty == "map" and v.known and v.known[0] == "ser" and v.known[1] == struct:
                return k(SubV(("opt", ("struct", struct)), known=("ctor", "Some", [v.known[2]])), e2, s2)
            raise Rs2vError("deserialising a %s from something that is not a typed sub-state of the model" % struct)
        return ev(fn, args, 1, SERIAL[struct][1], env, st, kk, ctx)
    return h


def h_serialize(struct):
    def h(fn, args, env, st, k, ctx):
        need(len(args) == 2, "%s: %d arguments" % (SERIAL[struct][0], len(args)))

        def kk(vs, e2, s2):
            rec, target = vs
            need(rec.ty == ("struct", struct), "%s of a %s" % (SERIAL[struct][0], rec.ty))
            if target.ty == "place" and target.known[1][0] == "rec" and target.known[1][2] == struct:
                _r, cell, _s, key = target.known[1]
                return k(fn.unit(), e2, fn.set_cell(s2, cell, "(meta_put %s %s %s)" % (key, fn.term(rec), fn.cell(s2, cell))))
            a = rs2v.sub_strip_ref(args[1])
            if (target.ty == "map" and target.known == ("map", {}, True) and a[0] == "path" and len(a[1]) == 1 and a[1][0] in e2
                    and e2[a[1][0]] is target):
                e3 = dict(e2)
                e3[a[1][0]] = SubV("map", known=("ser", struct, rec))
                return k(fn.unit(), e3, s2)
            raise Rs2vError("serialising a %s into something that is neither a fresh HashMap::new() local nor a typed sub-state" % struct)
        return fn.ex_list(args, env, st, kk, ctx)
    return h


def h_get_handle(fn, args, env, st, k, ctx):
    def kk(vs, e2, s2):
        need(vs[0].ty == "state" and vs[1].ty == "str", "get_handle(%s, %s)" % (vs[0].ty, vs[1].ty))
        fn.branching("get_handle")
        l = fn.fresh("list")
        some = SubV(("opt", "sv"), known=("ctor", "Some", [SubV("sv", known=("ctor", "StateValue::List", [SubV(("list", "svstr"), l)]))]))
        none = SubV(("opt", "sv"), known=("ctor", "None", []))
        return "match aget str_eqb %s %s with\n| Some %s =>\n%s\n| None =>\n%s\nend" % (
            fn.term(vs[1]), fn.cell(s2, "arrs"), l, k(some, e2, s2), k(none, e2, s2))
    return ev(fn, args, 2, "get_handle", env, st, kk, ctx)


def list_elem(fn, t, x):
    if t == "svstr":
        return SubV("sv", known=("ctor", "StateValue::String", [SubV("str", x)]))
    return SubV(t, x)


def h_get_as_string(fn, args, env, st, k, ctx):
    def kk(vs, e2, s2):
        v = vs[0]
        need(v.ty == "sv" and v.known and v.known[0] == "ctor" and v.known[1] == "StateValue::String",
             "get_as_string of a value that is not known to be a StateValue::String")
        return k(SubV(("res", "str", "str"), known=("ctor", "Ok", [v.known[2][0]])), e2, s2)
    return ev(fn, args, 1, "get_as_string", env, st, kk, ctx)


def h_create(fn, args, env, st, k, ctx):
    def kk(vs, e2, s2):
        need([v.ty for v in vs] == ["nat", "instrs", "pkg"], "create_forin_meta_info_for_line(%s)" % ", ".join(str(v.ty) for v in vs))
        fn.branching("create_forin_meta_info_for_line")
        m = fn.fresh("info")
        ok = SubV(("res", T_META, "str"), known=("ctor", "Ok", [SubV(T_META, m)]))
        err = SubV(("res", T_META, "str"), known=("ctor", "Err", [SubV("str", None)]))
        return "match create_loop_meta gen_for_tables %s %s with\n| Some %s =>\n%s\n| None =>\n%s\nend" % (
            fn.term(vs[1]), fn.term(vs[0]), m, k(ok, e2, s2), k(err, e2, s2))
    return ev(fn, args, 3, "create_forin_meta_info_for_line", env, st, kk, ctx)


def h_set_command(fn, args, env, st, k, ctx):
    def kk(vs, e2, s2):
        need([v.ty for v in vs] == ["nat", "state", "str"], "end::set_command(%s)" % ", ".join(str(v.ty) for v in vs))
        return k(fn.unit(), e2, fn.set_cell(s2, "end", "(end_put %s %s %s)" % (fn.term(vs[0]), fn.term(vs[2]), fn.cell(s2, "end"))))
    return ev(fn, args, 3, "end::set_command", env, st, kk, ctx)


def m_name(coq):
    def h(fn, v, args, env, st, k, ctx):
        need(not args, "name() with arguments")
        need(v.known is not None and v.known[0] == "struct" and v.known[1]["package"].ty == "pkg",
             "name() of a command that was not built from this command's package")
        return k(SubV("str", coq), env, st)
    return h


def m_vars_insert(fn, v, args, env, st, k, ctx):
    def kk(vs, e2, s2):
        need([x.ty for x in vs] == ["str", "str"], "variables.insert(%s)" % ", ".join(str(x.ty) for x in vs))
        return k(SubV("opaque"), e2, fn.set_cell(s2, "vars", "(aset str_eqb %s %s %s)" % (fn.term(vs[0]), fn.term(vs[1]), fn.cell(s2, "vars"))))
    return ev(fn, args, 2, "variables.insert", env, st, kk, ctx)


def ctor_term(short):
    def h(fn, v):
        name, a = v.known[1], v.known[2]
        if name == "CommandResult::Continue":
            need(a[0].known is not None and a[0].known[:2] == ("ctor", "None"), "CommandResult::Continue with an output value")
            return "RContinue"
        if name == "CommandResult::GoTo":
            need(a[0].known is not None and a[0].known[:2] == ("ctor", "None"), "CommandResult::GoTo with an output value")
            need(a[1].ty == "goto" and a[1].known and a[1].known[1] == "GoToValue::Line", "CommandResult::GoTo of something that is not a Line")
            need(a[1].known[2][0].ty == "nat", "GoToValue::Line of a %s" % (a[1].known[2][0].ty,))
            return "(RGoto %s)" % fn.term(a[1].known[2][0])
        for kind, coq in (("Error", "RError"), ("Crash", "RCrash")):
            if name == "CommandResult::" + kind:
                need(a[0].ty == "str", "CommandResult::%s of a %s" % (kind, a[0].ty))
                need((short, kind) in CODES, "CommandResult::%s is not a result the model has for this command" % kind)
                return "(%s %d%%N)" % (coq, CODES[(short, kind)])
        raise Rs2vError("no Coq spelling for %s" % name)
    return h


def base_cfg(statics, understood, short):
    return {
        "structs": STRUCTS, "ctors": CTORS, "statics": statics, "cells": CELLS, "state_mk": STATE_MK, "state_type": "gstate",
        "panic": "GPanic", "list_elem": list_elem, "ctor_term": ctor_term(short),
        "loop_fuel": lambda fn, st: "(S (length %s))" % fn.cell(st, "stk"),
        "place_methods": place_methods,
        "calls": {"get_line_context_name": h_lcn, "get_line_key": h_line_key, "get_core_sub_state_for_command": h_cmd_sub,
                  "get_sub_state": h_get_sub_state, "get_list": h_get_list, "get_handle": h_get_handle,
                  "get_as_string": h_get_as_string, "create_forin_meta_info_for_line": h_create, "end::set_command": h_set_command,
                  "serialize_forin_meta_info": h_serialize("ForInMetaInfo"), "deserialize_forin_meta_info": h_deserialize("ForInMetaInfo"),
                  "serialize_call_info": h_serialize("CallInfo"), "deserialize_call_info": h_deserialize("CallInfo")},
        "methods": {(("struct", "EndForInCommand"), "name"): m_name("gen_endfor_name"),
                    (("struct", "ForInCommand"), "name"): m_name("gen_for_name"), ("vars", "insert"): m_vars_insert},
        "fns": {n: {"coq": FNS[n]["coq"], "params": [(p, t) for p, t, _c in FNS[n]["params"]], "order": FNS[n]["order"],
                    "ret": FNS[n]["ret"]} for n in understood if n in FNS},
    }


# ---- checks on the source ------------------------------------------------------------------------------------------
def check_decls(src):
    for name, want in DECLS:
        m = re.search(r"\bstruct\s+%s\s*\{(.*?)\}" % name, src, re.S)
        need(m is not None, "struct %s not found" % name)
        body = re.sub(r"//[^\n]*", "", m.group(1))
        body = re.sub(r"#\[[^\]]*\]", "", body)
        body = re.sub(r"\bpub(\([a-z]+\))?\s+", "", body)
        body = re.sub(r"\s+", "", body).rstrip(",")
        need(body == want, "struct %s is now {%s}" % (name, body))


def param_names(src, name):
    """the parameter names of a free function, from its header only (the body may use constructs the grammar does not have)"""
    ms = list(re.finditer(r"\bfn\s+%s\s*\(" % re.escape(name), src))
    need(len(ms) == 1, "fn %s: %d definitions" % (name, len(ms)))
    i, depth, cur, out = ms[0].end(), 0, "", []
    while i < len(src):
        c = src[i]
        if c in "(<[":
            depth += 1
        elif c in ")>]":
            if depth == 0:
                break
            depth -= 1
        if c == "," and depth == 0:
            out.append(cur)
            cur = ""
        else:
            cur += c
        i += 1
    out.append(cur)
    names = []
    for part in out:
        part = re.sub(r"//[^\n]*", "", part).strip()
        if part:
            m = re.match(r"(?:mut\s+)?(\w+)\s*:", part)
            need(m is not None, "fn %s: parameter %r" % (name, part))
            names.append(m.group(1))
    return names


def check_callees(api):
    for rel, name, want in CALLEE_PARAMS:
        got = param_names(api.read(rel), name)
        need(got == want, "%s: fn %s takes (%s), not (%s)" % (rel, name, ", ".join(got), ", ".join(want)))


def atoms(ty, path):
    if isinstance(ty, tuple) and ty[0] == "struct":
        return SubV(ty, known=("struct", {f: atoms(t, path + "." + f) for f, t in STRUCTS[ty[1]]["fields"]}))
    return SubV(ty, "<" + path + ">")


def same_value(a, b):
    if a.ty != b.ty:
        return False
    if a.known is not None and a.known[0] == "struct":
        return (b.known is not None and b.known[0] == "struct" and sorted(a.known[1]) == sorted(b.known[1])
                and all(same_value(a.known[1][f], b.known[1][f]) for f in a.known[1]))
    return a is b


def check_inverse(src, statics):
    """deserialize_X(serialize_X(r)) = Some(r), by executing both on a record of symbolic fields (into a map with unknown
    other keys: the target of serialize_forin_meta_info may be a sub-state that holds a partial record)"""
    inline = {}
    for struct, (ser, de) in SERIAL.items():
        for f in (ser, de):
            params, ret, _g, _w, body = rs2v.parse_fn_coll(src, f)
            inline[f] = (params, body)
        ps, pd = inline[ser][0], inline[de][0]
        need(len(ps) == 2 and ps[0][1] in ("&" + struct, struct) and ps[1][1] == "&mutHashMap<String,StateValue>",
             "%s: parameters (%s)" % (ser, ", ".join(t for _p, t in ps)))
        need(len(pd) == 1 and pd[0][1] == "&mutHashMap<String,StateValue>", "%s: parameters (%s)" % (de, ", ".join(t for _p, t in pd)))
        need(rs2v.parse_fn_coll(src, de)[1] == "Option<%s>" % struct, "%s does not return Option<%s>" % (de, struct))
    for struct, (ser, de) in SERIAL.items():
        cfg = {"check": True, "structs": STRUCTS, "ctors": CTORS, "statics": statics, "inline": inline, "cells": [], "panic": "-"}
        rec = atoms(("struct", struct), struct)
        ps, body = inline[ser]
        _v, env = rs2v.FnSub(cfg).run_closed(body, {ps[0][0]: rec, ps[1][0]: SubV("map", known=("map", {}, False))})
        m = env[ps[1][0]]
        need(m.ty == "map" and m.known[0] == "map" and m.known[1], "%s writes nothing" % ser)
        pd, body = inline[de]
        v, _env = rs2v.FnSub(cfg).run_closed(body, {pd[0][0]: m})
        ok = v.known is not None and v.known[:2] == ("ctor", "Some") and same_value(v.known[2][0], rec)
        need(ok, "%s(%s(r)) is not Some(r)" % (de, ser))


# ---- translation ---------------------------------------------------------------------------------------------------
def ret_term_for(fn, ty):
    def rt(v):
        need(fn.ty_ok(v.ty, ty) or (ty == "unit"), "a %s is returned where a %s is declared" % (v.ty, ty))
        return "tt" if ty == "unit" else fn.term(v)
    return rt


def translate_fn(src, name, statics, understood):
    spec = FNS[name]
    params, ret, gens, _where, body = rs2v.parse_fn_coll(src, name)
    need(not gens, "%s is generic" % name)
    need([p for p, _t in params] == [p for p, _t, _c in spec["params"]],
         "%s: parameters (%s)" % (name, ", ".join(p for p, _t in params)))
    for (p, text), (_p, ty, _c) in zip(params, spec["params"]):
        need(text in TY_TEXT[ty], "%s: parameter %s has type %s" % (name, p, text))
    need(ret in RET_TEXT[spec["ret"]], "%s returns %s" % (name, ret))
    fn = rs2v.FnSub(base_cfg(statics, understood, name))
    env = {}
    for p, ty, coq in spec["params"]:
        env[p] = SubV(ty, coq)
    term = fn.function(body, env, "gs", ret_term_for(fn, spec["ret"]), lambda v, st: "GVal (%s, %s)" % (v, fn.state_term(st)))
    return "Definition %s %s : %s :=\n%s.\n" % (spec["coq"], spec["sig"], spec["rtype"], term)


def translate_run(src, short, statics, understood):
    struct, coq = RUNS[short]
    receiver, params, body = rs2v.parse_run_coll(src, "Command", struct, "run")
    need(receiver == "ref" and [p for p, _t in params] == ["context"] and params[0][1] in TY_TEXT["ctx"],
         "%s::run: receiver %s, parameters %r" % (struct, receiver, params))
    cfg = base_cfg(statics, understood, short)
    cfg["extra"] = {"vars": "vars"}
    cfg["ctx_fields"] = {"arguments": SubV("args", "args"), "line": SubV("nat", "line"), "state": SubV("state"),
                         "instructions": SubV("instrs", "P"), "variables": SubV("vars")}
    cfg["self_fields"] = {"package": SubV("pkg")}
    fn = rs2v.FnSub(cfg)
    env = {"self": SubV("self"), "context": SubV("ctx")}
    term = fn.function(body, env, "gs", ret_term_for(fn, "cres"),
                       lambda v, st: "GVal (%s, %s, %s)" % (v, fn.cell(st, "vars"), fn.state_term(st)), loop_ok=False)
    return "Definition %s %s : %s :=\n%s.\n" % (coq, RUN_SIG, RUN_RTYPE, term)


def stub(name):
    if name in FNS:
        return "Definition %s %s : %s := GPanic.\n" % (FNS[name]["coq"], FNS[name]["sig"], FNS[name]["rtype"])
    return "Definition %s %s : %s := GPanic.\n" % (RUNS[name][1], RUN_SIG, RUN_RTYPE)


def coq_name(name):
    return FNS[name]["coq"] if name in FNS else RUNS[name][1]


def generate(api, force_stub=False):
    """force_stub (lib/gen_from_source.py): the translation written a moment ago did not type-check -> stubs with that reason"""
    text = HEAD
    src, statics, common = "", {}, None
    try:
        need(not force_stub, "translation rejected: %s" % force_stub)
        src = api.read(REL)
        statics = {k: v[1] for k, v in rs2v.read_statics(src).items() if v[0] == rs2v.Ty.STR}
        check_decls(src)
        check_callees(api)
        check_inverse(src, statics)
    except Exception as e:  # noqa: BLE001  anything unexpected means: not understood (never a crash, never a guess)
        common = why(e)
    # the key's own flag: the declarations, the callee signatures and the serialise / deserialise check were understood
    if common is None:
        text += "Definition gen_flowfor_understood : bool := true.\n"
    else:
        text += "(* NOT UNDERSTOOD: %s *)\nDefinition gen_flowfor_understood : bool := false.\n" % common
    understood = []
    for name in ORDER:
        flag = "%s_understood" % coq_name(name)
        try:
            need(common is None, common)
            body = translate_fn(src, name, statics, understood) if name in FNS else translate_run(src, name, statics, understood)
            text += "Definition %s : bool := true.\n%s" % (flag, body)
            understood.append(name)
        except Exception as e:  # noqa: BLE001
            msg = why(e)
            m = re.match(r"call of (\w+): not a function the configuration knows", msg)
            if m and m.group(1) in FNS:
                msg = "its callee %s is not understood" % m.group(1)
            text += "(* NOT UNDERSTOOD %s: %s *)\nDefinition %s : bool := false.\n%s" % (name, msg, flag, stub(name))
    api.emit("GenFlowforFn.v", text, REL + " (fn store_call_info, get_next_iteration, get_or_create_forin_meta_info_for_line, "
             "pop_call_info_for_line, ForInCommand::run, EndForInCommand::run) by lib/rs2v.py")
