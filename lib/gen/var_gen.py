"""var_gen — TRANSLATE the `run` functions of the variable commands and of the scope commands of the SDK, and push / pop of
utils/scope.rs, into Gallina on every run (lib/rs2v.py, classes PVar / FnVar) -> coq/generated/GenVarFn.v:

  duckscript_sdk/src/sdk/std/var/set/mod.rs                run    gen_cmd_set               (get_output) args v st
  duckscript_sdk/src/sdk/std/var/set_by_name/mod.rs        run    gen_cmd_set_by_name       args v st
  duckscript_sdk/src/sdk/std/var/get_by_name/mod.rs        run    gen_cmd_get_by_name       args v st
  duckscript_sdk/src/sdk/std/var/is_defined/mod.rs         run    gen_cmd_is_defined        args v st
  duckscript_sdk/src/sdk/std/var/get_all_var_names/mod.rs  run    gen_cmd_get_all_var_names args v st
  duckscript_sdk/src/sdk/std/var/unset_all_vars/mod.rs     run    gen_cmd_unset_all_vars    args v st
  duckscript_sdk/src/sdk/std/scope/clear/mod.rs            run    gen_cmd_clear_scope       (scope_clear) args v st
  duckscript_sdk/src/sdk/std/scope/push_stack/mod.rs       run    gen_cmd_scope_push_stack  (scope_push) args v st
  duckscript_sdk/src/sdk/std/scope/pop_stack/mod.rs        run    gen_cmd_scope_pop_stack   (scope_pop) args v st
  duckscript_sdk/src/utils/scope.rs                        push   gen_scope_push            copy v st
  duckscript_sdk/src/utils/scope.rs                        pop    gen_scope_pop             copy v st

      gen_cmd_* .. (args : list name) (v : vmap) (st : list vmap) : option (outcome * mstate)      None = a panic
      gen_scope_push / gen_scope_pop (copy : list name) (v : vmap) (st : list vmap) : sres          SPanic | SOk s | SErr s

over the SAME types as the hand model theories/Scope.v (C11): `context.variables` is the gmap `v`, the "scope_stack" list
kept in `context.state` is `st` (its HEAD is the map pushed last), `context.arguments` is `args`, a command result is a Scope.v
`outcome`.  theories/VarGenTie.v proves, for ALL arguments and states, every gen_* equal to the hand model (m_cmd / m_push /
m_pop / m_step OpNames of Scope.v) and free of panics (props/SrcVar.v); each function has its own flag.

What comes from the SOURCE (re-read on every run): the whole control structure of each `run` — the argument-count tests
(operator and bound), which argument every operation reads (every `context.arguments[i]` and the slice
`context.arguments[1..]` is an access that PANICS when the vector is too short: an explicit `None` arm; the equality proofs
show these arms dead), the comparison with "--prefix" / "--copy" (the literal is read from the source), which HashMap
operation is applied to the variables with which operands and in which order (insert / remove / clear / retain and its
closure, get / contains_key / keys), which result constructor every path ends in and what it carries; for scope::push / pop:
the order of saving, collecting the copied names, clearing and re-inserting, the three loops and what each inserts where,
what happens on an empty stack, which Result every path returns, and that the stack is reached through ensure_list +
mutate_list under one and the same key.

What comes from the CONFIGURATION below (the parts the hand model abstracts):
  * std mapping: HashMap<String,String> is a gmap (insert -> <[k := v]>, remove -> delete, clear -> ∅, retain(|k, v| e) ->
    vmap_retain (fun k v => e), get -> !!, contains_key -> vmap_has, keys -> vmap_keys = the first components of map_to_list,
    `for (k, v) in m` runs over map_to_list m — the iteration ORDER of a HashMap is not modelled: the model observes key lists
    sorted and its folds only insert distinct keys), Vec::len / is_empty -> length / [] test, == on String -> Base.str_eqb,
    str::starts_with -> Scope.starts_with (ends_with / contains -> VarGenLib.vg_ends_with / vg_contains), bool::to_string ->
    "true" / "false" (Scope.lit_true / lit_false), `for x in l { .. }` -> stdpp foldl, `&v[n..]` -> VarGenLib.vec_slice_from;
  * `context.state` is modelled by ONE component, the list stored under "scope_stack", as a list of variable maps with the
    map pushed last at the HEAD: ensure_list(K, state) followed by mutate_list(K.to_string(), state, handler) with K =
    SCOPE_STACK_STATE_KEY = "scope_stack" (read from the source) runs `handler` on that list, keeps what the handler did to it
    whatever the handler returns, and returns the handler's result (checked on utils/state.rs on every run: `state_check`);
    Vec::push is cons, Vec::pop is the head / tail split (None on []); the elements of the list are
    StateValue::Any(Rc<RefCell<HashMap<String,String>>>) holding a variable map — exactly what `push` stores — so the
    `StateValue::Any(..)` arm and the `downcast_ref::<HashMap<String, String>>()` `Some` arm are the ones taken (the two
    "invalid type" Err arms of pop are dead in the model: its stack is typed);
  * put_handle(context.state, StateValue::List(array)) yields a handle whose OBSERVATION is the array sorted (ONames
    (merge_sort name_le array)): the handle name and the handle table are not part of Scope.v's state, put_handle does not
    touch the scope stack (state_check: every use of `state` in put_handle / return_handle goes to the "handles" sub-state);
  * callees that are translated elsewhere or abstracted are PARAMETERS of the generated function (the hand model's Section
    variables): `get_output` (set with two or more arguments: the condition evaluation is outside Scope.v's CSet), types/
    scope.rs::clear (translated by alias_gen.py: GenAliasFn.gen_scope_clear; VarGenTie instantiates it), utils::scope::push
    / pop (translated here: gen_scope_push / gen_scope_pop); the handler checks the actual arguments of every such call;
  * the TEXT of error messages is erased (OErr / SErr): the model compares result kinds only.

Anything not understood (every exception) -> `gen_<fn>_understood := false` and a type-correct stub."""
import os
import re
import sys

sys.path.insert(0, os.path.dirname(os.path.dirname(os.path.abspath(__file__))))
import rs2v  # noqa: E402
from rs2v import Rs2vError, CmdV  # noqa: E402

STD = "duckscript_sdk/src/sdk/std/"
REL_SCOPE = "duckscript_sdk/src/utils/scope.rs"
REL_STATE = "duckscript_sdk/src/utils/state.rs"
HEAD = ("From stdpp Require Import gmap list sorting.\n"
        "Require Import DS.Registry DS.Scope DS.VarGenLib.\n"
        "Local Open Scope bool_scope.\n")

BINDERS = "(args : list name) (v : vmap) (st : list vmap)"
RTYPE = "option (outcome * mstate)"
SBINDERS = "(copy : list name) (v : vmap) (st : list vmap)"
STYPE = "sres"
P_GET_OUTPUT = "(get_output : list name -> option (option value))"
P_CLEAR = "(scope_clear : name -> vmap -> vmap)"
P_PUSH = "(scope_push : list name -> vmap -> list vmap -> sres)"
P_POP = "(scope_pop : list name -> vmap -> list vmap -> sres)"

# (name, source file, extra binders)
COMMANDS = [
    ("set", "var/set/mod.rs", P_GET_OUTPUT),
    ("set_by_name", "var/set_by_name/mod.rs", ""),
    ("get_by_name", "var/get_by_name/mod.rs", ""),
    ("is_defined", "var/is_defined/mod.rs", ""),
    ("get_all_var_names", "var/get_all_var_names/mod.rs", ""),
    ("unset_all_vars", "var/unset_all_vars/mod.rs", ""),
    ("clear_scope", "scope/clear/mod.rs", P_CLEAR),
    ("scope_push_stack", "scope/push_stack/mod.rs", P_PUSH),
    ("scope_pop_stack", "scope/pop_stack/mod.rs", P_POP),
]
SCOPE_FNS = ["push", "pop"]

COQ_TYPES = {"str": "name", "bool": "bool", "nat": "nat", "sv": "name", "vmap": "vmap", "stack": "list vmap"}


def need(cond, what):
    if not cond:
        raise Rs2vError(what)


def types(text):
    t = text.replace(" ", "")
    if t in ("bool", "usize"):
        return {"bool": "bool", "usize": "nat"}[t]
    if t in ("String", "&str", "&String", "str"):
        return "str"
    if t == "()":
        return "unit"
    if t in ("HashMap<String,String>", "&mutHashMap<String,String>", "&HashMap<String,String>"):
        return "vmap"
    if t.startswith("Vec<") and t.endswith(">"):
        inner = t[4:-1]
        return ("list", None if inner == "_" else types(inner))
    if t.startswith("Option<") and t.endswith(">"):
        return ("opt", types(t[7:-1]))
    if t.startswith("Result<") and t.endswith(">"):
        inner, depth = t[7:-1], 0
        for i, c in enumerate(inner):
            if c in "<(":
                depth += 1
            elif c in ">)":
                depth -= 1
            elif c == "," and depth == 0:
                return ("res", types(inner[:i]), types(inner[i + 1:]))
    if t == "CommandResult":
        return "cmdresult"
    if t == "StateValue":
        return "sv"
    raise Rs2vError("type %s" % text)


def coq_type(ty):
    if ty in COQ_TYPES:
        return COQ_TYPES[ty]
    if isinstance(ty, tuple) and ty[0] in ("list", "iter") and ty[1] is not None:
        return "list %s" % coq_type(ty[1])
    if isinstance(ty, tuple) and ty[0] == "pair":
        return "(%s * %s)" % (coq_type(ty[1]), "value" if ty[2] == "str" else coq_type(ty[2]))
    if isinstance(ty, tuple) and ty[0] == "opt":
        return "option %s" % coq_type(ty[1])
    raise Rs2vError("no Coq type for %r" % (ty,))


def cell_types(ty):
    return ty == "vmap" or (isinstance(ty, tuple) and ty[0] == "list")


# ---- methods ---------------------------------------------------------------------------------------------------------
def unary(ty, fmt):
    def h(fn, r, vs, tf, expect):
        need(not vs, "arguments of a method without parameters")
        return CmdV(ty, fmt % fn.cur(r).term)
    return h


def m_identity(fn, r, vs, tf, expect):
    need(not vs, "arguments of a conversion")
    return fn.cur(r)


def str_pred(fmt):
    def h(fn, r, vs, tf, expect):
        need(len(vs) == 1 and vs[0].ty == "str" and vs[0].term is not None, "string test called with %r" % ([v.ty for v in vs],))
        return CmdV("bool", fmt % (vs[0].term, r.term))
    return h


def m_bool_to_string(fn, r, vs, tf, expect):
    need(not vs, "to_string with arguments")
    if isinstance(r.known, bool):
        return CmdV("str", "lit_true" if r.known else "lit_false", lit="true" if r.known else "false")
    return CmdV("str", "(if %s then lit_true else lit_false)" % r.term)


def key_arg(vs, n):
    need(len(vs) == n and all(x.ty == "str" and x.term is not None for x in vs), "map operation called with %r" % ([x.ty for x in vs],))


def m_map_insert(fn, r, vs, tf, expect):
    key_arg(vs, 2)
    c = fn.cell_of(r)
    fn.write(c, CmdV("vmap", "(<[%s := %s]> %s)" % (vs[0].term, vs[1].term, fn.cur(r).term)))
    return CmdV("discard")


def m_map_remove(fn, r, vs, tf, expect):
    key_arg(vs, 1)
    c = fn.cell_of(r)
    fn.write(c, CmdV("vmap", "(delete %s %s)" % (vs[0].term, fn.cur(r).term)))
    return CmdV("discard")


def m_map_clear(fn, r, vs, tf, expect):
    need(not vs, "clear with arguments")
    fn.write(fn.cell_of(r), CmdV("vmap", "(∅ : vmap)"))
    return CmdV("unit")


def m_map_retain(fn, r, vs, tf, expect):
    need(len(vs) == 1 and vs[0].ty == "closure", "retain of something else than a closure")
    names, body, cenv = vs[0].items
    need(len(names) == 2, "retain closure of %d parameters" % len(names))
    env2 = fn.enter(cenv)
    binders = []
    for nm in names:
        if nm == "_":
            binders.append("_")
        else:
            x = fn.fresh(nm)
            fn.declare(env2, nm, CmdV("str", x))
            binders.append(x)

    def no_return(_v):
        raise Rs2vError("return inside a closure")
    b = fn.pure(body, env2, {"ret": no_return, "ret_type": None}, "bool")
    need(b.ty == "bool" and b.term is not None, "retain closure of type %r" % (b.ty,))
    fn.write(fn.cell_of(r), CmdV("vmap", "(vmap_retain (fun %s => %s) %s)" % (" ".join(binders), b.term, fn.cur(r).term)))
    return CmdV("unit")


def m_map_get(fn, r, vs, tf, expect):
    key_arg(vs, 1)
    return CmdV(("opt", "str"), "(%s !! %s)" % (r.term, vs[0].term))


def m_map_contains_key(fn, r, vs, tf, expect):
    key_arg(vs, 1)
    return CmdV("bool", "(vmap_has %s %s)" % (r.term, vs[0].term))


def m_vec_push(fn, r, vs, tf, expect):
    need(len(vs) == 1 and vs[0].term is not None, "push of a value without a term")
    cur = fn.cur(r)
    need(cur.ty[1] in (None, vs[0].ty), "push of %r on a Vec of %r" % (vs[0].ty, cur.ty[1]))
    fn.write(fn.cell_of(r), CmdV(("list", vs[0].ty), "(%s ++ [%s])" % (cur.term, vs[0].term)))
    return CmdV("unit")


def m_stack_push(fn, r, vs, tf, expect):
    need(len(vs) == 1 and vs[0].ty == "sv" and vs[0].known is not None and vs[0].known[0] == "Any"
         and vs[0].known[1].ty == "rcmap", "push of something else than StateValue::Any(Rc<RefCell<variables>>) on the scope stack")
    fn.write(fn.cell_of(r), CmdV("stack", "(%s :: %s)" % (vs[0].known[1].term, fn.cur(r).term)))
    return CmdV("unit")


def cm_stack_pop(fn, r, vs, tf, expect, k):
    need(not vs, "pop with arguments")
    c = fn.cell_of(r)
    cur = fn.cur(r)
    old, rest = fn.fresh("old"), fn.fresh("rest")
    none_branch = k(CmdV(("opt", "sv"), "None", known=("None",)))
    saved = fn.st
    fn.write(c, CmdV("stack", rest))
    try:
        elem = CmdV("sv", None, known=("Any", CmdV("rcmap", old)))
        some_branch = k(CmdV(("opt", "sv"), None, known=("Some", elem)))
    finally:
        fn.st = saved
    return "match %s with\n| [] =>\n%s\n| %s :: %s =>\n%s\nend" % (cur.term, rs2v.cmd_indent(none_branch, 4), old, rest,
                                                              rs2v.cmd_indent(some_branch, 4))


def m_rc_borrow(fn, r, vs, tf, expect):
    need(not vs, "borrow with arguments")
    return CmdV("anyref", r.term)


def m_downcast_ref(fn, r, vs, tf, expect):
    need(not vs and tf is not None and tf.replace(" ", "") == "HashMap<String,String>", "downcast_ref::<%s>" % tf)
    return CmdV(("opt", "vmap"), None, known=("Some", CmdV("vmap", r.term)))


METHODS = {
    ("args", "len"): unary("nat", "(length %s)"), ("args", "is_empty"): unary("bool", "(vec_is_empty %s)"),
    ("list", "len"): unary("nat", "(length %s)"), ("list", "is_empty"): unary("bool", "(vec_is_empty %s)"),
    ("str", "to_string"): m_identity, ("msg", "to_string"): m_identity, ("str", "is_empty"): unary("bool", "(vec_is_empty %s)"),
    ("str", "starts_with"): str_pred("(starts_with %s %s)"), ("str", "ends_with"): str_pred("(vg_ends_with %s %s)"),
    ("str", "contains"): str_pred("(vg_contains %s %s)"),
    ("bool", "to_string"): m_bool_to_string,
    ("&vmap", "insert"): m_map_insert, ("&vmap", "remove"): m_map_remove, ("&vmap", "clear"): m_map_clear,
    ("&vmap", "retain"): m_map_retain,
    ("vmap", "get"): m_map_get, ("vmap", "contains_key"): m_map_contains_key,
    ("vmap", "keys"): unary(("iter", "str"), "(vmap_keys %s)"), ("vmap", "len"): unary("nat", "(size %s)"),
    ("vmap", "clone"): m_identity,
    ("&list", "push"): m_vec_push, ("&stack", "push"): m_stack_push,
    ("rcmap", "borrow"): m_rc_borrow, ("anyref", "downcast_ref"): m_downcast_ref,
}
CPS_METHODS = {("&stack", "pop"): cm_stack_pop}


# ---- constructors, paths ----------------------------------------------------------------------------------------------
def c_continue(fn, vs, expect):
    need(len(vs) == 1 and isinstance(vs[0].ty, tuple) and vs[0].ty[0] == "opt", "Continue of something else than an Option")
    o = vs[0]
    if o.known is not None:
        if o.known[0] == "None":
            return CmdV("cmdresult", "ONone")
        x = o.known[1]
        need(x.term is not None, "Continue(Some(value without a term))")
        if x.ty == "str":
            return CmdV("cmdresult", "(OVal %s)" % x.term)
        if x.ty == "handle":
            return CmdV("cmdresult", "(ONames %s)" % x.term)
        raise Rs2vError("Continue(Some(value of type %r))" % (x.ty,))
    need(o.ty[1] == "str" and o.term is not None, "Continue(Option of %r)" % (o.ty[1],))
    return CmdV("cmdresult", "(match %s with Some x => OVal x | None => ONone end)" % o.term)


def c_error(fn, vs, expect):
    need(len(vs) == 1 and vs[0].ty in ("str", "msg"), "Error of something else than a message")
    return CmdV("cmdresult", "OErr")


def c_sv_string(fn, vs, expect):
    need(len(vs) == 1 and vs[0].ty == "str" and vs[0].term is not None, "StateValue::String of a non-string")
    return CmdV("sv", vs[0].term, known=("String", vs[0]))


def c_sv_list(fn, vs, expect):
    x = fn.cur(vs[0]) if len(vs) == 1 else None
    need(x is not None and x.ty in (("list", "sv"), ("list", None)) and x.term is not None, "StateValue::List of something else than a Vec<StateValue>")
    return CmdV("svlist", x.term)


def c_sv_any(fn, vs, expect):
    need(len(vs) == 1 and vs[0].ty == "rcmap", "StateValue::Any of something else than Rc<RefCell<variables>>")
    return CmdV("sv", None, known=("Any", vs[0]))


def p_rc_new(fn, vs, expect):
    need(len(vs) == 1 and vs[0].ty == "refcell", "Rc::new of something else than a RefCell")
    return CmdV("rcmap", vs[0].term)


def p_refcell_new(fn, vs, expect):
    x = fn.cur(vs[0]) if len(vs) == 1 else None
    need(x is not None and x.ty == "vmap" and x.term is not None, "RefCell::new of something else than a variable map")
    return CmdV("refcell", x.term)


def p_hashmap_new(fn, vs, expect):
    need(not vs, "HashMap::new with arguments")
    return CmdV("vmap", "(∅ : vmap)")


def p_put_handle(fn, vs, expect):
    need(len(vs) == 2 and vs[0].ty == "ctxstate" and vs[1].ty == "svlist", "put_handle of something else than (context.state, a list)")
    need(fn.cfg.get("put_handle_ok"), "put_handle: utils/state.rs is not understood (%s)" % fn.cfg.get("state_why"))
    return CmdV("handle", "(merge_sort name_le %s)" % vs[1].term)


def p_get_output(fn, vs, expect):
    need(len(vs) == 1 and vs[0].ty == "args", "get_output of something else than the argument vector")
    return CmdV(("res", ("opt", "str"), "str"), "(get_output %s)" % vs[0].term)


def p_clear(fn, vs, expect):
    need(len(vs) == 2 and vs[0].ty == "str" and vs[0].term is not None and fn.cell_of(vs[1]) == "variables",
         "clear of something else than (a name, context.variables)")
    fn.write("variables", CmdV("vmap", "(scope_clear %s %s)" % (vs[0].term, fn.cur(vs[1]).term)))
    return CmdV("unit")


def make_scope_call(param):
    def h(fn, vs, expect, k):
        need(len(vs) == 3 and fn.cell_of(vs[0]) == "variables" and vs[1].ty == "ctxstate",
             "scope::push / pop of something else than (context.variables, context.state, ..)")
        cp = fn.cur(vs[2])
        need(cp.ty in (("list", "str"), ("list", None)) and cp.term is not None, "scope::push / pop with a copy list of type %r" % (cp.ty,))
        s_ok, s_err = fn.fresh("s"), fn.fresh("s")
        scrut = "%s %s %s %s" % (param, cp.term, fn.st["variables"].term, fn.st["stack"].term)
        saved = fn.st
        out = []
        for s2, known in ((s_ok, ("Ok", CmdV("unit"))), (s_err, ("Err", CmdV("msg")))):
            fn.write("variables", CmdV("vmap", "(vars %s)" % s2))
            fn.write("stack", CmdV("stack", "(stack %s)" % s2))
            try:
                out.append(k(CmdV(("res", "unit", "msg"), None, known=known)))
            finally:
                fn.st = saved
        return "match %s with\n| SPanic =>\n%s\n| SOk %s =>\n%s\n| SErr %s =>\n%s\nend" % (
            scrut, rs2v.cmd_indent(fn.panic(), 4), s_ok, rs2v.cmd_indent(out[0], 4), s_err, rs2v.cmd_indent(out[1], 4))
    return h


def p_ensure_list(fn, vs, expect):
    need(len(vs) == 2 and vs[0].ty == "str" and vs[0].lit is not None and vs[1].ty == "ctxstate", "ensure_list: arguments")
    need(fn.cfg.get("list_ok"), "ensure_list / mutate_list: utils/state.rs is not understood (%s)" % fn.cfg.get("state_why"))
    need(vs[0].lit == "scope_stack", "ensure_list of the key %r" % vs[0].lit)
    fn.write("ensured", CmdV("ghost", None, items=frozenset(fn.st["ensured"].items | {vs[0].lit})))
    return CmdV("unit")


def cp_mutate_list(fn, vs, expect, k):
    need(len(vs) == 3 and vs[0].ty == "str" and vs[0].lit is not None and vs[1].ty == "ctxstate" and vs[2].ty == "closure",
         "mutate_list: arguments")
    need(vs[0].lit in fn.st["ensured"].items, "mutate_list of the key %r without ensure_list before it" % vs[0].lit)
    names, body, cenv = vs[2].items
    need(len(names) == 1, "mutate_list handler of %d parameters" % len(names))
    env2 = fn.enter(cenv)
    fn.declare(env2, names[0], CmdV(("ref", "stack")))
    rt = ("res", ("opt", "str"), "str")

    def k_clo(v):
        need(isinstance(v.ty, tuple) and v.ty[0] == "res", "mutate_list handler with a value of type %r" % (v.ty,))
        return k(v)
    return fn.block(body, env2, k_clo, {"ret": k_clo, "ret_type": rt}, rt)


CTORS = {"CommandResult::Continue": c_continue, "CommandResult::Error": c_error, "StateValue::String": c_sv_string,
         "StateValue::List": c_sv_list, "StateValue::Any": c_sv_any}


def mac_vec(fn, args, env, k, ctx, expect):
    need(not args, "vec! with elements")
    return k(CmdV(("list", None), "[]"))


def mac_format(fn, args, env, k, ctx, expect):
    need(args and args[0][0] == "str", "format! without a literal")
    lit = args[0][1]
    return fn.seq(args[1:], env, lambda vs: k(CmdV("msg", lit=lit.split("{")[0])), ctx)


COMPARE = {
    "nat": {"<": "(Nat.ltb %s %s)", "<=": "(Nat.leb %s %s)", "==": "(Nat.eqb %s %s)"},
    "str": {"==": "(str_eqb %s %s)"},
}


def base_cfg():
    return {
        "params": {}, "fields": {}, "args_term": "args", "panic": "None", "ctors": CTORS, "paths": {}, "methods": METHODS,
        "cps_methods": CPS_METHODS, "cps_paths": {}, "macros": {"vec": mac_vec, "format": mac_format}, "casts": {},
        "compare": COMPARE, "arith": {}, "literal": {"nat": "%d%%nat"}, "types": types, "helpers": {}, "coq_type": coq_type,
        "range": {}, "cell_types": cell_types, "map_items": {"vmap": ("str", "str", "(map_to_list %s)")},
        "cells": {"variables": CmdV("vmap", "v"), "stack": CmdV("stack", "st"), "ensured": CmdV("ghost", None, items=frozenset())},
    }


# ---- utils/state.rs: the frame of the configured callees ----------------------------------------------------------------
def squash(s):
    return re.sub(r"\s+", "", re.sub(r"//[^\n]*", "", s))


def fn_text(src, name):
    ms = list(re.finditer(r"^(?:pub(?:\([a-z]+\))?\s+)?fn\s+%s\s*(?:<[^>]*>)?\s*\(" % re.escape(name), src, re.M))
    need(len(ms) == 1, "utils/state.rs: fn %s: %d definitions" % (name, len(ms)))
    i = src.index("{", src.index(")", ms[0].end()))
    # skip a `where` clause / return type: the body is the first block after the parameter list
    return rs2v.balanced_block(src, i)


def state_check(src):
    """what the configuration says about ensure_list / mutate_list / put_handle is read off utils/state.rs:
    -> (list_ok, put_handle_ok, why)"""
    why = []
    list_ok = put_ok = False
    try:
        e = squash(fn_text(src, "ensure_list"))
        need(e.count("state.insert(key.to_string(),StateValue::List(vec![]))") == 2 and "StateValue::List(_)=>()" in e
             and e.startswith("matchstate.get(key){") and e.count("state.") == 3, "ensure_list: unexpected shape")
        m = squash(fn_text(src, "mutate_list"))
        need(m.startswith("matchstate.remove(&key){Some(state_value)=>matchstate_value{StateValue::List(mutlist)=>{"
                          "letresult=handler(&mutlist);state.insert(key,StateValue::List(list));result}"),
             "mutate_list: the List arm is not `let result = handler(&mut list); state.insert(key, StateValue::List(list)); result`")
        list_ok = True
    except Exception as ex:  # noqa: BLE001
        why.append(str(ex))
    try:
        for f in ("put_handle", "return_handle"):
            b = re.sub(r"//[^\n]*", "", fn_text(src, f))
            uses = len(re.findall(r"\bstate\b", b))
            ok = len(re.findall(r"return_handle\(\s*state\s*,", b)) + len(re.findall(r"get_handles_sub_state\(\s*state\s*\)", b))
            need(uses == ok and uses > 0, "%s: `state` is used outside the handle table" % f)
        g = squash(fn_text(src, "get_handles_sub_state"))
        need(g == "get_sub_state(HANDLE_SUB_STATE_KEY.to_string(),state)", "get_handles_sub_state: unexpected shape")
        need(re.search(r'static\s+HANDLE_SUB_STATE_KEY\s*:\s*&str\s*=\s*"handles"\s*;', src) is not None,
             "HANDLE_SUB_STATE_KEY is not \"handles\"")
        put_ok = True
    except Exception as ex:  # noqa: BLE001
        why.append(str(ex))
    return list_ok, put_ok, "; ".join(why)


# ---- translation ------------------------------------------------------------------------------------------------------
def finish_cmd(fn, v):
    need(v.ty == "cmdresult" and v.term is not None, "`run` ends with a value of type %r" % (v.ty,))
    return "Some (%s, MS %s %s)" % (v.term, fn.st["variables"].term, fn.st["stack"].term)


def finish_scope(fn, v):
    need(isinstance(v.ty, tuple) and v.ty[0] == "res" and v.known is not None and v.known[0] in ("Ok", "Err"),
         "the function ends with a value of type %r whose constructor is not known" % (v.ty,))
    return "%s (MS %s %s)" % ("SOk" if v.known[0] == "Ok" else "SErr", fn.st["variables"].term, fn.st["stack"].term)


def translate_cmd(src, name, extra, state_info):
    receiver, params, body = rs2v.parse_var_run(src)
    need(receiver == "ref" and len(params) == 1 and params[0][1].replace(" ", "") == "CommandInvocationContext",
         "run: unexpected parameters")
    ctx_name = params[0][0]
    cfg = base_cfg()
    cfg["list_ok"], cfg["put_handle_ok"], cfg["state_why"] = state_info
    cfg["fields"] = {(ctx_name, "arguments"): CmdV("args", "args"), (ctx_name, "variables"): CmdV(("ref", "variables")),
                     (ctx_name, "state"): CmdV("ctxstate")}
    cfg["finish"] = finish_cmd
    paths = {"HashMap::new": p_hashmap_new, "put_handle": p_put_handle}
    free = [h for h in rs2v.cmd_free_fns(src) if h != "create"]
    if name == "set":
        need(free == ["get_output"], "set: the free functions of the file are %r" % (free,))
        ps, rt, _b = rs2v.parse_var_fn(src, "get_output")
        need(len(ps) == 1 and ps[0][1].replace(" ", "") == "&Vec<String>" and rt is not None
             and rt.replace(" ", "") == "Result<Option<String>,String>", "get_output: signature")
        paths["get_output"] = p_get_output
    else:
        need(not free, "free functions %r next to run" % (free,))
    if name == "clear_scope":
        need(re.search(r"^use\s+crate::types::scope::clear\s*;", src, re.M) is not None, "`clear` is not crate::types::scope::clear")
        paths["clear"] = p_clear
    if name in ("scope_push_stack", "scope_pop_stack"):
        need(re.search(r"^use\s+crate::utils::\{[^}]*\bscope\b[^}]*\}\s*;|^use\s+crate::utils::scope\s*;", src, re.M) is not None,
             "`scope` is not crate::utils::scope")
        which = "push" if name == "scope_push_stack" else "pop"
        cfg["cps_paths"] = {"scope::" + which: make_scope_call("scope_" + which)}
    cfg["paths"] = paths
    fn = rs2v.FnVar(cfg)
    term = fn.function(body, "cmdresult")
    return "Definition gen_cmd_%s %s%s : %s :=\n%s.\n" % (name, (extra + " ") if extra else "", BINDERS, RTYPE, rs2v.cmd_indent(term))


def translate_scope(src, name, state_info):
    params, ret, body = rs2v.parse_var_fn(src, name)
    need(len(params) == 3 and [p[1].replace(" ", "") for p in params] ==
         ["&mutHashMap<String,String>", "&mutHashMap<String,StateValue>", "&[String]"] and ret is not None
         and ret.replace(" ", "") == "Result<(),String>", "%s: signature" % name)
    cfg = base_cfg()
    cfg["list_ok"], cfg["put_handle_ok"], cfg["state_why"] = state_info
    cfg["params"] = {params[0][0]: CmdV(("ref", "variables")), params[1][0]: CmdV("ctxstate"),
                     params[2][0]: CmdV(("list", "str"), "copy")}
    for sname, (sty, sval) in rs2v.read_statics(src).items():
        if sty == rs2v.Ty.STR and sname not in cfg["params"]:
            cfg["params"][sname] = CmdV("str", rs2v.coq_str_lit(sval), lit=sval)
    need(re.search(r"^use\s+crate::utils::state::\{[^}]*\}\s*;", src, re.M) is not None and
         all(re.search(r"^use\s+crate::utils::state::\{[^}]*\b%s\b[^}]*\}\s*;" % f, src, re.M) for f in ("ensure_list", "mutate_list")),
         "ensure_list / mutate_list are not crate::utils::state's")
    cfg["finish"] = finish_scope
    cfg["paths"] = {"HashMap::new": p_hashmap_new, "Rc::new": p_rc_new, "RefCell::new": p_refcell_new, "ensure_list": p_ensure_list}
    cfg["cps_paths"] = {"mutate_list": cp_mutate_list}
    fn = rs2v.FnVar(cfg)
    term = fn.function(body, types(ret))
    return "Definition gen_scope_%s %s : %s :=\n%s.\n" % (name, SBINDERS, STYPE, rs2v.cmd_indent(term))


def clean(e):
    return ((type(e).__name__ + ": ") if not isinstance(e, Rs2vError) else "") + str(e).replace("*)", "* )").replace("(*", "( *")


def generate(api, force_stub=False):
    text = HEAD
    rels = []
    try:
        state_info = state_check(api.read(REL_STATE))
    except Exception as e:  # noqa: BLE001
        state_info = (False, False, clean(e))
    for name in SCOPE_FNS:
        flag = "gen_scope_%s_understood" % name
        try:
            if force_stub:
                raise Rs2vError("stub requested (%s)" % force_stub if isinstance(force_stub, str) else "stub requested")
            body = translate_scope(api.read(REL_SCOPE), name, state_info)
            text += "Definition %s : bool := true.\n%s" % (flag, body)
        except Exception as e:  # noqa: BLE001  anything unexpected means: not understood (never a crash, never a guess)
            text += ("(* NOT UNDERSTOOD scope_%s: %s *)\nDefinition %s : bool := false.\n"
                     "Definition gen_scope_%s %s : %s := SPanic.\n" % (name, clean(e), flag, name, SBINDERS, STYPE))
    for name, rel, extra in COMMANDS:
        flag = "gen_cmd_%s_understood" % name
        rels.append(rel)
        try:
            if force_stub:
                raise Rs2vError("stub requested (%s)" % force_stub if isinstance(force_stub, str) else "stub requested")
            body = translate_cmd(api.read(STD + rel), name, extra, state_info)
            text += "Definition %s : bool := true.\n%s" % (flag, body)
        except Exception as e:  # noqa: BLE001
            text += ("(* NOT UNDERSTOOD %s: %s *)\nDefinition %s : bool := false.\n"
                     "Definition gen_cmd_%s %s%s : %s := None.\n" % (name, clean(e), flag, name, (extra + " ") if extra else "", BINDERS, RTYPE))
    text += "Definition gen_var_understood : bool := true.\n"
    api.emit("GenVarFn.v", text, "%s (fn push, fn pop) and %s{%s} (fn run of impl Command for CommandImpl) by lib/rs2v.py"
             % (REL_SCOPE, STD, ", ".join(rels)))
