"""findcmds_gen — TRANSLATE `get_start`, `get_end` and `find_commands` of
/repo/duckscript_sdk/src/utils/instruction_query.rs into Gallina on every run (lib/rs2v.py, classes PFc / FnFc)
-> coq/generated/GenFindCmdsFn.v:

  gen_get_start            `match start { Some(value) => value, None => 0 }`
  gen_get_end              `match end { Some(value) => min(instructions.len(), value), None => instructions.len() }`
  gen_find_commands_body   one iteration of `for line in start_index..end_index { .. }` as a step function over the state
                           record of the hand model FlowScanIx.v (positions.middle, positions.end, skip_to, block_delta) and
                           the line number, result type FlowScanIx.xstep (XNext state | XRet result)
  gen_find_commands_go     the function body with the RECURSIVE call `find_commands(.., Some(line + 1), Some(end_index), ..)`
                           open (a parameter `rec`)
  gen_find_commands        the recursion closed by explicit fuel, exactly as FlowScanIx.find_commands_fuel does

theories/FindCmdsGenTie.v proves them EQUAL, for all inputs, to FlowScanIx.get_start_ix / get_end_ix / body_ix / go_ix /
find_commands_fuel; props/SrcFindCmds.v holds the wrappers.  Tie key "findcmds" (C04, C05; no-panic content: C07).

WHAT COMES FROM THE SOURCE: every test and its position in the `else if` chain, which name list each `contains` looks in,
every assignment, the literals 0 / 1, `line >= skip_to`, `instructions[line]`, the two matches that reach the command name,
`positions.middle.push(line)`, `positions.end = line`, the early `return Ok(Some(positions))`, the arguments of the recursive
call (`Some(line + 1)`, `Some(end_index)`; the other seven must be the function's own parameters, unchanged), what happens
with its result (`skip_to = sub_positions.end + 1`, the `None` arm, the error handed on), the `allow_recursive` test, the
bounds of the loop, the initial values of the locals, the error TEXTS (mapped to the model's error kinds by the table
below; an unknown text is refused), the field lists of `Positions`, `Instruction`, `ScriptInstruction`,
`PreProcessInstruction` and the variants of `InstructionType` (duckscript/src/types/instruction.rs; a change is refused).
WHAT COMES FROM THIS CONFIGURATION (no Rust counterpart, or a representation choice of the hand model):
  * the Coq types: `instructions : list Parser.instr` (Instruction = the parser model's record, `instruction_type` is its
    projection i_type; `meta_info` is not readable here), InstructionType::{Empty, PreProcess(p), Script(s)} spelled
    IEmpty / IPre command args / IScript label output command args (Parser.itype; the payload struct's fields are the
    constructor's arguments); the five name lists bundled as ONE parameter `T : FlowTables.tables` (start_names = starts T,
    middle_names = middles T, end_names = ends T, start_blocks = sblocks T, end_blocks = eblocks T); `v.contains(x)` on a
    Vec<String> is Base.str_in x v; `Positions` is FlowScanIx.positions (mkPos / p_middle / p_end); the loop state packed
    into FlowScanIx.xst (mkX (mkPos middle end) skip_to block_delta); step type xstep, result type xres;
  * `block_delta` is an i32 (Rust's default for an unconstrained integer literal; a type annotation other than i32 is
    refused) whose `+` / `-` go through CondIx.i32_result under the profile flag `checked` (false: wrapping release build,
    true: overflow-checks panic); `line`, `skip_to`, `start_index`, `end_index`, `positions.end` are usize on nat
    (bounded by the vector length, cannot overflow);
  * `instructions[line]` is nth_error (None -> XPanic); `for line in a..b` is FlowScanIx.for_range with b - a iterations
    (truncated subtraction = the empty Range when a >= b);
  * the recursive call is the parameter `rec start end`; `gen_find_commands` closes it with fuel (XFuel when exhausted);
    the model-only outcomes XFuel / XPanic of a recursive call are returned as they are;
  * `min` is Nat.min; `end` (a Coq keyword) is spelled `end_`;
  * error texts -> kinds: see ERR_TEXTS.

One flag (`gen_find_commands_understood`) covers the three functions: when the translator does not understand one of them
(or one of the type declarations) all three get a type-correct stub, the tie theorems (stated under `.. = true`) stay
provable and lib/vlib.py reports the tie as inactive."""
import os
import re
import sys

sys.path.insert(0, os.path.dirname(os.path.dirname(os.path.abspath(__file__))))
import rs2v  # noqa: E402
from rs2v import Ty, Rs2vError, T_opt, T_list, T_struct, POISON  # noqa: E402

REL = "duckscript_sdk/src/utils/instruction_query.rs"
REL_T = "duckscript/src/types/instruction.rs"
HEAD = "Require Import DS.Parser DS.FlowTables DS.CondIx DS.FlowScanIx.\nLocal Open Scope bool_scope.\n"

T_ONAT = T_opt(Ty.NAT)
T_OSTR = T_opt(Ty.STR)
T_LSTR = T_list(Ty.STR)
T_LNAT = T_list(Ty.NAT)
T_INSTRS = T_list(T_struct("Instruction"))
ERR_TEXTS = {
    "No command names/aliases provided for search.": "XENoNames",
    "Missing end of structure for start names: {:?} start: {} end: {}": "XEMissing",
    "Unsupported nested structure: {} found but end of structure not found.": "XENestedNoEnd",
    "Unsupported nested structure: {} found.": "XENested",
}
NAME_LISTS = {"start_names": "(starts T)", "middle_names": "(middles T)", "end_names": "(ends T)",
              "start_blocks": "(sblocks T)", "end_blocks": "(eblocks T)"}
FC_PARAMS = ["instructions", "start_names", "middle_names", "end_names", "start", "end", "allow_recursive",
             "start_blocks", "end_blocks"]
SPELL = {"is_none": "(match %s with Some _ => false | None => true end)",
         "is_some": "(match %s with Some _ => true | None => false end)",
         "is_empty": "(match %s with [] => true | _ :: _ => false end)",
         "unwrap_or": "(match %s with Some unwrap_or_v => unwrap_or_v | None => %s end)", "slice": "slice %s %s %s"}
STRUCTS = {
    "Positions": {"fields": [("middle", T_LNAT), ("end", Ty.NAT)], "mk": "(mkPos %s %s)",
                  "proj": {"middle": "(p_middle %s)", "end": "(p_end %s)"}},
    "Instruction": {"fields": [("instruction_type", "InstructionType")], "proj": {"instruction_type": "(i_type %s)"}},
    "ScriptInstruction": {"fields": [("label", T_OSTR), ("output", T_OSTR), ("command", T_OSTR), ("arguments", T_opt(T_LSTR))]},
    "PreProcessInstruction": {"fields": [("command", T_OSTR), ("arguments", T_opt(T_LSTR))]},
}
DATA_ENUMS = {"InstructionType": [{"rust": "Empty", "coq": "IEmpty", "payload": None},
                                  {"rust": "PreProcess", "coq": "IPre", "payload": "PreProcessInstruction"},
                                  {"rust": "Script", "coq": "IScript", "payload": "ScriptInstruction"}]}
# the declarations the representation above relies on (file, item regex, expected normalised body)
DECLS = [
    (REL, "struct", "Positions", "middle:Vec<usize>,end:usize"),
    (REL_T, "struct", "Instruction", "meta_info:InstructionMetaInfo,instruction_type:InstructionType"),
    (REL_T, "struct", "ScriptInstruction",
     "label:Option<String>,output:Option<String>,command:Option<String>,arguments:Option<Vec<String>>"),
    (REL_T, "struct", "PreProcessInstruction", "command:Option<String>,arguments:Option<Vec<String>>"),
    (REL_T, "enum", "InstructionType", "Empty,PreProcess(PreProcessInstruction),Script(ScriptInstruction)"),
]
RES_FC = [{"coq": "XOk", "rust": "Ok", "binds": [T_opt(T_struct("Positions"))]},
          {"coq": "XErr", "rust": "Err", "binds": ["error"]},
          {"coq": "XFuel", "kind": "ret", "term": "XFuel"},
          {"coq": "XPanic", "kind": "panic"}]
STATE = ["positions.middle", "positions.end", "skip_to", "block_delta"]
LOCALS = {"block_delta": Ty.INT_Z, "skip_to": Ty.NAT, "start_index": Ty.NAT, "end_index": Ty.NAT}
ANNOT = {"block_delta": ["i32"], "skip_to": ["usize"], "start_index": ["usize"], "end_index": ["usize"],
         "positions": ["Positions"], "instruction": ["&Instruction"], "line": ["usize"]}

SIG = ("(checked : bool) (T : tables) (rec : option nat -> option nat -> xres) (instructions : list instr) "
       "(allow_recursive : bool) (start end_ : option nat)")
ARGS = "checked T rec instructions allow_recursive start end_"
STUB = ("Definition gen_get_start (start : option nat) : nat := 0%nat.\n"
        "Definition gen_get_end (end_ : option nat) (instructions : list instr) : nat := 0%nat.\n"
        "Definition gen_find_commands_body " + SIG + " (st : xst) (line : nat) : xstep := XRet XPanic.\n"
        "Definition gen_find_commands_go " + SIG + " : xres := XPanic.\n")
# the recursion of find_commands on the rest of the vector, closed by fuel as in FlowScanIx.find_commands_fuel (configuration)
FIX = ("Fixpoint gen_find_commands (checked : bool) (T : tables) (fuel : nat) (instructions : list instr) "
       "(allow_recursive : bool) (start end_ : option nat) {struct fuel} : xres :=\n"
       "  match fuel with\n  | O => XFuel\n"
       "  | S fuel' => gen_find_commands_go checked T (gen_find_commands checked T fuel' instructions allow_recursive) "
       "instructions allow_recursive start end_\n  end.\n")


def need(cond, what):
    if not cond:
        raise Rs2vError(what)


def strip_ref(e):
    while e[0] in ("ref", "refmut"):
        e = e[1]
    return e


def check_decls(api):
    for rel, kind, name, want in DECLS:
        src = api.read(rel)
        m = re.search(r"\b%s\s+%s\s*\{(.*?)\}" % (kind, name), src, re.S)
        need(m is not None, "%s: %s %s not found" % (rel, kind, name))
        body = re.sub(r"//[^\n]*", "", m.group(1))
        body = re.sub(r"#\[[^\]]*\]", "", body)
        body = re.sub(r"\bpub(\([a-z]+\))?\s+", "", body)
        body = re.sub(r"\s+", "", body).rstrip(",")
        need(body == want, "%s: %s %s is now {%s}" % (rel, kind, name, body))


def is_param(fn, e, env, name):
    """e is the function's own parameter `name`, not shadowed"""
    e = strip_ref(e)
    return e == ("path", [name]) and name in env and env[name] == fn.cfg["params"].get(name)


def base_cfg(coq_name):
    return {
        "coq_name": coq_name, "locals": dict(LOCALS), "annot": ANNOT, "statics": {}, "structs": STRUCTS,
        "data_enums": DATA_ENUMS, "enums": {}, "int_overflow": {Ty.INT_Z: "(i32_result checked %s)"}, "spell": SPELL,
        "err_texts": ERR_TEXTS, "res_shapes": {"fc": RES_FC},
        "res": {"ok": "XOk %s", "err": "XErr %s", "panic": "XPanic",
                "consume": "match %(drive)s with\n| XNext %(pat)s =>\n%(after)s\n| XRet r => r\nend"},
        "step": {"type": "xstep", "cont": "XNext %s", "brk": None, "fail": "XRet (XErr %s)", "ret": "XRet (%s)",
                 "panic": "XRet XPanic"},
    }


def h_min(fn, args, env):
    need(len(args) == 2, "min arguments")
    for a in args:
        need(a[0] == "num" or fn.type_of(a, env) == Ty.NAT, "min on %s" % (fn.type_of(a, env),))
    return "(Nat.min %s %s)" % (fn.num(args[0], Ty.NAT, env), fn.num(args[1], Ty.NAT, env))


def translate_get_start(src):
    params, body = rs2v.parse_fn_fc(src, "get_start")
    need([p for p, _m in params] == ["start"], "get_start: parameters %s" % [p for p, _m in params])
    cfg = base_cfg("gen_get_start")
    cfg["params"] = {"start": (T_ONAT, "start")}
    cfg["value_result"] = Ty.NAT
    fn = rs2v.FnFc(cfg)
    term = fn.function(params, body)
    need(not fn.loops and POISON not in term, "get_start: unexpected shape")
    return "Definition gen_get_start (start : option nat) : nat :=\n%s.\n" % term


def translate_get_end(src):
    params, body = rs2v.parse_fn_fc(src, "get_end")
    need([p for p, _m in params] == ["end", "instructions"], "get_end: parameters %s" % [p for p, _m in params])
    cfg = base_cfg("gen_get_end")
    cfg["params"] = {"end": (T_ONAT, "end_"), "instructions": (T_INSTRS, "instructions")}
    cfg["value_result"] = Ty.NAT
    cfg["pure_helpers"] = {"min": {"term": h_min, "ret": Ty.NAT}, "std::cmp::min": {"term": h_min, "ret": Ty.NAT},
                           "cmp::min": {"term": h_min, "ret": Ty.NAT}}
    fn = rs2v.FnFc(cfg)
    term = fn.function(params, body)
    need(not fn.loops and POISON not in term, "get_end: unexpected shape")
    return "Definition gen_get_end (end_ : option nat) (instructions : list instr) : nat :=\n%s.\n" % term


def translate_find_commands(src):
    rust = "find_commands"
    params, body = rs2v.parse_fn_fc(src, rust)
    need([p for p, _m in params] == FC_PARAMS, "%s: parameters %s" % (rust, [p for p, _m in params]))
    need(not any(m for _p, m in params), "%s: a &mut parameter" % rust)

    def h_get_start(fn, args, env):
        need(len(args) == 1 and fn.type_of(args[0], env) == T_ONAT, "get_start arguments")
        return "(gen_get_start %s)" % fn.ex(args[0], env)

    def h_get_end(fn, args, env):
        need(len(args) == 2 and fn.type_of(args[0], env) == T_ONAT and is_param(fn, args[1], env, "instructions"),
             "get_end arguments")
        return "(gen_get_end %s instructions)" % fn.ex(args[0], env)

    def m_contains(fn, recv, args, env):
        r = strip_ref(recv)
        need(r[0] == "path" and len(r[1]) == 1 and r[1][0] in NAME_LISTS and is_param(fn, r, env, r[1][0]),
             "contains on %r" % (recv,))
        need(len(args) == 1 and fn.type_of(args[0], env) == Ty.STR, "contains arguments")
        return "(str_in %s %s)" % (fn.ex(args[0], env), NAME_LISTS[r[1][0]])

    def h_rec(fn, args, env):
        need(len(args) == len(FC_PARAMS), "%s: %d arguments in the recursive call" % (rust, len(args)))
        for i, name in enumerate(FC_PARAMS):
            if name in ("start", "end"):
                need(fn.type_of(args[i], env) in (T_ONAT, None), "recursive call: %s of type %s" % (name, fn.type_of(args[i], env)))
            else:
                need(is_param(fn, args[i], env, name), "recursive call: the argument for %s is not the parameter itself" % name)
        return "(rec %s %s)" % (fn.ex(args[4], env), fn.ex(args[5], env))

    cfg = base_cfg("gen_find_commands")
    cfg["params"] = {"instructions": (T_INSTRS, "instructions"), "start": (T_ONAT, "start"), "end": (T_ONAT, "end_"),
                     "allow_recursive": (Ty.BOOL, "allow_recursive")}
    for n, t in NAME_LISTS.items():
        cfg["params"][n] = (T_LSTR, t)
    cfg["methods"] = {"contains": m_contains}
    cfg["method_types"] = {"contains": Ty.BOOL}
    cfg["pure_helpers"] = {"get_start": {"term": h_get_start, "ret": Ty.NAT}, "get_end": {"term": h_get_end, "ret": Ty.NAT}}
    cfg["calls"] = {rust: {"call": h_rec, "res": "fc"}}
    cfg["loop"] = {"kind": "range", "state": STATE, "state_type": "xst", "pack": "(mkX (mkPos %s %s) %s %s)", "driver": "for_range"}
    cfg["fn_params"], cfg["fn_args"] = SIG, ARGS
    fn = rs2v.FnFc(cfg)
    term = fn.function(params, body)
    need(len(fn.loops) == 1, "%s: expected exactly one loop, found %d" % (rust, len(fn.loops)))
    need(POISON not in term, "%s: a value that is not available is used" % rust)
    return "".join(t for _n, t in fn.loops) + "Definition gen_find_commands_go %s : xres :=\n%s.\n" % (SIG, term)


def why(e):
    return (type(e).__name__ + ": " if not isinstance(e, Rs2vError) else "") + str(e).replace("*)", "* )").replace("(*", "( *")


def generate(api, force_stub=False):
    """force_stub (lib/gen_from_source.py): the translation written a moment ago did not type-check -> the stub with that
    reason ('not understood', never a broken build)"""
    text = HEAD
    try:
        need(not force_stub, "translation rejected: %s" % force_stub)
        check_decls(api)
        src = api.read(REL)
        body = translate_get_start(src) + translate_get_end(src) + translate_find_commands(src)
        text += "Definition gen_find_commands_understood : bool := true.\n" + body
    except Exception as e:  # noqa: BLE001  anything unexpected means: not understood (never a crash, never a guess)
        text += "(* NOT UNDERSTOOD: %s *)\nDefinition gen_find_commands_understood : bool := false.\n%s" % (why(e), STUB)
    text += FIX
    api.emit("GenFindCmdsFn.v", text, REL + " (fn get_start, fn get_end, fn find_commands) by lib/rs2v.py")
