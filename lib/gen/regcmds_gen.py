"""regcmds_gen — TRANSLATE the `run` functions of the script-level registry commands of the SDK into Gallina on every run
(lib/rs2v.py, classes PFlowfn / FnFlowfn) -> coq/generated/GenRegcmdsFn.v:

    is_command_defined   sdk/std/is_command_defined/mod.rs        gen_cmd_is_command_defined
    remove_command       sdk/std/lib/command/remove/mod.rs        gen_cmd_remove_command
    unalias              sdk/std/lib/alias/unset/mod.rs           gen_cmd_unalias
    alias                sdk/std/lib/alias/set/mod.rs             gen_cmd_alias      (create_alias_command is INLINED at its call)

each  gen_cmd_<name> (args : list name) (s : sreg) : option (sreg * sres)   with its own flag gen_cmd_<name>_understood, over the
SAME state and result types as the hand model theories/Registry.v (sreg / sres; None = the command panicked).
theories/RegcmdsGenTie.v proves gen_cmd_<name> args s = Some (sstep s (S<Name> args)) for ALL argument vectors and ALL states
(props/SrcRegcmds.v, tie key "regcmds"), so the C15_script_* theorems about Registry.sstep are about what the source says now,
and no `arguments[i]` / `arguments[1..]` of these commands can panic (C07).

WHAT COMES FROM THE SOURCE (re-read on every run)
  the whole control structure of each `run` (and of create_alias_command): the argument-count test (operator and bound), which
  argument every operation reads (`context.arguments[i]` is `match nth_error args i with None => None (* panic *) | ..`,
  `context.arguments[1..]` is `match vec_slice_from args 1 with None => None | ..`), which registry / sub-state operation is
  applied to which key in which ORDER (the state each later operation sees is the one the earlier ones left: a sub-state
  insertion before a refused `set` would be visible in the refused branch), which branch updates what, which result
  constructor each path ends in and whether it carries "true" / "false" / `<bool>.to_string()`; for alias: the declaration
  of AliasCommand (struct fields, `name()` must be `self.name.clone()`, no `aliases()` so the trait default of
  duckscript/src/types/command.rs — checked to be `vec![]` — applies), the struct literal handed to `commands.set`, the
  match on its result.

WHAT COMES FROM THIS CONFIGURATION (the abstraction Registry.v makes; nothing else)
  * `context.commands` is the registry `sr_reg s` (Registry.reg).  Its methods are calls of the HAND MODEL functions, each
    proved equal to the translation of `impl Commands` by the tie "registry" (props/SrcRegistry.v):
      commands.exists(k) = reg_exists r k;   commands.remove(k) = reg_remove r k (the registry it leaves AND the bool);
      commands.set(Box::new(c)) = RegistryGenLib.set_outcome r (reg_set r c.name() c.aliases()) — the registry as `set`
      leaves it on the accepted and on the refused path, and None / Some error;
    `commands.aliases` / `commands.commands` are the pub fields `als r` / `cmds r` (contains_key = Rs2vMapLib.map_has, remove =
    delete; of the entry `commands.commands.remove(k)` returns only is_some() / is_none() is understood);
  * a command value is what the registry can observe of it (Registry.v): (name(), aliases()).  AliasCommand { name, arguments }
    is (name, []); its `arguments` and its `run` (eval of the stored text) are GHOST for C15;
  * get_sub_state(ALIAS_STATE_KEY.to_string(), context.state) — ALIAS_STATE_KEY must be the static of sdk/std/lib/alias/mod.rs,
    imported by name — is the model's `sr_alias s`, a SET of names: contains_key = membership, insert(k, StateValue::Boolean(_))
    = {[k]} ∪ _, remove(k) = _ ∖ {[k]}.  The stored VALUE (Boolean(true)) is ghost: no command reads it.  That get_sub_state
    creates the sub-map when it is missing is not modelled (an absent map and an empty set are identified); utils/state.rs
    get_sub_state / ensure_sub_state are checked to touch only the entry under the given key (frame_check);
  * CommandResult::Continue(Some("true")) / (Some("false")) / (Some(b.to_string())) are SOut true / SOut false / SOut b;
    CommandResult::Error(_) is SErr: error TEXTS are erased (sres has one error);
  * usize on nat (`len()`), names of the parameters, the types of the generated functions; `sr_fn s` is not reachable from
    these commands and is handed on unchanged.

The registration done by `fn` (FunctionCommand::run: store_fn_info_in_state, then commands.set; Registry.sstep's SFn arm) is
NOT translated here: the tie "flowfn" translates FunctionCommand::run over FlowFn.v's state, where `commands.set` is
configured to succeed; the SFn arm stays tied by C15's correspondence run only.

Anything not understood (every exception) -> `gen_cmd_<name>_understood := false` and a type-correct stub (None)."""
import os
import re
import sys

sys.path.insert(0, os.path.dirname(os.path.dirname(os.path.abspath(__file__))))
import rs2v  # noqa: E402
from rs2v import Rs2vError, CmdV  # noqa: E402

STD = "duckscript_sdk/src/sdk/std/"
REL_ALIAS_MOD = STD + "lib/alias/mod.rs"
REL_STATE = "duckscript_sdk/src/utils/state.rs"
REL_COMMAND = "duckscript/src/types/command.rs"
HEAD = ("From stdpp Require Import gmap list.\n"
        "Require Import DS.Registry DS.RegistryGenLib DS.Rs2vMapLib DS.RegcmdsGenLib.\n"
        "Local Open Scope bool_scope.\n")
BINDERS = "(args : list name) (s : sreg)"
RTYPE = "option (sreg * sres)"
T_CTX = "CommandInvocationContext"
KEY_STATIC = "ALIAS_STATE_KEY"
KEY_USE = r"^use\s+crate::sdk::std::lib::alias::ALIAS_STATE_KEY\s*;"

# (name, source file, uses the alias sub-state, inlined helper)
COMMANDS = [
    ("is_command_defined", "is_command_defined/mod.rs", False, None),
    ("remove_command", "lib/command/remove/mod.rs", False, None),
    ("unalias", "lib/alias/unset/mod.rs", True, None),
    ("alias", "lib/alias/set/mod.rs", True, "create_alias_command"),
]

COQ_TYPES = {"str": "name", "bool": "bool", "nat": "nat", "reg": "reg", "nameset": "gset name"}


def need(cond, what):
    if not cond:
        raise Rs2vError(what)


def clean(e):
    return ((type(e).__name__ + ": ") if not isinstance(e, Rs2vError) else "") + str(e).replace("*)", "* )").replace("(*", "( *")


def squash(s):
    return re.sub(r"\s+", "", re.sub(r"//[^\n]*", "", s))


# ---- types -------------------------------------------------------------------------------------------------------------
def types(text):
    t = text.replace(" ", "")
    simple = {"usize": "nat", "bool": "bool", "String": "str", "&str": "str", "&String": "str", "str": "str", "()": "unit",
              "CommandResult": "cmdresult", "StateValue": "sv"}
    if t in simple:
        return simple[t]
    if t.startswith("Vec<") and t.endswith(">"):
        inner = t[4:-1]
        return ("list", None if inner == "_" else types(inner))
    if t.startswith("Option<") and t.endswith(">"):
        return ("opt", types(t[7:-1]))
    if t.startswith("Result<") and t.endswith(">"):
        inner, depth = t[7:-1], 0
        for i, c in enumerate(inner):
            if c in "<(":
                depth += 1
            elif c in ">)":
                depth -= 1
            elif c == "," and depth == 0:
                return ("res", types(inner[:i]), types(inner[i + 1:]))
    raise Rs2vError("type %s" % text)


def coq_type(ty):
    if ty in COQ_TYPES:
        return COQ_TYPES[ty]
    if isinstance(ty, tuple) and ty[0] in ("list", "iter") and ty[1] is not None:
        return "list %s" % coq_type(ty[1])
    raise Rs2vError("no Coq type for %r" % (ty,))


def cell_types(ty):
    return False


def key_of(vs, n, what):
    need(len(vs) >= n and all(v.ty == "str" and v.term is not None for v in vs[:n]), "%s called with %r" % (what, [v.ty for v in vs]))


# ---- the registry (context.commands) -----------------------------------------------------------------------------------
def reg_cell(fn, r, what):
    need(fn.cell_of(r) == "reg", "%s on something else than the command registry" % what)
    return fn.st["reg"].term


def m_reg_exists(fn, r, vs, tf, expect):
    R = reg_cell(fn, r, "exists")
    key_of(vs, 1, "commands.exists")
    need(len(vs) == 1, "commands.exists: arguments")
    return CmdV("bool", "(reg_exists %s %s)" % (R, vs[0].term))


def cm_reg_remove(fn, r, vs, tf, expect, k):
    R = reg_cell(fn, r, "remove")
    key_of(vs, 1, "commands.remove")
    need(len(vs) == 1, "commands.remove: arguments")
    r2, b = fn.fresh("reg"), fn.fresh("removed")
    fn.write("reg", CmdV("reg", r2))
    body = k(CmdV("bool", b))
    return "match reg_remove %s %s with\n| (%s, %s) =>\n%s\nend" % (R, vs[0].term, r2, b, rs2v.cmd_indent(body, 4))


def cm_reg_set(fn, r, vs, tf, expect, k):
    R = reg_cell(fn, r, "set")
    need(len(vs) == 1 and vs[0].ty == "cmdvalue", "commands.set of something that is not a known command value")
    n, decl = vs[0].items["name"], vs[0].items["aliases"]
    need(n.ty == "str" and n.term is not None, "commands.set: the name of the command")
    r2, r3, e = fn.fresh("reg"), fn.fresh("reg"), fn.fresh("error")
    saved = fn.st
    fn.write("reg", CmdV("reg", r2))
    ok = k(CmdV(("res", "unit", "seterr"), None, known=("Ok", CmdV("unit"))))
    fn.st = saved
    fn.write("reg", CmdV("reg", r3))
    bad = k(CmdV(("res", "unit", "seterr"), None, known=("Err", CmdV("seterr", e))))
    return ("match set_outcome %s (reg_set %s %s %s) with\n| (%s, None) =>\n%s\n| (%s, Some %s) =>\n%s\nend"
            % (R, R, n.term, decl, r2, rs2v.cmd_indent(ok, 4), r3, e, rs2v.cmd_indent(bad, 4)))


def m_aliases_contains_key(fn, r, vs, tf, expect):
    key_of(vs, 1, "commands.aliases.contains_key")
    need(len(vs) == 1, "contains_key: arguments")
    return CmdV("bool", "(map_has (als %s) %s)" % (fn.st["reg"].term, vs[0].term))


def m_aliases_remove(fn, r, vs, tf, expect):
    key_of(vs, 1, "commands.aliases.remove")
    need(len(vs) == 1, "remove: arguments")
    R = fn.st["reg"].term
    fn.write("reg", CmdV("reg", "(Reg (cmds %s) (delete %s (als %s)))" % (R, vs[0].term, R)))
    return CmdV("discard")


def m_cmds_contains_key(fn, r, vs, tf, expect):
    key_of(vs, 1, "commands.commands.contains_key")
    need(len(vs) == 1, "contains_key: arguments")
    return CmdV("bool", "(map_has (cmds %s) %s)" % (fn.st["reg"].term, vs[0].term))


def m_cmds_remove(fn, r, vs, tf, expect):
    """HashMap::remove on the pub field `commands`: the entry that was there (only `.is_some()` / `.is_none()` of it is understood)"""
    key_of(vs, 1, "commands.commands.remove")
    need(len(vs) == 1, "remove: arguments")
    R = fn.st["reg"].term
    fn.write("reg", CmdV("reg", "(Reg (delete %s (cmds %s)) (als %s))" % (vs[0].term, R, R)))
    return CmdV(("opt", "stored"), "(cmds %s !! %s)" % (R, vs[0].term))


def m_opt_is_some(fn, r, vs, tf, expect):
    need(not vs and r.term is not None, "is_some: arguments")
    return CmdV("bool", "(opt_is_some %s)" % r.term)


def m_opt_is_none(fn, r, vs, tf, expect):
    need(not vs and r.term is not None, "is_none: arguments")
    return CmdV("bool", "(negb (opt_is_some %s))" % r.term)


# ---- the "alias" sub-state ---------------------------------------------------------------------------------------------
def set_cell(fn, r, what):
    need(fn.cell_of(r) == "alias", "%s on something else than the alias sub-state" % what)
    return fn.st["alias"].term


def m_sub_contains_key(fn, r, vs, tf, expect):
    A = set_cell(fn, r, "contains_key")
    key_of(vs, 1, "sub_state.contains_key")
    need(len(vs) == 1, "contains_key: arguments")
    return CmdV("bool", "(bool_decide (%s ∈ %s))" % (vs[0].term, A))


def m_sub_insert(fn, r, vs, tf, expect):
    A = set_cell(fn, r, "insert")
    need(len(vs) == 2 and vs[0].ty == "str" and vs[0].term is not None and vs[1].ty == "sv",
         "sub_state.insert called with %r" % ([v.ty for v in vs],))
    fn.write("alias", CmdV("nameset", "({[ %s ]} ∪ %s)" % (vs[0].term, A)))
    return CmdV("discard")


def m_sub_remove(fn, r, vs, tf, expect):
    A = set_cell(fn, r, "remove")
    key_of(vs, 1, "sub_state.remove")
    need(len(vs) == 1, "remove: arguments")
    fn.write("alias", CmdV("nameset", "(%s ∖ {[ %s ]})" % (A, vs[0].term)))
    return CmdV("discard")


def p_get_sub_state(fn, vs, expect):
    need(fn.cfg["alias_state_ok"] is True, "the alias sub-state: %s" % fn.cfg["alias_state_ok"])
    need(len(vs) == 2 and vs[0].ty == "statekey" and vs[1].ty == "ctxstate",
         "get_sub_state of something else than (ALIAS_STATE_KEY.to_string(), context.state)")
    return CmdV(("ref", "alias"))


# ---- std ---------------------------------------------------------------------------------------------------------------
def unary(ty, fmt):
    def h(fn, r, vs, tf, expect):
        need(not vs, "arguments of a method without parameters")
        return CmdV(ty, fmt % fn.cur(r).term)
    return h


def m_identity(fn, r, vs, tf, expect):
    need(not vs, "arguments of a conversion")
    return fn.cur(r)


def m_bool_to_string(fn, r, vs, tf, expect):
    need(not vs, "to_string with arguments")
    if isinstance(r.known, bool):
        return CmdV("str", None, lit="true" if r.known else "false")
    need(r.term is not None, "to_string of a bool without a term")
    return CmdV("boolstr", r.term)


def m_err_to_string(fn, r, vs, tf, expect):
    need(not vs, "to_string with arguments")
    return CmdV("msg", None, lit="%commands.set")


def m_res_map_err(fn, r, vs, tf, expect):
    """RESULT.map_err(|e| E) on a result whose constructor is known on this path"""
    need(len(vs) == 1 and vs[0].ty == "closure" and r.known is not None and r.known[0] in ("Ok", "Err"),
         "map_err on a result whose constructor is not known / with something else than a closure")
    if r.known[0] == "Ok":
        return r
    names, body, cenv = vs[0].items
    need(len(names) == 1, "map_err closure of %d parameters" % len(names))
    env2 = fn.enter(cenv)
    fn.declare(env2, names[0], r.known[1])

    def no_return(_v):
        raise Rs2vError("return inside a closure")
    v = fn.pure(body, env2, {"ret": no_return, "ret_type": None}, None)
    return CmdV(("res", r.ty[1], v.ty), None, known=("Err", v))


def p_box_new(fn, vs, expect):
    need(len(vs) == 1 and vs[0].ty == "cmdvalue", "Box::new of something that is not a known command value")
    return vs[0]


METHODS = {
    ("args", "len"): unary("nat", "(length %s)"), ("args", "is_empty"): unary("bool", "(vec_is_empty %s)"),
    ("list", "to_vec"): m_identity, ("list", "clone"): m_identity, ("list", "to_owned"): m_identity,
    ("str", "to_string"): m_identity, ("msg", "to_string"): m_identity, ("statekey", "to_string"): m_identity,
    ("statekey", "to_owned"): m_identity, ("statekey", "clone"): m_identity,
    ("bool", "to_string"): m_bool_to_string, ("seterr", "to_string"): m_err_to_string,
    ("&reg", "exists"): m_reg_exists,
    ("aliasesof", "contains_key"): m_aliases_contains_key, ("aliasesof", "remove"): m_aliases_remove,
    ("cmdsof", "contains_key"): m_cmds_contains_key, ("cmdsof", "remove"): m_cmds_remove,
    ("res", "map_err"): m_res_map_err, ("opt", "is_some"): m_opt_is_some, ("opt", "is_none"): m_opt_is_none,
    ("&nameset", "contains_key"): m_sub_contains_key, ("&nameset", "insert"): m_sub_insert, ("&nameset", "remove"): m_sub_remove,
}
CPS_METHODS = {("&reg", "remove"): cm_reg_remove, ("&reg", "set"): cm_reg_set}


# ---- constructors ------------------------------------------------------------------------------------------------------
def c_continue(fn, vs, expect):
    need(len(vs) == 1 and isinstance(vs[0].ty, tuple) and vs[0].ty[0] == "opt" and vs[0].known is not None
         and vs[0].known[0] == "Some", "Continue of something else than Some(..)")
    v = vs[0].known[1]
    if v.ty == "boolstr":
        return CmdV("cmdresult", "SOut %s" % v.term)
    need(v.ty == "str" and v.lit in ("true", "false"), "Continue(Some(a text that is neither \"true\" / \"false\" nor <bool>.to_string()))")
    return CmdV("cmdresult", "SOut %s" % v.lit)


def c_error(fn, vs, expect):
    need(len(vs) == 1 and vs[0].ty in ("str", "msg"), "Error of %r" % ([v.ty for v in vs],))
    return CmdV("cmdresult", "SErr")


def c_sv_boolean(fn, vs, expect):
    need(len(vs) == 1 and vs[0].ty == "bool", "StateValue::Boolean of a non-bool")
    return CmdV("sv")


CTORS = {"CommandResult::Continue": c_continue, "CommandResult::Error": c_error, "StateValue::Boolean": c_sv_boolean}


def mac_format(fn, args, env, k, ctx, expect):
    need(args and args[0][0] == "str", "format! without a literal")
    return fn.seq(args[1:], env, lambda vs: k(CmdV("msg", None, lit=args[0][1].split("{")[0])), ctx)


# ---- AliasCommand { name, arguments }: the command create_alias_command declares and registers -----------------------------
NAME_BODY = ("block", [], ("mcall", ("field", ("path", ["self"]), "name"), "clone", [], None))


def s_alias_command(fn, fields, env):
    need(fn.cfg["default_aliases_ok"] is True, "Command::aliases default: %s" % fn.cfg["default_aliases_ok"])
    need(sorted(f for f, _ in fields) == ["arguments", "name"], "AliasCommand { .. }: fields")
    fv = dict(fields)
    need(fv["name"].ty == "str" and fv["name"].term is not None and fv["arguments"].ty == ("list", "str"), "AliasCommand { .. }: field types")
    items = env.get("%items", {})
    st = items.get(("struct", "AliasCommand"))
    need(st is not None and sorted((f, t.replace(" ", "")) for f, t in st[3]) == [("arguments", "Vec<String>"), ("name", "String")],
         "struct AliasCommand { name: String, arguments: Vec<String> } is not declared here")
    im = items.get(("impl", "Command", "AliasCommand"))
    need(im is not None, "impl Command for AliasCommand is not declared here")
    fns = im[4]
    need("name" in fns and "run" in fns, "impl Command for AliasCommand: its functions")
    need("aliases" not in fns, "AliasCommand declares aliases() of its own")
    rcv, params, _ret, body = fns["name"]
    need(rcv == "ref" and not params and body == NAME_BODY, "AliasCommand::name is not self.name.clone()")
    return CmdV("cmdvalue", None, items={"name": fv["name"], "aliases": "[]"})


class FnReg(rs2v.FnFlowfn):
    """FnFlowfn + the pub fields `aliases` / `commands` of the registry: `<commands>.aliases` / `<commands>.commands` denote those
    components of the registry cell"""

    def ex1(self, e, env, k, ctx, expect):
        if e[0] == "field" and e[2] in ("aliases", "commands") and not (
                e[1][0] == "path" and len(e[1][1]) == 1 and (e[1][1][0], e[2]) in self.cfg["fields"]):
            def k_base(b):
                need(self.cell_of(b) == "reg", ".%s of something else than the command registry" % e[2])
                return k(CmdV("aliasesof" if e[2] == "aliases" else "cmdsof", None, items="reg"))
            return self.ex(e[1], env, k_base, ctx, None)
        return rs2v.FnFlowfn.ex1(self, e, env, k, ctx, expect)


# ---- source facts the configuration rests on ---------------------------------------------------------------------------
def fn_text(src, name):
    ms = list(re.finditer(r"^(?:pub(?:\([a-z]+\))?\s+)?fn\s+%s\s*(?:<[^>]*>)?\s*\(" % re.escape(name), src, re.M))
    need(len(ms) == 1, "fn %s: %d definitions" % (name, len(ms)))
    i = src.index("{", src.index(")", ms[0].end()))
    return rs2v.balanced_block(src, i)


def alias_state_check(api):
    """True or the reason why `get_sub_state(ALIAS_STATE_KEY.to_string(), context.state)` cannot be read as sr_alias"""
    try:
        statics = rs2v.read_statics(api.read(REL_ALIAS_MOD))
        need(KEY_STATIC in statics and statics[KEY_STATIC][0] == rs2v.Ty.STR, "%s: static %s" % (REL_ALIAS_MOD, KEY_STATIC))
        st = api.read(REL_STATE)
        g = squash(fn_text(st, "get_sub_state"))
        need(g.startswith("ensure_sub_state(&key,state);matchstate.get_mut(&key){Some(value)=>matchvalue{"
                          "StateValue::SubState(refmutsub_state)=>sub_state,"), "utils/state.rs get_sub_state: unexpected shape")
        e = squash(fn_text(st, "ensure_sub_state"))
        need(e.startswith("matchstate.get(key){") and "StateValue::SubState(_)=>()" in e and e.count("state.") == 3
             and e.count("state.insert(key.to_string(),StateValue::SubState(HashMap::new()))") == 2,
             "utils/state.rs ensure_sub_state: unexpected shape")
        return True
    except Exception as ex:  # noqa: BLE001
        return clean(ex)


def default_aliases_check(api):
    """True or the reason why a command without `aliases()` cannot be read as one with no aliases"""
    try:
        src = api.read(REL_COMMAND)
        m = re.search(r"^pub\s+trait\s+Command\s*\{", src, re.M)
        need(m is not None, "trait Command not found")
        body = rs2v.balanced_block(src, m.end() - 1)
        f = re.search(r"fn\s+aliases\s*\(\s*&self\s*\)\s*->\s*Vec<String>\s*\{", body)
        need(f is not None, "trait Command: fn aliases(&self) -> Vec<String> has no default body")
        need(squash(rs2v.balanced_block(body, f.end() - 1)) == "vec![]", "trait Command: the default aliases() is not vec![]")
        return True
    except Exception as ex:  # noqa: BLE001
        return clean(ex)


# ---- translation -------------------------------------------------------------------------------------------------------
def finish(fn, v):
    need(v.ty == "cmdresult" and v.term is not None, "`run` ends with a value of type %r" % (v.ty,))
    return "Some (SReg %s %s (sr_fn s), %s)" % (fn.st["reg"].term, fn.st["alias"].term, v.term)


def translate(api, name, rel, uses_alias, helper, facts):
    src = api.read(STD + rel)
    receiver, params, ret, body = rs2v.parse_flowfn_method(src, "Command", "CommandImpl", "run")
    need(receiver == "ref" and len(params) == 1 and params[0][1].replace(" ", "") == T_CTX and ret is not None
         and ret.replace(" ", "") == "CommandResult", "run: unexpected signature")
    c = params[0][0]
    free = [h for h in rs2v.cmd_free_fns(src) if h != "create"]
    need(free == ([helper] if helper else []), "the free functions of the file are %r" % (free,))
    statics, all_fns = {}, {}
    if uses_alias:
        need(re.search(KEY_USE, src, re.M) is not None and KEY_STATIC not in rs2v.read_statics(src),
             "ALIAS_STATE_KEY is not crate::sdk::std::lib::alias::ALIAS_STATE_KEY")
        need(re.search(r"^use\s+crate::utils::state::get_sub_state\s*;", src, re.M) is not None,
             "get_sub_state is not crate::utils::state::get_sub_state")
        statics[KEY_STATIC] = CmdV("statekey", None, lit=KEY_STATIC)
    if helper:
        ps, rt, hb = rs2v.parse_flowfn_fn(src, helper)
        need([p for p, _ in ps] == ["name", "arguments", "commands", "sub_state"] and rt is not None
             and rt.replace(" ", "") == "Result<(),String>", "%s: signature" % helper)
        all_fns[helper] = (ps, rt, hb)
    cfg = {
        "params": dict(statics), "statics": statics,
        "fields": {(c, "arguments"): CmdV("args", "args"), (c, "commands"): CmdV(("ref", "reg")), (c, "state"): CmdV("ctxstate")},
        "args_term": "args", "panic": "None", "finish": finish, "ctors": CTORS,
        "paths": {"get_sub_state": p_get_sub_state, "Box::new": p_box_new},
        "methods": METHODS, "cps_methods": CPS_METHODS, "cps_paths": {}, "macros": {"format": mac_format}, "casts": {},
        "compare": {"nat": {"<": "(Nat.ltb %s %s)", "<=": "(Nat.leb %s %s)", "==": "(Nat.eqb %s %s)"}},
        "arith": {}, "literal": {"nat": "%d%%nat"}, "types": types, "helpers": dict(all_fns), "all_fns": all_fns,
        "coq_type": coq_type, "range": {}, "cell_types": cell_types, "map_items": {},
        "cells": {"reg": CmdV("reg", "(sr_reg s)"), "alias": CmdV("nameset", "(sr_alias s)")},
        "structs": {"AliasCommand": s_alias_command}, "struct_proj": {}, "int_default": "nat", "arith_total": {}, "consts": {},
        "alias_state_ok": facts["alias_state"], "default_aliases_ok": facts["default_aliases"],
    }
    term = FnReg(cfg).function(body, "cmdresult")
    return "Definition gen_cmd_%s %s : %s :=\n%s.\n" % (name, BINDERS, RTYPE, rs2v.cmd_indent(term))


def generate(api, force_stub=False):
    text = HEAD
    rels = []
    facts = {"alias_state": alias_state_check(api), "default_aliases": default_aliases_check(api)}
    for name, rel, uses_alias, helper in COMMANDS:
        flag = "gen_cmd_%s_understood" % name
        rels.append(rel)
        try:
            if force_stub:
                raise Rs2vError("stub requested (%s)" % force_stub if isinstance(force_stub, str) else "stub requested")
            body = translate(api, name, rel, uses_alias, helper, facts)
            text += "Definition %s : bool := true.\n%s" % (flag, body)
        except Exception as e:  # noqa: BLE001  anything unexpected means: not understood (never a crash, never a guess)
            text += ("(* NOT UNDERSTOOD %s: %s *)\nDefinition %s : bool := false.\n"
                     "Definition gen_cmd_%s %s : %s := None.\n" % (name, clean(e), flag, name, BINDERS, RTYPE))
    text += "Definition gen_regcmds_understood : bool := true.\n"
    api.emit("GenRegcmdsFn.v", text, STD + "{" + ", ".join(rels) + "} (fn run of impl Command for CommandImpl; "
             "create_alias_command) by lib/rs2v.py")
