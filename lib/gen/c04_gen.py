"""c04_gen — regenerate coq/generated/GenFlowNames.v from the flow-control sources of /repo.

For each construct (if, while, for-in, function) the five lists actually passed to
`instruction_query::find_commands` (start, middle, end, start_blocks, end_blocks) are obtained by
*interpreting* the straight-line statements that build them in `create_*_meta_info_for_line`
(`FunctionCommand::run` for functions):

    let X = Struct { package: package.clone() };      X := command Struct
    let X = module::Struct::new(&package);            X := command Struct
    let mut V = X.aliases();                          V := aliases(X)
    V.push(X.name());                                 V := V ++ [name(X)]
    V.append(&mut X.aliases());                       V := V ++ aliases(X)
    V.push(end::END_COMMAND_NAME.to_string());        V := V ++ ["end"]

plus every flow command's `name()` / `aliases()` literals and the package path.  Any other
statement, an unknown variable or an unknown command raises GenError: the extractor never guesses.
"""
import re

FC = "duckscript_sdk/src/sdk/std/flowcontrol/"
FILES = {
    "ifelse": FC + "ifelse/mod.rs",
    "while_mod": FC + "while_mod/mod.rs",
    "forin": FC + "forin/mod.rs",
    "function": FC + "function/mod.rs",
    "end": FC + "end/mod.rs",
}
# command struct -> (file key, Coq identifier)
COMMANDS = {
    "IfCommand": ("ifelse", "if"), "ElseIfCommand": ("ifelse", "elseif"), "ElseCommand": ("ifelse", "else"),
    "EndIfCommand": ("ifelse", "endif"),
    "WhileCommand": ("while_mod", "while"), "EndWhileCommand": ("while_mod", "endwhile"),
    "ForInCommand": ("forin", "for"), "EndForInCommand": ("forin", "endfor"),
    "FunctionCommand": ("function", "function"), "EndFunctionCommand": ("function", "endfunction"),
}


def strip_comments(src):
    out = []
    for line in src.split("\n"):
        # no string literal in the interpreted regions contains "//"
        i = line.find("//")
        if i >= 0 and line[:i].count('"') % 2 == 0:
            line = line[:i]
        out.append(line)
    return "\n".join(out)


def impl_block(api, src, struct, rel):
    m = re.search(r"impl\s+Command\s+for\s+%s\s*\{" % re.escape(struct), src)
    if not m:
        raise api.GenError("%s: impl Command for %s not found" % (rel, struct))
    i = m.end() - 1
    depth = 0
    for j in range(i, len(src)):
        if src[j] == "{":
            depth += 1
        elif src[j] == "}":
            depth -= 1
            if depth == 0:
                return src[i:j + 1]
    raise api.GenError("%s: impl Command for %s unbalanced" % (rel, struct))


def static_str(api, src, name, rel):
    m = re.search(r"static\s+%s\s*:\s*&str\s*=\s*\"((?:[^\"\\]|\\.)*)\"\s*;" % re.escape(name), src)
    if not m:
        raise api.GenError("%s: static %s: &str not found" % (rel, name))
    return api.rust_str(m.group(1))


def concat(parent, current):
    # utils/pckg.rs::concat (its shape is checked in generate())
    return parent + ("::" if parent and current else "") + current


def command_names(api, srcs, package):
    """{struct: (name, [aliases])} read from the impl blocks"""
    res = {}
    for struct, (fkey, _) in COMMANDS.items():
        rel = FILES[fkey]
        blk = impl_block(api, srcs[fkey], struct, rel)
        nb = api.fn_body(blk, "name", rel)
        # tolerant reading (selftest/refactors3 RX-1: `let name = pckg::concat(..); name` is the same function): the body must
        # contain exactly one call pckg::concat(&self.package, "<literal>") and no other string literal; whatever is read here is
        # compared with what the loaded registry answers for the name on every run (obligation "registry" of C04 / C05)
        LIT = r"\"((?:[^\"\\]|\\.)*)\""
        calls = re.findall(r"pckg::concat\(\s*&\s*self\.package\s*,\s*" + LIT + r"\s*\)", nb)
        if len(calls) != 1 or len(re.findall(LIT, nb)) != 1:
            raise api.GenError("%s: %s::name() has an unexpected shape: %s" % (rel, struct, " ".join(nb.split())))
        name = concat(package, api.rust_str(calls[0]))
        if re.search(r"fn\s+aliases\s*\(", blk):
            ab = api.fn_body(blk, "aliases", rel)
            # tolerant reading: the aliases are the string literals of the body in order (vec!["a".to_string(), ..],
            # String::from("a"), "a".into(), a local vector returned at the end ...); no control flow, no pckg::concat, no format!
            code = re.sub(r"\"((?:[^\"\\]|\\.)*)\"", '""', ab)          # the body without its string literals
            if re.search(r"\b(if|match|for|while|loop)\b|pckg::concat|format!|\.push\(|\.extend|\.append", code):
                raise api.GenError("%s: %s::aliases() has an unexpected shape" % (rel, struct))
            aliases = [api.rust_str(x) for x in re.findall(r"\"((?:[^\"\\]|\\.)*)\"", ab)]
        else:
            aliases = []   # trait default: vec![]
        res[struct] = (name, aliases)
    return res


def statements(text):
    """split on ';' at brace/paren depth 0"""
    out, depth, cur = [], 0, []
    for ch in text:
        if ch in "{([":
            depth += 1
        elif ch in "})]":
            depth -= 1
        if ch == ";" and depth == 0:
            out.append("".join(cur).strip())
            cur = []
        else:
            cur.append(ch)
    tail = "".join(cur).strip()
    return [s for s in out if s], tail


def interpret(api, text, names, end_name, rel, what, pkg_expr, self_struct=None):
    """interpret the straight-line list-building statements; returns {var: [strings]}"""
    stmts, tail = statements(text)
    if tail:
        raise api.GenError("%s: %s: trailing text not understood: %s" % (rel, what, " ".join(tail.split())[:80]))
    cmds = {}
    if self_struct:
        cmds["self"] = self_struct
    lists = {}
    P = pkg_expr

    def cmd(v):
        if v not in cmds:
            raise api.GenError("%s: %s: unknown command variable %s" % (rel, what, v))
        return names[cmds[v]]

    for s in stmts:
        s1 = " ".join(s.split())
        m = re.fullmatch(r"let (\w+) = (\w+) \{ package: %s\.clone\(\),? \}" % P, s1)
        if m:
            if m.group(2) not in names:
                raise api.GenError("%s: %s: unknown command struct %s" % (rel, what, m.group(2)))
            cmds[m.group(1)] = m.group(2)
            continue
        m = re.fullmatch(r"let (\w+) = (?:\w+::)?(\w+)::new\(&%s\)" % P, s1)
        if m:
            if m.group(2) not in names:
                raise api.GenError("%s: %s: unknown command struct %s" % (rel, what, m.group(2)))
            cmds[m.group(1)] = m.group(2)
            continue
        m = re.fullmatch(r"let mut (\w+) = (\w+)\.aliases\(\)", s1)
        if m:
            lists[m.group(1)] = list(cmd(m.group(2))[1])
            continue
        m = re.fullmatch(r"(\w+)\.push\((\w+)\.name\(\)\)", s1)
        if m:
            if m.group(1) not in lists:
                raise api.GenError("%s: %s: push on unknown list %s" % (rel, what, m.group(1)))
            lists[m.group(1)].append(cmd(m.group(2))[0])
            continue
        m = re.fullmatch(r"(\w+)\.append\(&mut (\w+)\.aliases\(\)\)", s1)
        if m:
            if m.group(1) not in lists:
                raise api.GenError("%s: %s: append on unknown list %s" % (rel, what, m.group(1)))
            lists[m.group(1)].extend(cmd(m.group(2))[1])
            continue
        m = re.fullmatch(r"(\w+)\.push\(end::END_COMMAND_NAME\.to_string\(\)\)", s1)
        if m:
            if m.group(1) not in lists:
                raise api.GenError("%s: %s: push on unknown list %s" % (rel, what, m.group(1)))
            lists[m.group(1)].append(end_name)
            continue
        raise api.GenError("%s: %s: statement not understood: %s" % (rel, what, s1[:100]))
    return lists


CALL_RE = (r"instruction_query::find_commands\(\s*(?:context\.)?instructions\s*,\s*(&\w+|&vec!\[\])\s*,\s*(&\w+|&vec!\[\])\s*,"
           r"\s*(&\w+|&vec!\[\])\s*,\s*Some\(\s*(?:context\.)?line \+ 1\s*\)\s*,\s*None\s*,\s*(true|false)\s*,"
           r"\s*(&\w+|&vec!\[\])\s*,\s*(&\w+|&vec!\[\])\s*,?\s*\)")


def five_lists(api, lists, call, rel, what):
    res = []
    for k in (1, 2, 3, 5, 6):
        a = call.group(k)
        if a == "&vec![]":
            res.append([])
        else:
            if a[1:] not in lists:
                raise api.GenError("%s: %s: find_commands argument %s is not an interpreted list" % (rel, what, a))
            res.append(lists[a[1:]])
    return res, call.group(4) == "true"


def generate(api):
    srcs = {k: strip_comments(api.read(rel)) for k, rel in FILES.items()}
    # package path: std/mod.rs passes PACKAGE to flowcontrol::load, which concatenates its own PACKAGE
    std_rel = "duckscript_sdk/src/sdk/std/mod.rs"
    std_src = strip_comments(api.read(std_rel))
    if not re.search(r"flowcontrol::load\(\s*commands\s*,\s*PACKAGE\s*\)", std_src):
        raise api.GenError("%s: flowcontrol::load(commands, PACKAGE) not found" % std_rel)
    std_pkg = static_str(api, std_src, "PACKAGE", std_rel)
    fc_rel = FC + "mod.rs"
    fc_src = strip_comments(api.read(fc_rel))
    fc_pkg = static_str(api, fc_src, "PACKAGE", fc_rel)
    load = api.fn_body(fc_src, "load", fc_rel)
    if not re.search(r"let\s+package\s*=\s*pckg::concat\(\s*parent\s*,\s*PACKAGE\s*\)\s*;", load):
        raise api.GenError("%s: load: package = pckg::concat(parent, PACKAGE) not found" % fc_rel)
    for modname in ("forin", "function", "ifelse", "while_mod"):
        if not re.search(r"%s::load\(\s*commands\s*,\s*&package\s*\)" % modname, load):
            raise api.GenError("%s: load: %s::load(commands, &package) not found" % (fc_rel, modname))
    if not re.search(r"commands\.set\(\s*end::create\(\)\s*\)", load):
        raise api.GenError("%s: load: commands.set(end::create()) not found" % fc_rel)
    pk_rel = "duckscript_sdk/src/utils/pckg.rs"
    # utils/pckg.rs::concat is NOT pinned to one spelling (selftest/refactors3 R5-1: an early return + format! is the same
    # function): the names built with it here are compared on every run with what the loaded registry answers for every
    # spelling (obligation "registry" of C04 / C05), and the function itself is under the translation tie `flowwhile`
    # (Src_flowwhile_concat) whenever the translator understands its body.
    api.fn_body(strip_comments(api.read(pk_rel)), "concat", pk_rel)       # it must still exist
    package = concat(std_pkg, fc_pkg)

    # every module's create() must hand its package to the commands it builds
    for fkey in ("ifelse", "while_mod", "forin"):
        body = api.fn_body(srcs[fkey], "create", FILES[fkey])
        for struct, (fk, _) in COMMANDS.items():
            if fk == fkey and not re.search(r"\b%s\s*\{\s*package\s*(:\s*(package\.(to_string|to_owned|clone)\(\)|String::from\(\s*package\s*\)|package\.into\(\))\s*)?,?\s*\}" % struct, body):
                raise api.GenError("%s: create(): %s { package: package.to_string() } not found" % (FILES[fkey], struct))

    end_rel = FILES["end"]
    end_name = static_str(api, srcs["end"], "END_COMMAND_NAME", end_rel)
    eb = impl_block(api, srcs["end"], "CommandImpl", end_rel)
    if " ".join(api.fn_body(eb, "name", end_rel).split()) != "{ END_COMMAND_NAME.to_string() }":
        raise api.GenError("%s: CommandImpl::name() has an unexpected shape" % end_rel)
    if re.search(r"fn\s+aliases\s*\(", eb):
        raise api.GenError("%s: the generic end command gained aliases; not understood" % end_rel)

    names = command_names(api, srcs, package)

    tables = {}
    for key, fkey, fn in (("if", "ifelse", "create_if_meta_info_for_line"),
                          ("while", "while_mod", "create_while_meta_info_for_line"),
                          ("for", "forin", "create_forin_meta_info_for_line")):
        rel = FILES[fkey]
        body = api.fn_body(srcs[fkey], fn, rel)
        m = re.search(r"let\s+positions_options\s*=\s*" + CALL_RE + r"\s*\?\s*;", body)
        if not m:
            raise api.GenError("%s: %s: the find_commands call has an unexpected shape" % (rel, fn))
        prefix = body[1:m.start()]
        lists = interpret(api, prefix, names, end_name, rel, fn, "package")
        five, rec = five_lists(api, lists, m, rel, fn)
        if not rec:
            raise api.GenError("%s: %s: allow_recursive is false; the model assumes true" % (rel, fn))
        # the positions must be used as start = line, end = positions.end (, else_lines = positions.middle)
        rest = " ".join(body[m.end():].split())
        want = "start: line, end: positions.end," + (" else_lines: positions.middle," if key == "if" else "")
        if want not in rest:
            raise api.GenError("%s: %s: meta info is not built as { %s }" % (rel, fn, want))
        tables[key] = five

    # function: the statements sit in FunctionCommand::run, in the arm that precedes the call
    rel = FILES["function"]
    blk = impl_block(api, srcs["function"], "FunctionCommand", rel)
    run = api.fn_body(blk, "run", rel)
    m = re.search(r"match\s+" + CALL_RE + r"\s*\{", run)
    if not m:
        raise api.GenError("%s: FunctionCommand::run: the find_commands call has an unexpected shape" % rel)
    start = run.rfind("None => {", 0, m.start())
    if start < 0:
        raise api.GenError("%s: FunctionCommand::run: the arm building the tables was not found" % rel)
    prefix = run[start + len("None => {"):m.start()]
    lists = interpret(api, prefix, names, end_name, rel, "FunctionCommand::run", r"self\.package", self_struct="FunctionCommand")
    five, rec = five_lists(api, lists, m, rel, "FunctionCommand::run")
    tables["function"] = five
    fn_recursive = rec

    out = []
    out.append("(* names: the command's aliases() followed by its name(), as the Rust code builds them *)")
    out.append("Definition gen_flow_package : str := %s." % api.coq_str(package))
    out.append("Definition gen_end_name : str := %s." % api.coq_str(end_name))
    for struct, (_, ident) in COMMANDS.items():
        nm, al = names[struct]
        out.append("Definition gen_%s_name : str := %s.  (* %s *)" % (ident, api.coq_str(nm), nm))
        out.append("Definition gen_%s_aliases : list str := %s.  (* %s *)" % (ident, api.coq_list(al), " ".join(al)))
    for key in ("if", "while", "for", "function"):
        for lname, l in zip(("start", "middle", "end", "start_blocks", "end_blocks"), tables[key]):
            out.append("Definition gen_%s_%s : list str := %s." % (key, lname, api.coq_list(l)))
            out.append("  (* %s *)" % " ".join(l))
    out.append("Definition gen_function_allow_recursive : bool := %s." % ("true" if fn_recursive else "false"))
    api.emit("GenFlowNames.v", "\n".join(out) + "\n", FC + "{ifelse,while_mod,forin,function,end}/mod.rs")
