"""core_gen — TRANSLATE the core scanner functions of /repo into Gallina on every run (lib/rs2v.py).

  duckscript/src/parser.rs     parse_next_value   -> coq/generated/GenParserFn.v   (gen_pnv_body, gen_parse_next_value)
  duckscript/src/expansion.rs  expand_by_wrapper  -> coq/generated/GenExpandFn.v   (gen_should_break_key, gen_push_prefix,
                               (+ should_break_key, push_prefix)                     gen_xstep, gen_expand_by_wrapper)

theories/ParserGenTie.v / ExpansionGenTie.v prove, for ALL inputs, that the hand-written models
(ParserIx.parse_next_value, Expansion.expand_by_wrapper) are EQUAL to these translations — so the
theorems of C01 / C02 / C08 / C09 are about what the source says now, for these functions.

When the source no longer has a shape the translator understands, the generated file carries
`gen_*_understood := false` and stub definitions; the tie theorems are stated under
`gen_*_understood = true` and stay provable, and the checks report that the translation tie is
inactive for this run (the correspondence run is then the only tie, as for every other function)."""
import os
import sys

sys.path.insert(0, os.path.dirname(os.path.dirname(os.path.abspath(__file__))))
import rs2v  # noqa: E402
from rs2v import Ty, Rs2vError  # noqa: E402


# ---------------------------------------------------------------------------------------------------
PSTATE = ["argument", "index", "in_argument", "using_quotes", "in_control", "found_end", "found_variable_prefix"]
PFIELD = {"argument": "p_argument", "index": "p_index", "in_argument": "p_in_argument", "using_quotes": "p_using_quotes",
          "in_control": "p_in_control", "found_end": "p_found_end", "found_variable_prefix": "p_found_variable_prefix"}


def parser_cfg():
    def r_ok(fn, args, env):
        # Ok((index, Some(argument))) / Ok((index, None)); `argument` is kept reversed in the state
        if len(args) != 1 or args[0][0] != "tuple" or len(args[0][1]) != 2:
            raise Rs2vError("Ok(..) shape")
        ix, opt = args[0][1]
        if opt == ("path", ["None"]):
            o = "None"
        elif opt[0] == "call" and opt[1] == ("path", ["Some"]) and len(opt[2]) == 1:
            a = opt[2][0]
            t = fn.type_of(a, env)
            o = "(Some (rev %s))" % fn.ex(a, env) if t == Ty.STR_REV else "(Some %s)" % fn.ex(a, env)
        else:
            raise Rs2vError("Ok((_, %r))" % (opt,))
        return ("ok", "(%s, %s)" % (fn.ex(ix, env), o))

    def r_err(fn, args, env):
        if len(args) != 1 or args[0][0] != "call" or args[0][1][0] != "path":
            raise Rs2vError("Err(..) shape")
        p = args[0][1][1]
        if len(p) != 2 or p[0] != "ScriptError":
            raise Rs2vError("Err(%r)" % (p,))
        known = ("ControlWithoutValidValue", "InvalidControlLocation", "MissingEndQuotes", "InvalidQuotesLocation",
                 "InvalidEqualsLocation", "MissingOutputVariableName", "PreProcessNoCommandFound")
        if p[1] not in known:
            raise Rs2vError("unknown error kind %s" % p[1])
        return ("err", "E" + p[1])

    return {
        "coq_name": "gen_pnv",
        "params": {"line_text": ("vec", "line"), "start_index": (Ty.NAT, "start_index"),
                   "allow_quotes": (Ty.BOOL, "(allow_quotes fl)"), "allow_control": (Ty.BOOL, "(allow_control fl)"),
                   "stop_on_equals": (Ty.BOOL, "(stop_on_equals fl)"), "control_as_char": (Ty.BOOL, "(control_as_char fl)")},
        "locals": {"argument": Ty.STR_REV, "index": Ty.NAT, "in_argument": Ty.BOOL, "using_quotes": Ty.BOOL,
                   "in_control": Ty.BOOL, "found_end": Ty.BOOL, "found_variable_prefix": Ty.BOOL, "end_index": Ty.NAT},
        "elem_type": Ty.CHAR,
        "state": ("{| " + "; ".join("%s := %%s" % PFIELD[n] for n in PSTATE) + " |}", PSTATE,
                  {n: "(%s %%s)" % PFIELD[n] for n in PSTATE}),
        "state_type": "pstate",
        "fn_params": "(fl : flags) (line : str)", "fn_args": "fl line",
        "step": {"type": "step pstate", "cont": "SContinue %s", "brk": "SBreak %s", "panic": "SPanic"},
        "res": {"panic": "IPanic",
                "consume": "match %(drive)s with\n| IOk %(sv)s =>\n%(after)s\n| IErr e => IErr e\n| IPanic => IPanic\nend"},
        "loop": {"for_n": "for_n %s %s %s"},
        "result_ctors": {"Ok": r_ok, "Err": r_err},
    }


class ParserFn(rs2v.Fn):
    def ret(self, e, env, ctx):
        kind, payload = self.result_value(e, env)
        if ctx.get("loop"):
            if kind != "err":
                raise Rs2vError("return Ok(..) inside the loop")
            return "SFail %s" % payload
        return ("IErr %s" if kind == "err" else "IOk %s") % payload

    def final(self, v, env):
        if v is None:
            raise Rs2vError("function ends without a value")
        kind, payload = self.result_value(v, env)
        return ("IErr %s" if kind == "err" else "IOk %s") % payload

    def type_of(self, e, env):
        if e[0] == "mcall" and e[2] == "len":
            return Ty.NAT
        return super().type_of(e, env)

    def ex(self, e, env):
        if e[0] == "mcall" and e[2] == "len" and e[1] == ("path", ["line_text"]):
            return "(length line)"
        if e[0] == "path" and e[1] == ["line_text"]:
            return "line"
        return super().ex(e, env)


PARSER_STUB = """Definition gen_pnv_understood : bool := false.
Definition gen_pnv_body (fl : flags) (line : str) (st : pstate) : step pstate := SPanic.
Definition gen_parse_next_value (fl : flags) (line : str) (start_index : nat) : ires (nat * option str) := IPanic.
"""


def gen_parser(api, force_stub=False):
    rel = "duckscript/src/parser.rs"
    head = "Require Import DS.Parser DS.ParserIx DS.Rs2vLib.\nLocal Open Scope bool_scope.\n"
    try:
        if force_stub:
            raise Rs2vError("translation rejected: %s" % force_stub)
        src = api.read(rel)
        params, body = rs2v.parse_fn(src, "parse_next_value")
        fn = ParserFn(parser_cfg())
        term = fn.function(params, body)
        if len(fn.loops) != 1:
            raise Rs2vError("expected exactly one loop, found %d" % len(fn.loops))
        text = (head + "Definition gen_pnv_understood : bool := true.\n" + fn.loops[0][1] +
                "Definition gen_parse_next_value (fl : flags) (line : str) (start_index : nat) : ires (nat * option str) :=\n"
                + term + ".\n")
    except (Rs2vError, api.GenError, KeyError, IndexError) as e:
        text = head + "(* NOT UNDERSTOOD: %s *)\n" % str(e).replace("*)", "* )") + PARSER_STUB
    api.emit("GenParserFn.v", text, rel + " (fn parse_next_value) by lib/rs2v.py")


# ---------------------------------------------------------------------------------------------------
XSTATE = ["value_string", "prefix_index", "found_prefix", "key", "force_push", "single_type"]
XFIELD = {"value_string": "x_value", "prefix_index": "x_pidx", "found_prefix": "x_found", "key": "x_key",
          "force_push": "x_force", "single_type": "x_single"}


class ExpandFn(rs2v.Fn):
    def final(self, v, env):
        if v is None:
            raise Rs2vError("function ends without a value")
        return self.value(v, env)

    def ret(self, e, env, ctx):
        raise Rs2vError("return in expand_by_wrapper")

    def value(self, e, env):
        if e[0] == "path":
            n = "::".join(e[1])
            if n == "ExpandedValue::None":
                return "ENone"
        if e[0] == "call" and e[1][0] == "path":
            n = "::".join(e[1][1])
            if n == "ExpandedValue::Single" and len(e[2]) == 1:
                return "(Single %s)" % self.ex(e[2][0], env)
            if n == "ExpandedValue::Multi" and len(e[2]) == 1:
                return "(Multi %s)" % self.ex(e[2][0], env)
        raise Rs2vError("expanded value %r" % (e,))

    def match(self, e, env, cont, ctx):
        # match parser::reparse_arguments(meta_info, &chars, 0) { Ok(values_option) => match values_option {..}, Err(_) => .. }
        scrut, arms = e[1], e[2]
        if scrut[0] == "call" and scrut[1] == ("path", ["parser", "reparse_arguments"]) and len(scrut[2]) == 3 \
                and scrut[2][2] == ("num", 0):
            s = "(reparse_arguments %s)" % self.ex(scrut[2][1], env)
            pats = {"Ok": "POk", "Err": "PErr"}
        elif scrut[0] == "path" and len(scrut[1]) == 1 and scrut[1][0] in env and env[scrut[1][0]][0] == "option":
            s = env[scrut[1][0]][1]
            pats = {"Some": "Some", "None": "None"}
        else:
            raise Rs2vError("match scrutinee %r" % (scrut,))
        out = ["match %s with" % s]
        seen = set()
        for pat, body in arms:
            if pat[0] != "ctor" or len(pat[1]) != 1 or pat[1][0] not in pats:
                raise Rs2vError("match pattern %r" % (pat,))
            c = pat[1][0]
            seen.add(c)
            env2 = dict(env)
            vs = []
            for sub in pat[2]:
                v = self.newvar(sub or "w")
                vs.append(v)
                if sub:
                    env2[sub] = ("option" if c == "Ok" else "list", v)
            out.append("| %s %s =>" % (pats[c], " ".join(vs)))
            out.append(self.tail(body, env2, lambda env3, v: self.final(v, env3), ctx))
        if seen != set(pats):
            raise Rs2vError("match arms %s" % sorted(seen))
        out.append("end")
        return "\n".join(out)

    def bind(self, name, e, env, cont, ctx):
        # let chars = value_string.to_string().chars().collect();
        if e[0] == "mcall" and e[2] == "collect" and e[1][0] == "mcall" and e[1][2] == "chars":
            env2 = dict(env)
            env2[name] = (Ty.STR, self.ex(e[1][1], env))
            return cont(env2)
        return super().bind(name, e, env, cont, ctx)

    def ex(self, e, env):
        if e[0] == "path" and len(e[1]) == 1 and e[1][0] in env and env[e[1][0]][0] in ("option", "list"):
            return env[e[1][0]][1]
        return super().ex(e, env)

    def tail(self, e, env, k, ctx):
        if e[0] == "match":
            return self.match(e, env, None, ctx)
        return super().tail(e, env, k, ctx)


def expand_cfg():
    def scrutinee(fn, scrut, env):
        # variables.get(&key)
        if scrut[0] == "mcall" and scrut[2] == "get" and scrut[1] == ("path", ["variables"]) and len(scrut[3]) == 1:
            return Ty.STR, "(variables %s)" % fn.ex(scrut[3][0], env)
        raise Rs2vError("if let scrutinee %r" % (scrut,))

    return {
        "coq_name": "gen_x",
        "params": {"value": (Ty.STR, "value")},
        "locals": {"value_string": Ty.STR, "prefix_index": Ty.NUM_N, "found_prefix": Ty.BOOL, "key": Ty.STR,
                   "force_push": Ty.BOOL, "single_type": Ty.BOOL},
        "state": ("(mk_xst %s %s %s %s %s %s)", XSTATE, {n: "(%s %%s)" % XFIELD[n] for n in XSTATE}),
        "state_type": "xst",
        "fn_params": "(variables : env)", "fn_args": "variables",
        "item_type": "char",
        "step": {"type": "xst", "cont": "%s", "brk": None, "panic": None},
        "res": {"panic": None, "consume": "let %(sv)s := %(drive)s in\n%(after)s"},
        "loop": {"for_each": "fold_left %s %s %s"},
        "iflet_scrutinee": scrutinee,
        "helpers": {"should_break_key": {"coq": "gen_should_break_key", "ret": Ty.BOOL},
                    "push_prefix": {"coq": "gen_push_prefix", "mut": 0}},
    }


class HelperFn(rs2v.Fn):
    """a helper whose body is a pure expression (should_break_key) or a sequence of pushes on its &mut String (push_prefix)"""

    def final(self, v, env):
        if v is None:
            return env[self.cfg["out"]][1]
        return self.ex(v, env)


EXPAND_STUB = """Definition gen_expand_understood : bool := false.
Definition gen_should_break_key (value : char) : bool := false.
Definition gen_push_prefix (buffer : str) (single_type found_prefix_fully : bool) : str := [].
Definition gen_x_body (variables : env) (st : xst) (c : char) : xst := st.
Definition gen_expand_by_wrapper (value : str) (variables : env) : expanded := ENone.
"""


def gen_expand(api, force_stub=False):
    rel = "duckscript/src/expansion.rs"
    head = "Require Import DS.Parser DS.Expansion DS.Rs2vLib.\nLocal Open Scope bool_scope.\n"
    try:
        if force_stub:
            raise Rs2vError("translation rejected: %s" % force_stub)
        src = api.read(rel)
        p1, b1 = rs2v.parse_fn(src, "should_break_key")
        f1 = HelperFn({"coq_name": "gen_should_break_key", "params": {"value": (Ty.CHAR, "value")}, "locals": {}})
        t1 = f1.function(p1, b1)
        p2, b2 = rs2v.parse_fn(src, "push_prefix")
        f2 = HelperFn({"coq_name": "gen_push_prefix", "out": "buffer",
                       "params": {"buffer": (Ty.STR, "buffer"), "single_type": (Ty.BOOL, "single_type"),
                                  "found_prefix_fully": (Ty.BOOL, "found_prefix_fully")}, "locals": {}})
        t2 = f2.function(p2, b2)
        p3, b3 = rs2v.parse_fn(src, "expand_by_wrapper")
        f3 = ExpandFn(expand_cfg())
        t3 = f3.function(p3, b3)
        if len(f3.loops) != 1:
            raise Rs2vError("expected exactly one loop, found %d" % len(f3.loops))
        text = (head + "Definition gen_expand_understood : bool := true.\n"
                "Definition gen_should_break_key (value : char) : bool :=\n" + t1 + ".\n"
                "Definition gen_push_prefix (buffer : str) (single_type found_prefix_fully : bool) : str :=\n" + t2 + ".\n"
                + f3.loops[0][1] +
                "Definition gen_expand_by_wrapper (value : str) (variables : env) : expanded :=\n" + t3 + ".\n")
    except (Rs2vError, api.GenError, KeyError, IndexError) as e:
        text = head + "(* NOT UNDERSTOOD: %s *)\n" % str(e).replace("*)", "* )") + EXPAND_STUB
    api.emit("GenExpandFn.v", text, rel + " (fn should_break_key, push_prefix, expand_by_wrapper) by lib/rs2v.py")


def generate(api, force_stub=False):
    # force_stub: {generated file name: reason} for the files whose translation did not type-check
    fs = force_stub if isinstance(force_stub, dict) else {}
    gen_parser(api, fs.get("GenParserFn.v", False))
    gen_expand(api, fs.get("GenExpandFn.v", False))
