"""cli_gen — TRANSLATE duckscript_cli/src/main.rs and duckscript_cli/src/linter.rs into Gallina on every run
(lib/rs2v.py, class FnGlue) -> coq/generated/GenCliFn.v:

  linter.rs  is_lower_case      gen_is_lower_case      : option str -> bool
             lint_instruction   gen_lint_instruction   : option str -> option str -> option str -> option lint_kind
                                                          (label output command, the argument order of Cli.lint_instruction)
             lint_instructions  gen_lint_instructions  : list instr -> result      (+ gen_lint_instructions_body, the loop)
             lint_file          gen_lint_file          : (str -> tres) -> str -> bool * result
                                                          (printed "parsed correctly"?, verdict)
  main.rs    run_script         gen_run_script         : (str -> bool) -> (str -> bool) -> str -> bool -> result
             run_repl           gen_run_repl           : bool -> result
             run_cli            gen_run_cli            : verdicts -> list str -> option result   (None: index panic)
                                gen_dispatch           : list str -> option action   (the same walk of run_cli, the leaves
                                                          NAMED by the configuration instead of evaluated)
             main               gen_main               : result -> N * bool          (exit status, printed "Error: ..")

theories/CliGenTie.v proves each of them EQUAL, for all inputs, to the hand model (Cli.v; CliFns.v for the Rust
functions Cli.v folds into run_cli) — props/SrcCli.v.  `argv` is the FULL argument vector (the program name first), as
in the source; the hand model takes it without the program name (gen_run_cli .. argv = Some (run_cli .. (tl argv))).

What the library decides is a parameter exactly as in Cli.v: run_file / run_text / repl are `.is_ok()` of
runner::run_script_file / run_script / repl, parse_file is parser::parse_file.  Calls of other functions of the two
files are translated to calls of the HAND model functions, each proved equal to its own translation: the ties are
independent, one function per flag `gen_<fn>_understood`; a function the translator does not understand gets `false`
and a stub of the same type, its theorem (stated under `.. = true`) stays provable, and the check reports that tie
inactive.

Supplied by this configuration, not read from the source (see the report / DESIGN):
  * the parameter names and types of the generated functions, and the representation of `ScriptInstruction` /
    `Instruction` / `InstructionType` by Parser.itype / instr (field ORDER of IScript: label output command arguments —
    checked against the struct declaration in duckscript/src/types/instruction.rs);
  * `to_lowercase` -> Base.lower_str (ASCII lower-casing; the documented assumption, checked for all 128 ASCII
    characters against Rust on every run of C20);
  * the classification of the three lint messages: a message that names exactly one of label / command / output
    (case-insensitive) is LLabel / LCommand / LOutput — the same rule the correspondence run applies to the line the
    executable prints;
  * `create_context()` (duckscriptsdk::load on a fresh Context) does not fail;
  * `println!` only writes to stdout; the format strings of the version / help / "parsed correctly" / "Error: {}" lines
    are recognised literally and name the ghost tags (AVersion / AHelp, lint_says_parsed, prints_error);
  * a process whose `main` returns has exit status 0; `exit(n)` has status n mod 256;
  * gen_dispatch only: which action constructor NAMES a leaf of run_cli (run_repl() -> ARepl, run_script(v, true) ->
    ARunFile v, run_script(v, false) -> ARunText v, linter::lint_file(v) -> ALint v).
"""
import os
import re
import sys

sys.path.insert(0, os.path.dirname(os.path.dirname(os.path.abspath(__file__))))
import rs2v  # noqa: E402
from rs2v import Ty, Rs2vError, T_opt, T_list, T_struct, POISON  # noqa: E402

MAIN = "duckscript_cli/src/main.rs"
LINTER = "duckscript_cli/src/linter.rs"
INSTR = "duckscript/src/types/instruction.rs"

T_OSTR = T_opt(Ty.STR)
T_OLSTR = T_opt(T_list(Ty.STR))
T_SI = T_struct("ScriptInstruction")
T_MI = T_struct("InstructionMetaInfo")
T_INS = T_struct("Instruction")
T_LINSTR = T_list("instr")

SI_FIELDS = ["label", "output", "command", "arguments"]
LINT_WORDS = {"label": "LLabel", "command": "LCommand", "output": "LOutput"}
VERDICTS = "(run_file run_text : str -> bool) (repl : bool) (parse_file : str -> tres)"

PRINTS_LINT = {"File: {} parsed correctly.": "parsed", "No lint errors found in file: {}": "clean"}
PRINTS_CLI = {"Duckscript Runtime: {}\nDuckscript SDK: {}\nDuckscript CLI: {}": "version",
              "duckscript {}\n{}\n{}\n\n{}": "help"}
PRINTS_MAIN = {"Error: {}": "error"}


def need(cond, what):
    if not cond:
        raise Rs2vError(what)


def strip_ref(e):
    while e[0] in ("ref", "refmut") or (e[0] == "mcall" and e[2] in ("clone", "to_string", "to_owned") and not e[3]):
        e = e[1]
    return e


def is_unit(e):
    return e == ("tuple", [])


def is_call(e, *path):
    return e[0] == "call" and e[1] == ("path", list(path))


def printer(table):
    def ph(fn, macro, args, env):
        need(macro == "println" and args and args[0][0] == "str", "%s! without a literal format string" % macro)
        tag = table.get(args[0][1])
        need(tag is not None, "unknown line printed: %r" % args[0][1])
        need(args[0][1].count("{}") == len(args) - 1, "println!: number of arguments")
        env2 = dict(env)
        env2["%printed"] = ("meta", env["%printed"][1] + ((tag, tuple(args[1:])),))
        return env2
    return ph


def printed(env):
    return [t for t, _a in env["%printed"][1]]


def base_cfg(coq_name):
    return {"coq_name": coq_name, "params": {}, "locals": {}, "res": {"err": "(RErr %s)", "panic": None},
            "step": {"ret": "LRet %s"}}


# ---- linter.rs ---------------------------------------------------------------------------------------------
def m_lower(fn, recv, args, env):
    need(not args and fn.type_of(recv, env) == Ty.STR, "to_lowercase on %r" % (recv,))
    return "(lower_str %s)" % fn.ex(recv, env)


def b_is_lower_case(srcs):
    params, body = rs2v.parse_fn_q(srcs[LINTER], "is_lower_case")
    need(len(params) == 1, "is_lower_case: %d parameters" % len(params))
    cfg = base_cfg("gen_is_lower_case")
    cfg["params"] = {params[0][0]: (T_OSTR, "value")}
    cfg["methods"] = {"to_lowercase": m_lower}
    cfg["method_types"] = {"to_lowercase": Ty.STR}
    cfg["result_handler"] = lambda fn, e, env, ctx: fn.ex(e, env) if fn.type_of(e, env) == Ty.BOOL else None
    fn = rs2v.FnGlue(cfg)
    term = fn.function(params, body)
    need(not fn.loops, "is_lower_case: loop")
    return "Definition gen_is_lower_case (value : option str) : bool :=\n%s.\n" % term


def c_is_lower_case(fn, args, env):
    need(len(args) == 1 and fn.type_of(strip_ref(args[0]), env) == T_OSTR, "is_lower_case arguments")
    return "(is_lower_case %s)" % fn.ex(strip_ref(args[0]), env)


def lint_message(e):
    """Err(<string literal>[.to_string() | .to_owned() | .into()]) / Err(String::from(<literal>)) -> the literal"""
    if not (is_call(e, "Err") and len(e[2]) == 1):
        return None
    x = e[2][0]
    if x[0] == "mcall" and x[2] in ("to_string", "to_owned", "into") and not x[3]:
        x = x[1]
    elif is_call(x, "String", "from") and len(x[2]) == 1:
        x = x[2][0]
    return x[1] if x[0] == "str" else None


def r_lint_instruction(fn, e, env, ctx):
    if is_call(e, "Ok") and len(e[2]) == 1 and is_unit(e[2][0]):
        return "None"
    msg = lint_message(e)
    if msg is not None:
        hits = [c for w, c in LINT_WORDS.items() if w in msg.lower()]
        need(len(hits) == 1, "lint message %r does not name exactly one of label / command / output" % msg)
        return "(Some %s)" % hits[0]
    return None


def si_param(label, output, command, arguments):
    return (T_SI, {"label": (T_OSTR, label), "output": (T_OSTR, output), "command": (T_OSTR, command),
                   "arguments": (T_OLSTR, arguments)})


def b_lint_instruction(srcs):
    params, body = rs2v.parse_fn_q(srcs[LINTER], "lint_instruction")
    need(len(params) == 1, "lint_instruction: %d parameters" % len(params))
    cfg = base_cfg("gen_lint_instruction")
    cfg["params"] = {params[0][0]: si_param("label", "output", "command", POISON)}
    cfg["calls"] = {"is_lower_case": {"call": c_is_lower_case, "ret": Ty.BOOL}}
    cfg["result_handler"] = r_lint_instruction
    fn = rs2v.FnGlue(cfg)
    term = fn.function(params, body)
    need(not fn.loops, "lint_instruction: loop")
    return "Definition gen_lint_instruction (label output command : option str) : option lint_kind :=\n%s.\n" % term


def c_lint_instruction(fn, args, env):
    need(len(args) == 1, "lint_instruction arguments")
    t, val = fn.value(args[0], env)
    need(t == T_SI and isinstance(val, dict), "lint_instruction: argument of type %s" % (t,))
    return "(lint_instruction %s %s %s)" % tuple(fn.plain(val[f][1], f) for f in ("label", "output", "command"))


def e_script(fn, subs):
    need(len(subs) == 1, "InstructionType::Script pattern")
    vs = [fn.newvar(f) for f in SI_FIELDS]
    return "IScript %s" % " ".join(vs), ({subs[0]: si_param(*vs)} if subs[0] else {})


def e_pre(fn, subs):
    need(len(subs) == 1 and subs[0] is None, "InstructionType::PreProcess pattern binds its payload")
    return "IPre _ _", {}


def e_empty(fn, subs):
    need(not subs, "InstructionType::Empty pattern")
    return "IEmpty", {}


def e_lint_err(fn, subs):
    need(len(subs) == 1, "Err pattern")
    v = fn.newvar(subs[0] or "w")
    return "Some %s" % v, ({subs[0]: ("lint_kind", v)} if subs[0] else {})


def e_lint_ok(fn, subs):
    need(len(subs) == 1 and subs[0] is None, "Ok pattern binds ()")
    return "None", {}


def item_instruction(fn, v):
    return (T_INS, {"meta_info": (T_MI, {"line": ("line", "(i_line %s)" % v), "source": (T_OSTR, "(i_source %s)" % v)}),
                    "instruction_type": ("itype", "(i_type %s)" % v)})


def r_lint_instructions(fn, e, env, ctx):
    if is_call(e, "Ok") and len(e[2]) == 1 and is_unit(e[2][0]):
        return "ROk"
    if is_call(e, "Err") and len(e[2]) == 1 and is_call(e[2][0], "ScriptError", "Runtime") and len(e[2][0][2]) == 2:
        what, meta = e[2][0][2]
        need(fn.type_of(strip_ref(what), env) == "lint_kind", "ScriptError::Runtime: the message is not the lint verdict")
        need(is_call(meta, "Some") and len(meta[2]) == 1, "ScriptError::Runtime: meta info is not Some(..)")
        t, val = fn.value(meta[2][0], env)
        need(t == T_MI and isinstance(val, dict), "ScriptError::Runtime: meta info of type %s" % (t,))
        return "(RErr (CLint %s %s %s))" % (fn.ex(strip_ref(what), env), fn.plain(val["line"][1], "line"),
                                           fn.plain(val["source"][1], "source"))
    return None


def b_lint_instructions(srcs):
    params, body = rs2v.parse_fn_q(srcs[LINTER], "lint_instructions")
    need(len(params) == 1, "lint_instructions: %d parameters" % len(params))
    cfg = base_cfg("gen_lint_instructions")
    cfg["params"] = {params[0][0]: (T_LINSTR, "instructions")}
    cfg["list_loop"] = {"item": item_instruction, "item_type": "instr", "result_type": "result"}
    cfg["enums"] = {"itype": {"ctors": {"InstructionType::Script": e_script, "InstructionType::PreProcess": e_pre,
                                        "InstructionType::Empty": e_empty}, "all": 3},
                    "lintres": {"ctors": {"Err": e_lint_err, "Ok": e_lint_ok}, "all": 2}}
    cfg["calls"] = {"lint_instruction": {"call": c_lint_instruction, "ret": "lintres"}}
    cfg["ctor_types"] = {"Ok": "lintres"}

    def h_ok(fn, args, env):
        need(len(args) == 1 and is_unit(args[0]), "Ok(..) of something else than ()")
        return "lintres", "None"
    cfg["ctor_handlers"] = {"Ok": h_ok}
    cfg["result_handler"] = r_lint_instructions
    fn = rs2v.FnGlue(cfg)
    term = fn.function(params, body)
    need(len(fn.loops) == 1, "lint_instructions: %d loops" % len(fn.loops))
    return fn.loops[0][1] + "Definition gen_lint_instructions (instructions : list instr) : result :=\n%s.\n" % term


def res_parse_file():
    def call(fn, args, env):
        need(len(args) == 1 and fn.type_of(strip_ref(args[0]), env) == Ty.STR, "parse_file arguments")
        return "(parse_file %s)" % fn.ex(strip_ref(args[0]), env)

    def err(fn):
        e, l, s = fn.newvar("e"), fn.newvar("l"), fn.newvar("s")
        return "TErr %s %s %s" % (e, l, s), "(CParse %s %s %s)" % (e, l, s)
    return {"call": call, "ok": lambda fn, v: ("TOk %s" % v, (T_LINSTR, v)), "err": err}


def res_lint_instructions():
    def call(fn, args, env):
        need(len(args) == 1 and fn.type_of(strip_ref(args[0]), env) == T_LINSTR, "lint_instructions arguments")
        return "(lint_instructions %s)" % fn.ex(strip_ref(args[0]), env)

    def err(fn):
        e = fn.newvar("e")
        return "RErr %s" % e, e
    return {"call": call, "ok": lambda fn, v: ("ROk", None), "err": err}


def b_lint_file(srcs):
    params, body = rs2v.parse_fn_q(srcs[LINTER], "lint_file")
    need(len(params) == 1, "lint_file: %d parameters" % len(params))
    cfg = base_cfg("gen_lint_file")
    cfg["params"] = {params[0][0]: (Ty.STR, "file")}
    cfg["results"] = {"parser::parse_file": res_parse_file(), "lint_instructions": res_lint_instructions()}
    cfg["print_handler"] = printer(PRINTS_LINT)

    def rh(fn, e, env, ctx):
        says = "true" if "parsed" in printed(env) else "false"
        if is_call(e, "Ok") and len(e[2]) == 1 and is_unit(e[2][0]):
            need(printed(env) == ["parsed", "clean"], "lint_file: Ok(()) after printing %s" % printed(env))
            return "(%s, ROk)" % says
        if is_call(e, "Err") and len(e[2]) == 1 and fn.type_of(e[2][0], env) == "error":
            return "(%s, RErr %s)" % (says, fn.ex(e[2][0], env))
        return None
    cfg["result_handler"] = rh
    cfg["res"]["err"] = POISON            # every Err(..) of lint_file goes through the result handler
    fn = rs2v.FnGlue(cfg)
    term = fn.function(params, body)
    need(not fn.loops, "lint_file: loop")
    return "Definition gen_lint_file (parse_file : str -> tres) (file : str) : bool * result :=\n%s.\n" % term


# ---- main.rs -----------------------------------------------------------------------------------------------
def res_create_context():
    def call(fn, args, env):
        need(not args, "create_context arguments")
        return ""
    return {"call": call, "ok": lambda fn, v: ("_", ("context", "tt")), "err": lambda fn: ("_", "CLib"), "infallible": True}


def res_runner(verdict, nargs):
    """runner::<f>(<text>, context[, None]) -> <verdict> <text>;  Err(_) is the model's CLib"""
    def call(fn, args, env):
        need(len(args) == nargs, "runner call: %d arguments" % len(args))
        rest = list(args)
        text = None
        if nargs == 3:
            text = rest.pop(0)
            need(fn.type_of(strip_ref(text), env) == Ty.STR, "runner call: the script argument")
            need(rest[1] == ("path", ["None"]), "runner call: an Env is passed")
        need(rest[0][0] == "path" and len(rest[0][1]) == 1 and env.get(rest[0][1][0], (None,))[0] == "context",
             "runner call: the context is not the one create_context() returned")
        return "(%s %s)" % (verdict, fn.ex(strip_ref(text), env)) if text is not None else verdict
    return {"call": call, "ok": lambda fn, v: ("true", None), "err": lambda fn: ("false", "CLib")}


def r_unit_ok(fn, e, env, ctx):
    if is_call(e, "Ok") and len(e[2]) == 1 and is_unit(e[2][0]):
        return "ROk"
    return None


def b_run_script(srcs):
    params, body = rs2v.parse_fn_q(srcs[MAIN], "run_script")
    need(len(params) == 2, "run_script: %d parameters" % len(params))
    cfg = base_cfg("gen_run_script")
    cfg["params"] = {params[0][0]: (Ty.STR, "value"), params[1][0]: (Ty.BOOL, "is_file")}
    cfg["results"] = {"create_context": res_create_context(), "runner::run_script_file": res_runner("run_file", 3),
                      "runner::run_script": res_runner("run_text", 3)}
    cfg["result_handler"] = r_unit_ok
    fn = rs2v.FnGlue(cfg)
    term = fn.function(params, body)
    need(not fn.loops, "run_script: loop")
    return ("Definition gen_run_script (run_file run_text : str -> bool) (value : str) (is_file : bool) : result :=\n%s.\n"
            % term)


def b_run_repl(srcs):
    params, body = rs2v.parse_fn_q(srcs[MAIN], "run_repl")
    need(not params, "run_repl: %d parameters" % len(params))
    cfg = base_cfg("gen_run_repl")
    cfg["results"] = {"create_context": res_create_context(), "runner::repl": res_runner("repl", 1)}
    cfg["result_handler"] = r_unit_ok
    fn = rs2v.FnGlue(cfg)
    term = fn.function(params, body)
    need(not fn.loops, "run_repl: loop")
    return "Definition gen_run_repl (repl : bool) : result :=\n%s.\n" % term


def l_args(fn, e, env):
    need(e[0] == "mcall" and e[2] == "collect" and not e[3] and is_call(e[1], "env", "args") and not e[1][2],
         "`args` is not env::args().collect()")
    return T_list(Ty.STR), "argv"


def cli_leaf(named):
    """the result of run_cli for a tail expression; named=False: the verdict (gen_run_cli), True: the action (gen_dispatch)"""
    def rh(fn, e, env, ctx):
        if is_call(e, "Ok") and len(e[2]) == 1 and is_unit(e[2][0]):
            p = printed(env)
            need(p in (["version"], ["help"]), "run_cli: Ok(()) after printing %s" % p)
            return "(Some %s)" % ({"version": "AVersion", "help": "AHelp"}[p[0]] if named else "ROk")
        need(not printed(env), "run_cli: a line is printed before a callee decides")
        if is_call(e, "run_repl") and not e[2]:
            return "(Some ARepl)" if named else "(Some (run_repl repl))"
        if is_call(e, "run_script") and len(e[2]) == 2:
            v, f = strip_ref(e[2][0]), e[2][1]
            need(fn.type_of(v, env) == Ty.STR and fn.type_of(f, env) == Ty.BOOL, "run_script arguments")
            v, f = fn.ex(v, env), fn.ex(f, env)
            if not named:
                return "(Some (run_script run_file run_text %s %s))" % (v, f)
            if f in ("true", "false"):
                return "(Some (%s %s))" % ("ARunFile" if f == "true" else "ARunText", v)
            return "(Some (if %s then ARunFile %s else ARunText %s))" % (f, v, v)
        if is_call(e, "linter", "lint_file") and len(e[2]) == 1:
            v = strip_ref(e[2][0])
            need(fn.type_of(v, env) == Ty.STR, "lint_file arguments")
            return "(Some (ALint %s))" % fn.ex(v, env) if named else "(Some (snd (lint_file parse_file %s)))" % fn.ex(v, env)
        return None
    return rh


def b_run_cli(srcs):
    src = srcs[MAIN]
    need(re.search(r"^\s*use\s+std::env\s*;", src, re.M), "main.rs: `use std::env;` not found")
    need(re.search(r"^\s*mod\s+linter\s*;", src, re.M), "main.rs: `mod linter;` not found")
    out = []
    for named, head in ((False, "Definition gen_run_cli %s (argv : list str) : option result" % VERDICTS),
                        (True, "Definition gen_dispatch (argv : list str) : option action")):
        params, body = rs2v.parse_fn_q(src, "run_cli")
        need(not params, "run_cli: %d parameters" % len(params))
        cfg = base_cfg("gen_dispatch" if named else "gen_run_cli")
        cfg["let_handlers"] = {"args": l_args}
        cfg["const_lists"] = ("args",)
        cfg["opaque_macros"] = ("include_str",)
        cfg["print_handler"] = printer(PRINTS_CLI)
        cfg["result_handler"] = cli_leaf(named)
        cfg["res"] = {"err": POISON, "panic": "None"}
        fn = rs2v.FnGlue(cfg)
        term = fn.function(params, body)
        need(not fn.loops, "run_cli: loop")
        out.append("%s :=\n%s.\n" % (head, term))
    return "".join(out)


def b_main(srcs):
    src = srcs[MAIN]
    need(re.search(r"^\s*use\s+std::process::exit\s*;", src, re.M), "main.rs: `use std::process::exit;` not found")
    params, body = rs2v.parse_fn_q(src, "main")
    need(not params, "main: %d parameters" % len(params))
    cfg = base_cfg("gen_main")

    def call(fn, args, env):
        need(not args, "run_cli arguments")
        return "r"

    def err(fn):
        e = fn.newvar("e")
        return "RErr %s" % e, e
    cfg["results"] = {"run_cli": {"call": call, "ok": lambda fn, v: ("ROk", None), "err": err}}
    cfg["print_handler"] = printer(PRINTS_MAIN)

    def says(env):
        p = env["%printed"][1]
        need(all(len(a) == 1 and a[0][0] == "path" and len(a[0][1]) == 1 and env.get(a[0][1][0], (None,))[0] == "error"
                 for _t, a in p), "main: the Error line does not print the error run_cli returned")
        need(len(p) <= 1, "main: several Error lines")
        return "true" if p else "false"
    cfg["exit_handler"] = lambda fn, n, env: "(%d%%N, %s)" % (n % 256, says(env))
    cfg["final_unit"] = lambda fn, env: "(0%%N, %s)" % says(env)
    cfg["res"]["err"] = POISON
    fn = rs2v.FnGlue(cfg)
    term = fn.function(params, body)
    need(not fn.loops, "main: loop")
    return "Definition gen_main (r : result) : N * bool :=\n%s.\n" % term


FUNCTIONS = [
    ("is_lower_case", "gen_is_lower_case_understood", b_is_lower_case,
     "Definition gen_is_lower_case (value : option str) : bool := false.\n"),
    ("lint_instruction", "gen_lint_instruction_understood", b_lint_instruction,
     "Definition gen_lint_instruction (label output command : option str) : option lint_kind := None.\n"),
    ("lint_instructions", "gen_lint_instructions_understood", b_lint_instructions,
     "Definition gen_lint_instructions_body (st : unit) (i : instr) : lstep unit (result) := LCont st.\n"
     "Definition gen_lint_instructions (instructions : list instr) : result := RErr CLib.\n"),
    ("lint_file", "gen_lint_file_understood", b_lint_file,
     "Definition gen_lint_file (parse_file : str -> tres) (file : str) : bool * result := (false, RErr CLib).\n"),
    ("run_script", "gen_run_script_understood", b_run_script,
     "Definition gen_run_script (run_file run_text : str -> bool) (value : str) (is_file : bool) : result := RErr CLib.\n"),
    ("run_repl", "gen_run_repl_understood", b_run_repl,
     "Definition gen_run_repl (repl : bool) : result := RErr CLib.\n"),
    ("run_cli", "gen_run_cli_understood", b_run_cli,
     "Definition gen_run_cli %s (argv : list str) : option result := None.\n"
     "Definition gen_dispatch (argv : list str) : option action := None.\n" % VERDICTS),
    ("main", "gen_main_understood", b_main,
     "Definition gen_main (r : result) : N * bool := (0%N, false).\n"),
]

HEAD = "Require Import DS.Parser DS.Cli DS.CliFns DS.Rs2vCliLib.\nLocal Open Scope bool_scope.\n"


def check_instruction_rs(src):
    fields, _new = rs2v.read_struct(src, "ScriptInstruction")
    need(fields == SI_FIELDS, "%s: struct ScriptInstruction has fields %s" % (INSTR, fields))
    fields, _new = rs2v.read_struct(src, "InstructionMetaInfo")
    need(fields == ["line", "source"], "%s: struct InstructionMetaInfo has fields %s" % (INSTR, fields))
    fields, _new = rs2v.read_struct(src, "Instruction")
    need(fields == ["meta_info", "instruction_type"], "%s: struct Instruction has fields %s" % (INSTR, fields))
    m = re.search(r"pub\s+enum\s+InstructionType\s*\{(.*?)\n\}", src, re.S)
    need(m is not None, "%s: enum InstructionType not found" % INSTR)
    variants = re.findall(r"^\s*(\w+)\s*(?:\(([^)]*)\))?\s*,", re.sub(r"//[^\n]*", "", m.group(1)), re.M)
    need(variants == [("Empty", ""), ("PreProcess", "PreProcessInstruction"), ("Script", "ScriptInstruction")],
         "%s: enum InstructionType has variants %s" % (INSTR, variants))


def generate(api, force_stub=False):
    text = HEAD
    common_err = None
    srcs = {}
    try:
        for rel in (MAIN, LINTER, INSTR):
            srcs[rel] = api.read(rel)
        check_instruction_rs(srcs[INSTR])
    except Exception as e:  # noqa: BLE001
        common_err = str(e)
    for rust, flag, build, stub in FUNCTIONS:
        try:
            if force_stub:
                raise Rs2vError("stub requested")
            if common_err:
                raise Rs2vError(common_err)
            body = build(srcs)
            text += "Definition %s : bool := true.\n%s" % (flag, body)
        except Exception as e:  # noqa: BLE001  anything unexpected means: not understood (never a crash, never a guess)
            why = (type(e).__name__ + ": " if not isinstance(e, Rs2vError) else "") + str(e).replace("*)", "* )").replace("(*", "( *")
            # run_cli carries the flag of the tie key: its reason is written the way Check.source_tie reads it
            tag = "(* NOT UNDERSTOOD: run_cli: %s *)" % why if rust == "run_cli" else "(* NOT UNDERSTOOD %s: %s *)" % (rust, why)
            text += "%s\nDefinition %s : bool := false.\n%s" % (tag, flag, stub)
    api.emit("GenCliFn.v", text, MAIN + " (fn run_cli, run_script, run_repl, main), " + LINTER +
             " (fn lint_file, lint_instructions, lint_instruction, is_lower_case) by lib/rs2v.py")
