"""registry_gen — TRANSLATE `impl Commands` of /repo/duckscript/src/types/command.rs into Gallina on every run
(lib/rs2v.py, class FnM) -> coq/generated/GenRegistryFn.v:

  Commands::set                    gen_set          : reg -> name -> list name -> reg * option set_err
  Commands::get                    gen_get          : reg -> name -> option (name * list name)
  Commands::exists                 gen_exists       : reg -> name -> bool
  Commands::get_for_use            gen_get_for_use  : reg -> name -> reg * option (name * list name)
  Commands::get_all_command_names  gen_names        : reg -> list name
  Commands::remove                 gen_remove       : reg -> name -> reg * bool

over the SAME state type as the hand model theories/Registry.v (reg = two gmaps).  theories/RegistryGenTie.v proves,
for ALL states and arguments, that the hand model functions reg_set / reg_get / reg_exists / reg_get_for_use /
reg_names / reg_remove are EQUAL to these translations (props/SrcRegistry.v), so the theorems of C15 are about what
the source says now.

Representation (the one of Registry.v): a command is what the registry can observe of it, the pair
(name(), aliases()); the `commands` map stores aliases() under the key name(); a command read back from the map
under key k is (k, stored list) — `set` is the only writer and inserts under command.name().  A `&mut self` method
returns the receiver AS IT IS when the function returns together with the value, so a mutation before an early
`return Err(..)` is visible: gen_set returns (registry, None) for Ok(()) and (registry, Some error) for Err(..).
The two error messages of `set` are recognised by their format strings.

Not understood -> `gen_registry_understood := false` and stubs; the tie theorems (stated under `... = true`) stay
provable and the check reports the tie inactive."""
import os
import sys

sys.path.insert(0, os.path.dirname(os.path.dirname(os.path.abspath(__file__))))
import rs2v  # noqa: E402
from rs2v import Ty, Rs2vError  # noqa: E402

REL = "duckscript/src/types/command.rs"

SET_ERRORS = {
    # format string -> (constructor, index of the argument it carries or None, indices of arguments that must be the name)
    "Command: {} already defined.": ("ESetName", None, [0]),
    "Alias: {} for command: {} already defined.": ("ESetAlias", 0, [1]),
}


def pack_self(fn, env):
    c, a = env["self.commands"][1], env["self.aliases"][1]
    if c.startswith("(cmds ") and a.startswith("(als ") and c[6:-1] == a[5:-1] and c[6:-1].replace("_", "").isalnum():
        return c[6:-1]
    return "(Reg %s %s)" % (c, a)


def m_name(fn, recv, args, env):
    if args or recv[0] != "path" or len(recv[1]) != 1 or recv[1][0] not in env or env[recv[1][0]][0] != "cmd":
        raise Rs2vError("name() on %r" % (recv,))
    return env[recv[1][0]][1][0]


def m_aliases(fn, recv, args, env):
    if args or recv[0] != "path" or len(recv[1]) != 1 or recv[1][0] not in env or env[recv[1][0]][0] != "cmd":
        raise Rs2vError("aliases() on %r" % (recv,))
    return env[recv[1][0]][1][1]


def map_put(fn, mt, x, env):
    if mt == "cmdmap":
        if x[0] != "path" or len(x[1]) != 1 or x[1][0] not in env or env[x[1][0]][0] != "cmd":
            raise Rs2vError("value inserted into commands: %r" % (x,))
        return env[x[1][0]][1][1]          # the stored observable: aliases()
    return fn.ex(x, env)


def map_got(fn, mt, kterm, var):
    if mt == "cmdmap":
        return "cmd", (kterm, var)          # stored under its name(): the command is (key, stored aliases())
    return fn.cfg["maps"][mt]["val"], var


def base_cfg(coq_name, binders, args, result_type, result, mut_self):
    return {
        "coq_name": coq_name, "fn_binders": binders, "fn_args": args, "result_type": result_type, "result": result,
        "mut_self": mut_self, "locals": {}, "params": {},
        "self_fields": {"self.commands": ("cmdmap", "(cmds self)"), "self.aliases": ("aliasmap", "(als self)")},
        "self_state": {"type": "reg", "fields": {"self.commands": "(cmds %s)", "self.aliases": "(als %s)"}, "pack": pack_self},
        "maps": {"cmdmap": {"key": "name", "val": "cmd"}, "aliasmap": {"key": "name", "val": "name"}},
        "lists": {"names": "name"},
        "coq_types": {"name": "name", "names": "list name", "cmd": "name * list name", Ty.BOOL: "bool",
                      ("stored", "cmdmap"): "list name", ("stored", "aliasmap"): "name",
                      "opt:cmd": "option (name * list name)", "opt:name": "option name"},
        "methods": {"name": m_name, "aliases": m_aliases},
        "method_types": {"name": "name", "aliases": "names"},
        "map_put": map_put, "map_got": map_got,
        "sort": "(merge_sort name_le %s)",
    }


def with_self(fn, e, env):
    return "(%s, %s)" % (pack_self(fn, env), fn.ex(e, env))


def set_result(fn, e, env):
    """Ok(()) / Err(ScriptError::Initialization(format!(<known message>, ..)))"""
    if e[0] == "call" and e[1] == ("path", ["Ok"]) and e[2] == [("tuple", [])]:
        return "(%s, None)" % pack_self(fn, env)
    if e[0] == "call" and e[1] == ("path", ["Err"]) and len(e[2]) == 1:
        x = e[2][0]
        if x[0] == "call" and x[1] == ("path", ["ScriptError", "Initialization"]) and len(x[2]) == 1 \
                and x[2][0][0] == "macro" and x[2][0][1] == "format" and x[2][0][2] and x[2][0][2][0][0] == "str":
            fmt, fargs = x[2][0][2][0][1], x[2][0][2][1:]
            if fmt not in SET_ERRORS:
                raise Rs2vError("unknown error message of set: %r" % fmt)
            ctor, carried, names = SET_ERRORS[fmt]
            if len(fargs) != (1 if carried is None else 2):
                raise Rs2vError("arguments of the error message %r" % fmt)
            for i in names:
                if fn.type_of(fargs[i], env) != "name" or fn.ex(fargs[i], env) != fn.cfg["the_name"]:
                    raise Rs2vError("error message %r does not name the command" % fmt)
            if carried is None:
                return "(%s, Some %s)" % (pack_self(fn, env), ctor)
            if fn.type_of(fargs[carried], env) != "name":
                raise Rs2vError("error message %r: argument type" % fmt)
            return "(%s, Some (%s %s))" % (pack_self(fn, env), ctor, fn.ex(fargs[carried], env))
    raise Rs2vError("result of set: %r" % (e,))


# (rust fn, coq name, receiver, [(coq parameter name(s), type)], binders, args, result type, result builder, locals)
FUNS = [
    ("set", "gen_set", "mut", [("cmd", ("n", "decl"))], "(self : reg) (n : name) (decl : list name)", "self n decl",
     "reg * option set_err", set_result, {}),
    ("get", "gen_get", "ref", [("name", "x")], "(self : reg) (x : name)", "self x",
     "option (name * list name)", None, {}),
    ("exists", "gen_exists", "ref", [("name", "x")], "(self : reg) (x : name)", "self x", "bool", None, {}),
    ("get_for_use", "gen_get_for_use", "mut", [("name", "x")], "(self : reg) (x : name)", "self x",
     "reg * option (name * list name)", with_self, {}),
    ("get_all_command_names", "gen_names", "ref", [], "(self : reg)", "self", "list name", None, {"names": "names"}),
    ("remove", "gen_remove", "mut", [("name", "x")], "(self : reg) (x : name)", "self x", "reg * bool", with_self, {}),
]

HEAD = ("From stdpp Require Import gmap list sorting.\n"
        "Require Import DS.Registry DS.RegistryGenLib DS.Rs2vMapLib.\nLocal Open Scope bool_scope.\n")

STUB = """Definition gen_registry_understood : bool := false.
Definition gen_set (self : reg) (n : name) (decl : list name) : reg * option set_err := (self, None).
Definition gen_get (self : reg) (x : name) : option (name * list name) := None.
Definition gen_exists (self : reg) (x : name) : bool := false.
Definition gen_get_for_use (self : reg) (x : name) : reg * option (name * list name) := (self, None).
Definition gen_names (self : reg) : list name := [].
Definition gen_remove (self : reg) (x : name) : reg * bool := (self, false).
"""


def translate(src):
    out = ["Definition gen_registry_understood : bool := true.\n"]
    for rust, coq, recv, ptypes, binders, args, rtype, result, locs in FUNS:
        try:
            receiver, params, body = rs2v.parse_method(src, "Commands", rust)
            if receiver != recv:
                raise Rs2vError("receiver is %s, expected %s" % (receiver, recv))
            if len(params) != len(ptypes):
                raise Rs2vError("%d parameters, expected %d" % (len(params), len(ptypes)))
            cfg = base_cfg(coq, binders, args, rtype, result, recv == "mut")
            cfg["locals"] = dict(locs)
            for (pn, _), (t, term) in zip(params, ptypes):
                cfg["params"][pn] = (t, term)
            cfg["the_name"] = "n"
            cfg["helpers"] = {"get": {"coq": "gen_get", "ret": "opt:cmd"}} if rust == "exists" else {}
            fn = rs2v.FnM(cfg)
            term = fn.function(params, body)
        except Rs2vError as e:
            raise Rs2vError("Commands::%s: %s" % (rust, e))
        for _, text in fn.loops:
            out.append(text)
        out.append("Definition %s %s : %s :=\n%s.\n" % (coq, binders, rtype, term))
    return "".join(out)


def generate(api, force_stub=False):
    try:
        if force_stub:
            raise Rs2vError("translation rejected: %s" % force_stub)
        text = HEAD + translate(api.read(REL))
    except (Rs2vError, api.GenError, KeyError, IndexError, TypeError, AttributeError) as e:
        text = HEAD + "(* NOT UNDERSTOOD: %s *)\n" % str(e).replace("*)", "* )").replace("(*", "( *") + STUB
    api.emit("GenRegistryFn.v", text, REL + " (impl Commands: set, get, exists, get_for_use, get_all_command_names, "
             "remove) by lib/rs2v.py")
