"""c11_gen — regenerate coq/generated/GenUnset.v from the script-implemented `unset` command.

Read mechanically (GenError -> `gen_unset_understood = false`, which breaks C11_tables only):
  * duckscript_sdk/src/sdk/std/var/unset/script.ds: its non-blank lines, trimmed   -> gen_unset_script
  * duckscript_sdk/src/sdk/std/var/unset/mod.rs: the alias list, the scope name and the minimal
    argument count passed to create_alias_command                    -> gen_unset_aliases / _scope / _min_args
The model of `unset` in theories/Scope.v (wrapper + fold over the arguments) is written for exactly
this script; theories/ScopeTables.v proves the generated text is the one modelled."""
import re


def generate(api):
    try:
        _generate(api)
    except api.GenError as e:
        api.emit("GenUnset.v",
                 "(* NOT UNDERSTOOD: %s *)\nDefinition gen_unset_understood : bool := false.\n"
                 "Definition gen_unset_script : list str := [].\nDefinition gen_unset_aliases : list str := [].\n"
                 "Definition gen_unset_scope : str := [].\nDefinition gen_unset_min_args : N := 0.\n"
                 % str(e).replace("*)", "* )"), "duckscript_sdk/src/sdk/std/var/unset")


def _generate(api):
    d = "duckscript_sdk/src/sdk/std/var/unset/"
    script = api.read(d + "script.ds")
    lines = [l.strip() for l in script.split("\n") if l.strip()]
    src = api.read(d + "mod.rs")
    m = re.search(r'create_alias_command\(\s*name,\s*vec!\[(.*?)\],\s*include_str!\("help\.md"\)\.to_string\(\),\s*'
                  r'"((?:[^"\\]|\\.)*)"\.to_string\(\),\s*include_str!\("script\.ds"\)\.to_string\(\),\s*(\d+),?\s*\)', src, re.S)
    if not m:
        raise api.GenError(d + "mod.rs: create_alias_command(name, vec![..], help, \"scope\", script, n) not found")
    aliases = [api.rust_str(a) for a in re.findall(r'"((?:[^"\\]|\\.)*)"\.to_string\(\)', m.group(1))]
    api.emit("GenUnset.v",
             "Definition gen_unset_understood : bool := true.\n"
             "Definition gen_unset_script : list str := %s.\nDefinition gen_unset_aliases : list str := %s.\n"
             "Definition gen_unset_scope : str := %s.\nDefinition gen_unset_min_args : N := %d.\n"
             % (api.coq_list(lines), api.coq_list(aliases), api.coq_str(api.rust_str(m.group(2))), int(m.group(3))),
             d + "{script.ds,mod.rs}")
