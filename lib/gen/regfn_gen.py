"""regfn_gen — TRANSLATE the REGISTRY VIEW of FunctionCommand::run (duckscript_sdk/src/sdk/std/flowcontrol/function/mod.rs, the
`fn` / `function` command) into Gallina on every run (lib/rs2v.py, classes PFlowfn / FnFlowfn) -> coq/generated/GenRegfnFn.v:

    gen_fn_register (ann : name -> option (list name)) (meta : name -> nat * nat) (found : fc_res) (line : nat)
                    (args : list name) (s : sreg) : option (sreg * fres)          flag gen_fn_register_understood

over the state type of the hand model theories/Registry.v (sreg).  theories/RegfnGenTie.v proves that on the domain of the
SFn arm of Registry.sstep — the definition line of a function `n` seen for the first time with its end found, or seen again at
the line it was defined at — gen_fn_register .. = Some (sstep s (SFn n)) (props/SrcRegfn.v, tie key "regfn"; C15).

The tie "flowfn" (lib/gen/flowfn_gen.py) translates the SAME function over FlowFn.v's state, where the registry does not exist:
there `context.commands.set(..)` is configured to succeed.  This file is the complementary view: everything the registry and the
table of defined function names can observe, with the block scan abstracted.

WHAT COMES FROM THE SOURCE (re-read on every run)
  the control structure of FunctionCommand::run: the argument-count tests and which argument is the function name (one argument /
  annotation::parse of the first answered Some / None; `arguments[i]` are explicit panic arms = None), the lookup of the stored
  meta info BEFORE anything else and what a hit does (`fn_info.start != context.line`: Error, else GoTo — no registration), that
  find_commands is consulted only on a miss and what each of its three answers leads to, the ORDER store_fn_info_in_state ->
  commands.set (the name is in the table of defined functions when a refused `set` returns: no rollback), what `set`'s Ok / Err
  arms return, the declaration of CallFunctionCommand (struct { name: String }, `name()` must be `self.name.clone()`, no
  `aliases()`: the trait default `vec![]`, checked on duckscript/src/types/command.rs) and the literal handed to `set`.

WHAT COMES FROM THIS CONFIGURATION (the abstraction Registry.v makes of `fn`; nothing else)
  * `context.commands` is `sr_reg s`; commands.set(Box::new(c)) = set_outcome r (reg_set r c.name() c.aliases()) as in
    lib/gen/regcmds_gen.py (tie "registry");
  * the function meta-info sub-state of `context.state` is seen as the SET of names `sr_fn s` plus a ghost table
    `meta : name -> nat * nat` (start, end line of a stored entry): get_fn_info_from_state(context.state, n) is Some(info) iff
    n ∈ sr_fn s, with info.start / info.end = meta n; store_fn_info_in_state(context.state, info) inserts info.name and returns
    Ok(()) — both are translated and tied over the real encoding by the tie "flowfn" (its "already defined" test is dead there:
    FlowfnGenTie) — they are configured callees here;
  * everything that only feeds the block scan is GHOST (no term, cannot reach the registry): the name lists built from
    aliases() / name() of the flow-control commands, `self.package`, the instruction list, annotation contents (`scoped`),
    end::set_command; instruction_query::find_commands(..) is the PARAMETER `found` (FFound end / FNone / FErr);
    annotation::parse is the PARAMETER `ann`; `context.line` is `line`;
  * CommandResult::GoTo(None, GoToValue::Line(_)) is FRes SNone (the jump target is ghost), Error(_) is FRes SErr (texts
    erased), Crash(_) is FCrash (outside Registry.sres; unreachable on the domain of SFn).

Anything not understood (every exception) -> `gen_fn_register_understood := false` and a type-correct stub (None)."""
import os
import re
import sys

sys.path.insert(0, os.path.dirname(os.path.dirname(os.path.abspath(__file__))))
sys.path.insert(0, os.path.dirname(os.path.abspath(__file__)))
import rs2v  # noqa: E402
from rs2v import Rs2vError, CmdV  # noqa: E402
import regcmds_gen as rc  # noqa: E402
from regcmds_gen import need, clean  # noqa: E402

REL = "duckscript_sdk/src/sdk/std/flowcontrol/function/mod.rs"
HEAD = ("From stdpp Require Import gmap list.\n"
        "Require Import DS.Registry DS.RegistryGenLib DS.Rs2vMapLib DS.RegcmdsGenLib DS.RegfnGenLib.\n"
        "Local Open Scope bool_scope.\n")
BINDERS = ("(ann : name -> option (list name)) (meta : name -> nat * nat) (found : fc_res) (line : nat) "
           "(args : list name) (s : sreg)")
RTYPE = "option (sreg * fres)"
T_CTX = "CommandInvocationContext"
GHOST = CmdV("ghost")


def is_ghost(v):
    return v.ty == "ghost" or (isinstance(v.ty, tuple) and v.ty[0] in ("list", "opt") and v.ty[1] in (None, "ghost") and v.term in (None, "[]"))


# ---- ghost values: everything that only feeds the block scan ------------------------------------------------------------
def m_ghost(fn, r, vs, tf, expect):
    return GHOST


def m_ghost_unit(fn, r, vs, tf, expect):
    return CmdV("unit")


def mac_vec(fn, args, env, k, ctx, expect):
    return fn.seq(args, env, lambda vs: k(GHOST), ctx)


def path_fallback(fn, p, vs, expect):
    parts = p.split("::")
    if len(parts) >= 2 and parts[-1] == "new" and parts[-2][:1].isupper() and all(is_ghost(v) for v in vs):
        return GHOST          # <Some>Command::new(&self.package)
    return None


def s_ghost(fn, fields, env):
    need(all(is_ghost(v) for _f, v in fields), "a command struct built from something else than the package")
    return GHOST


# ---- configured callees ------------------------------------------------------------------------------------------------
def p_annotation_parse(fn, vs, expect):
    need(len(vs) == 1 and vs[0].ty == "str" and vs[0].term is not None, "annotation::parse: arguments")
    return CmdV(("opt", "ghost"), "(ann %s)" % vs[0].term)


def p_end_set_command(fn, vs, expect):
    need(len(vs) == 3 and vs[1].ty == "ctxstate", "end::set_command: arguments")
    return CmdV("discard")


def cp_find_commands(fn, vs, expect, k):
    need(len(vs) == 9 and vs[0].ty == "ghost", "find_commands: the first argument is not the instruction list")
    e = fn.fresh("end")
    pos = CmdV(("struct", "Positions"), None, items={"middle": GHOST, "end": CmdV("nat", e)})
    oty = ("opt", ("struct", "Positions"))
    rty = ("res", oty, "msg")
    ok = k(CmdV(rty, None, known=("Ok", CmdV(oty, None, known=("Some", pos)))))
    none = k(CmdV(rty, None, known=("Ok", CmdV(oty, None, known=("None",)))))
    bad = k(CmdV(rty, None, known=("Err", CmdV("msg", None, lit="%find_commands"))))
    return ("match found with\n| FFound %s =>\n%s\n| FNone =>\n%s\n| FErr =>\n%s\nend"
            % (e, rs2v.cmd_indent(ok, 4), rs2v.cmd_indent(none, 4), rs2v.cmd_indent(bad, 4)))


def cp_get_fn_info(fn, vs, expect, k):
    need(len(vs) == 2 and vs[0].ty == "ctxstate" and vs[1].ty == "str" and vs[1].term is not None,
         "get_fn_info_from_state of something else than (context.state, a name)")
    n = vs[1].term
    info = CmdV(("struct", "FunctionMetaInfo"), None, items={
        "name": vs[1], "start": CmdV("nat", "(fst (meta %s))" % n), "end": CmdV("nat", "(snd (meta %s))" % n), "scoped": GHOST})
    oty = ("opt", ("struct", "FunctionMetaInfo"))
    some = k(CmdV(oty, None, known=("Some", info)))
    none = k(CmdV(oty, None, known=("None",)))
    return fn.ite("(bool_decide (%s ∈ %s))" % (n, fn.st["fn"].term), some, none)


def p_store_fn_info(fn, vs, expect):
    need(len(vs) == 2 and vs[0].ty == "ctxstate" and vs[1].ty == ("struct", "FunctionMetaInfo") and vs[1].items is not None,
         "store_fn_info_in_state of something else than (context.state, a FunctionMetaInfo)")
    n = vs[1].items["name"]
    need(n.ty == "str" and n.term is not None, "store_fn_info_in_state: the name of the function")
    fn.write("fn", CmdV("nameset", "({[ %s ]} ∪ %s)" % (n.term, fn.st["fn"].term)))
    return CmdV(("res", "unit", "str"), None, known=("Ok", CmdV("unit")))


def s_meta_info(fn, fields, env):
    need(sorted(f for f, _ in fields) == ["end", "name", "scoped", "start"], "FunctionMetaInfo { .. }: fields")
    fv = dict(fields)
    need(fv["name"].ty == "str" and fv["name"].term is not None and fv["start"].ty == "nat" and fv["end"].ty == "nat",
         "FunctionMetaInfo { .. }: field types")
    return CmdV(("struct", "FunctionMetaInfo"), None, items=fv)


def s_call_command(fn, fields, env):
    need(fn.cfg["default_aliases_ok"] is True, "Command::aliases default: %s" % fn.cfg["default_aliases_ok"])
    need([f for f, _ in fields] == ["name"] and fields[0][1].ty == "str" and fields[0][1].term is not None,
         "CallFunctionCommand { .. }: fields")
    items = env.get("%items", {})
    st = items.get(("struct", "CallFunctionCommand"))
    need(st is not None and [(f, t.replace(" ", "")) for f, t in st[3]] == [("name", "String")],
         "struct CallFunctionCommand { name: String } is not declared here")
    im = items.get(("impl", "Command", "CallFunctionCommand"))
    need(im is not None, "impl Command for CallFunctionCommand is not declared here")
    fns = im[4]
    need("name" in fns and "run" in fns, "impl Command for CallFunctionCommand: its functions")
    need("aliases" not in fns, "CallFunctionCommand declares aliases() of its own")
    rcv, params, _ret, body = fns["name"]
    need(rcv == "ref" and not params and body == rc.NAME_BODY, "CallFunctionCommand::name is not self.name.clone()")
    return CmdV("cmdvalue", None, items={"name": fields[0][1], "aliases": "[]"})


# ---- constructors ------------------------------------------------------------------------------------------------------
def c_goto(fn, vs, expect):
    need(len(vs) == 2 and vs[0].known == ("None",) and vs[1].ty == "gotovalue", "GoTo of something else than (None, GoToValue::Line(..))")
    return CmdV("cmdresult", "FRes SNone")


def c_goto_line(fn, vs, expect):
    need(len(vs) == 1 and vs[0].ty == "nat", "GoToValue::Line of something else than a line number")
    return CmdV("gotovalue")


def c_error(fn, vs, expect):
    need(len(vs) == 1 and vs[0].ty in ("str", "msg"), "Error of %r" % ([v.ty for v in vs],))
    return CmdV("cmdresult", "FRes SErr")


def c_crash(fn, vs, expect):
    need(len(vs) == 1 and vs[0].ty in ("str", "msg"), "Crash of %r" % ([v.ty for v in vs],))
    return CmdV("cmdresult", "FCrash")


CTORS = {"CommandResult::GoTo": c_goto, "GoToValue::Line": c_goto_line, "CommandResult::Error": c_error, "CommandResult::Crash": c_crash}

METHODS = dict(rc.METHODS)
METHODS.update({
    ("ghost", "aliases"): m_ghost, ("ghost", "name"): m_ghost, ("ghost", "clone"): m_ghost, ("ghost", "to_string"): m_ghost,
    ("ghost", "contains"): m_ghost, ("ghost", "push"): m_ghost_unit, ("ghost", "append"): m_ghost_unit,
})


def finish(fn, v):
    need(v.ty == "cmdresult" and v.term is not None, "`run` ends with a value of type %r" % (v.ty,))
    return "Some (SReg %s (sr_alias s) %s, %s)" % (fn.st["reg"].term, fn.st["fn"].term, v.term)


def translate(api, facts):
    src = api.read(REL)
    receiver, params, ret, body = rs2v.parse_flowfn_method(src, "Command", "FunctionCommand", "run")
    need(receiver == "ref" and len(params) == 1 and params[0][1].replace(" ", "") == T_CTX and ret is not None
         and ret.replace(" ", "") == "CommandResult", "FunctionCommand::run: unexpected signature")
    c = params[0][0]
    free = rs2v.cmd_free_fns(rs2v.strip_attributes(src))
    need("get_fn_info_from_state" in free and "store_fn_info_in_state" in free,
         "get_fn_info_from_state / store_fn_info_in_state are not functions of this file")
    ps, rt, _b = rs2v.parse_flowfn_fn(src, "store_fn_info_in_state")
    need(len(ps) == 2 and rt is not None and rt.replace(" ", "") == "Result<(),String>", "store_fn_info_in_state: signature")
    ps, rt, _b = rs2v.parse_flowfn_fn(src, "get_fn_info_from_state")
    need(len(ps) == 2 and rt is not None and rt.replace(" ", "") == "Option<FunctionMetaInfo>", "get_fn_info_from_state: signature")
    cfg = {
        "params": {"self": GHOST}, "statics": {},
        "fields": {(c, "arguments"): CmdV("args", "args"), (c, "commands"): CmdV(("ref", "reg")), (c, "state"): CmdV("ctxstate"),
                   (c, "line"): CmdV("nat", "line"), (c, "instructions"): GHOST, ("self", "package"): GHOST},
        "args_term": "args", "panic": "None", "finish": finish, "ctors": CTORS,
        "paths": {"Box::new": rc.p_box_new, "annotation::parse": p_annotation_parse, "end::set_command": p_end_set_command,
                  "store_fn_info_in_state": p_store_fn_info},
        "methods": METHODS, "cps_methods": rc.CPS_METHODS,
        "cps_paths": {"instruction_query::find_commands": cp_find_commands, "get_fn_info_from_state": cp_get_fn_info},
        "macros": {"format": rc.mac_format, "vec": mac_vec}, "casts": {},
        "compare": {"nat": {"<": "(Nat.ltb %s %s)", "<=": "(Nat.leb %s %s)", "==": "(Nat.eqb %s %s)"}},
        "arith": {}, "arith_total": {("nat", "+"): "(%s + %s)%%nat"}, "literal": {"nat": "%d%%nat"}, "types": rc.types,
        "helpers": {}, "all_fns": {}, "coq_type": rc.coq_type, "range": {}, "cell_types": rc.cell_types, "map_items": {},
        "cells": {"reg": CmdV("reg", "(sr_reg s)"), "fn": CmdV("nameset", "(sr_fn s)")},
        "structs": {"EndFunctionCommand": s_ghost, "FunctionMetaInfo": s_meta_info, "CallFunctionCommand": s_call_command},
        "struct_proj": {}, "int_default": "nat", "consts": {"end::END_COMMAND_NAME": GHOST}, "path_fallback": path_fallback,
        "alias_state_ok": "not used", "default_aliases_ok": facts["default_aliases"],
    }
    term = rc.FnReg(cfg).function(body, "cmdresult")
    return "Definition gen_fn_register %s : %s :=\n%s.\n" % (BINDERS, RTYPE, rs2v.cmd_indent(term))


def generate(api, force_stub=False):
    text = HEAD
    flag = "gen_fn_register_understood"
    try:
        if force_stub:
            raise Rs2vError("stub requested (%s)" % force_stub if isinstance(force_stub, str) else "stub requested")
        body = translate(api, {"default_aliases": rc.default_aliases_check(api)})
        text += "Definition %s : bool := true.\n%s" % (flag, body)
    except Exception as e:  # noqa: BLE001  anything unexpected means: not understood (never a crash, never a guess)
        text += ("(* NOT UNDERSTOOD: %s *)\nDefinition %s : bool := false.\n"
                 "Definition gen_fn_register %s : %s := None.\n" % (clean(e), flag, BINDERS, RTYPE))
    api.emit("GenRegfnFn.v", text, REL + " (fn run of impl Command for FunctionCommand, registry view) by lib/rs2v.py")
