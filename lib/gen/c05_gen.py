"""c05_gen — coq/generated/GenFnNames.v: the spellings of the `return` command and the facts about
`function` the C05 model takes from the source (the function tables themselves are emitted by
c04_gen into GenFlowNames.v: gen_function_* and gen_function_allow_recursive)."""
import re
import c04_gen


def generate(api):
    rel = c04_gen.FILES["function"]
    src = c04_gen.strip_comments(api.read(rel))
    std_rel = "duckscript_sdk/src/sdk/std/mod.rs"
    std_pkg = c04_gen.static_str(api, c04_gen.strip_comments(api.read(std_rel)), "PACKAGE", std_rel)
    fc_rel = c04_gen.FC + "mod.rs"
    fc_pkg = c04_gen.static_str(api, c04_gen.strip_comments(api.read(fc_rel)), "PACKAGE", fc_rel)
    package = c04_gen.concat(std_pkg, fc_pkg)
    blk = c04_gen.impl_block(api, src, "ReturnCommand", rel)
    nb = api.fn_body(blk, "name", rel)
    m = re.fullmatch(r"\{\s*pckg::concat\(\s*&self\.package\s*,\s*\"((?:[^\"\\]|\\.)*)\"\s*\)\s*\}", nb)
    if not m:
        raise api.GenError("%s: ReturnCommand::name() has an unexpected shape" % rel)
    name = c04_gen.concat(package, api.rust_str(m.group(1)))
    ab = api.fn_body(blk, "aliases", rel)
    m = re.fullmatch(r"\{\s*vec!\[(.*)\]\s*\}", ab, re.S)
    if not m:
        raise api.GenError("%s: ReturnCommand::aliases() has an unexpected shape" % rel)
    aliases = []
    for p in [x.strip() for x in m.group(1).strip().rstrip(",").split(",") if x.strip()]:
        mm = re.fullmatch(r"\"((?:[^\"\\]|\\.)*)\"\.to_string\(\)", p)
        if not mm:
            raise api.GenError("%s: ReturnCommand::aliases(): unexpected element %s" % (rel, p))
        aliases.append(api.rust_str(mm.group(1)))
    create = api.fn_body(src, "create", rel)
    for struct in ("FunctionCommand", "EndFunctionCommand", "ReturnCommand"):
        if not re.search(r"Box::new\(\s*%s\s*\{\s*package:\s*package\.to_string\(\)\s*,?\s*\}\s*\)" % struct, create):
            raise api.GenError("%s: create(): %s { package: package.to_string() } not found" % (rel, struct))
    # the annotation that makes a function scoped
    fn_blk = c04_gen.impl_block(api, src, "FunctionCommand", rel)
    run = api.fn_body(fn_blk, "run", rel)
    m = re.search(r"annotations\.contains\(&\"((?:[^\"\\]|\\.)*)\"\.to_string\(\)\)", run)
    if not m:
        raise api.GenError("%s: FunctionCommand::run: the scope annotation test was not found" % rel)
    scope_word = api.rust_str(m.group(1))
    out = [
        "Definition gen_return_name : str := %s.  (* %s *)" % (api.coq_str(name), name),
        "Definition gen_return_aliases : list str := %s.  (* %s *)" % (api.coq_list(aliases), " ".join(aliases)),
        "Definition gen_scope_annotation : str := %s.  (* %s *)" % (api.coq_str(scope_word), scope_word),
    ]
    api.emit("GenFnNames.v", "\n".join(out) + "\n", rel)
