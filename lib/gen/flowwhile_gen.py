"""flowwhile_gen — TRANSLATE the while / end_while commands and their helpers into Gallina on every run (lib/rs2v.py, classes
PFw / FnFw) -> coq/generated/GenFlowwhileFn.v:

  duckscript_sdk/src/utils/pckg.rs                         concat                                    gen_pckg_concat
  duckscript_sdk/src/sdk/std/flowcontrol/mod.rs            get_line_key                              gen_get_line_key
  duckscript_sdk/src/sdk/std/flowcontrol/while_mod/mod.rs  create_while_meta_info_for_line           gen_create_while_meta_info_for_line
                                                           get_or_create_while_meta_info_for_line    gen_get_or_create_while_meta_info_for_line
                                                           pop_call_info_for_line                    gen_pop_call_info_for_line
                                                           store_call_info                           gen_store_call_info
                                                           impl Command for WhileCommand: run        gen_while_run
                                                           impl Command for EndWhileCommand: run     gen_endwhile_run
  (one `<name>_understood` flag each; anything not understood -> flag false and a type-correct stub).

theories/FlowwhileGenTie.v proves each of them equal, for all inputs, to the hand model of C04 / C05 (Flow.v: create_loop_meta
gen_while_tables, while_meta_info, wh_pop, wh_push, step_while, step_endwhile; FlowFnC.v: cstep_while) on the states the model
describes; props/SrcFlowwhile.v holds the wrappers; tie key "flowwhile" (C04, C05).

FROM THE SOURCE (re-read on every run): the order of all reads and writes of the state; the key under which the meta info of a
line is cached (get_line_key: context name, "::", the line number); that a cached entry is used when it deserialises and the
scan result is stored otherwise; what is scanned for (the five name lists are BUILT by executing the statements of
create_while_meta_info_for_line, including the `name()` / `aliases()` / `new()` bodies of the command structs of the sibling
modules ifelse / forin / function and END_COMMAND_NAME of end), from which line, with which flags; `start: line, end: positions.end`;
that the end command of the block's end line is registered on both paths and with which name; the pop loop (which entries are
dropped, the two-part test `meta_info.end == line && line_context_name == current`, what is returned); what store_call_info pushes;
the whole decision tree of both `run` functions (argument test, crash / error / continue / goto, `end + 1`, `start`, the order
"meta info, then condition, then push", the re-push in end_while), the message literals; the field lists of WhileMetaInfo /
CallInfo; the (de)serialisers: serialize_* are EXECUTED on a record of placeholders to learn the stored shape (keys, variants,
nesting — every field exactly once), deserialize_* are executed (inlined) on that shape wherever the source calls them, so a
deserialiser that does not invert its serialiser changes the translation (fields swapped, None ..) instead of being assumed away.

FROM THIS CONFIGURATION (the abstraction the hand model makes, nothing else):
  * the state `&mut HashMap<String, StateValue>` is the typed record FlowwhileGenLib.wst: ws_ctx = get_line_context_name(state)
    (types/scope.rs; read-only here), ws_cache = the sub-state command::"while" / "meta_info" as an association list string key ->
    lmeta (lookup = first match `aget str_eqb`, insert = cons; an entry that does not deserialise — the empty map get_sub_state
    creates — is no binding), ws_stk = the list command::"while" / "call_stack" as a list of wcall records, head = top, ws_end = the
    table written by end::set_command(line, state, name) = `aset Nat.eqb line name` (Flow.end_set; keyed by the line alone: the
    model's assumption that the context name is constant).  That every element of these two containers was written by the
    serialisers of this file and that no other code writes the "while" sub-state is the typed-record (frame) assumption;
    get_core_sub_state_for_command / get_sub_state / get_list are checked textually on utils/state.rs;
  * WhileMetaInfo = Flow.lmeta (mkLM / lm_start / lm_end), CallInfo = FlowwhileGenLib.wcall (mkWC / wc_meta / wc_ctx); usize = nat
    (line numbers: `end + 1` cannot overflow, it is bounded by the instruction count), usize::to_string = usize_str
    (= Runner.nat_str), String = Base.str;
  * `instructions` is the list of command names `list (option str)` (Flow.cmds); instruction_query::find_commands(instructions,
    a, b, c, Some(n), None, true, d, e) is FlowScan.find_commands (mkT a b c d e) instructions n (tied to the source separately:
    tie "findcmds", props/SrcFindCmds.v, C04ix.v); its result SOk mid e is Ok(Some(Positions { middle: mid, end: e })), every
    other result r is Err(scan_err r) (the TEXT of the error is not modelled; Ok(None) does not occur: Src_findcmds_total);
  * pckg::concat is spelled FlowwhileGenLib.pckg_concat at its call sites; gen_pckg_concat is the translation of utils/pckg.rs::concat
    itself and Src_flowwhile_pckg_concat proves the two equal (the shape of concat is also checked textually by lib/gen/c04_gen.py);
  * condition::eval_condition(&context.arguments, context.instructions, context.state, context.variables, context.commands,
    context.env) is the ORACLE parameter `evalc arguments s : (bool + str) * wst` (the condition evaluator is a parameter of the
    hand model too: Flow.eval_cond / FlowFnC.ceval; tie "cond" / "condslice"); `context.arguments` is a list over an abstract
    type; every other use of variables / commands / env / output_variable is not understood;
  * CommandResult::{Continue(None), GoTo(None, GoToValue::Line(l)), Error(m), Crash(m)} = gres GContinue / GGoto l / GError m / GCrash m;
  * the pop loop runs `loop_ret` with fuel S (length (ws_stk s)) and default (None, s) (every iteration that does not return pops
    one element; the tie theorem, an equality with the structurally recursive wh_pop for all stacks, shows the fuel suffices)."""
import os
import re
import sys

sys.path.insert(0, os.path.dirname(os.path.dirname(os.path.abspath(__file__))))
import rs2v  # noqa: E402
from rs2v import Rs2vError, FwV, fw_term, fw_ind  # noqa: E402

FC = "duckscript_sdk/src/sdk/std/flowcontrol/"
REL = FC + "while_mod/mod.rs"
REL_FC = FC + "mod.rs"
REL_PCKG = "duckscript_sdk/src/utils/pckg.rs"
REL_STATE = "duckscript_sdk/src/utils/state.rs"
REL_SCOPE = "duckscript_sdk/src/types/scope.rs"
MODULES = {"ifelse": FC + "ifelse/mod.rs", "forin": FC + "forin/mod.rs", "function": FC + "function/mod.rs", "end": FC + "end/mod.rs"}

HEAD = "Require Import DS.FlowTables DS.FlowScan DS.Flow DS.FlowwhileGenLib.\n"

T_META = ("struct", "WhileMetaInfo")
T_CALL = ("struct", "CallInfo")
T_INSTRS = ("list", "instr")
T_ARGS = ("list", "A")
T_RES_META = ("res", T_META, "str")

STRUCTS = {
    "WhileMetaInfo": {"fields": ["start", "end"], "mk": "(mkLM %s %s)", "proj": {"start": "(lm_start %s)", "end": "(lm_end %s)"},
                      "types": {"start": "nat", "end": "nat"}, "rust_types": {"start": "usize", "end": "usize"}},
    "CallInfo": {"fields": ["meta_info", "line_context_name"], "mk": "(mkWC %s %s)",
                 "proj": {"meta_info": "(wc_meta %s)", "line_context_name": "(wc_ctx %s)"},
                 "types": {"meta_info": T_META, "line_context_name": "str"},
                 "rust_types": {"meta_info": "WhileMetaInfo", "line_context_name": "String"}},
}
CELLS = {
    "cache": {"kind": "map", "struct": "WhileMetaInfo", "ser": "serialize_while_meta_info", "put": "((%s, %s) :: %s)",
              "get": "aget str_eqb %s %s"},
    "stk": {"kind": "stack", "struct": "CallInfo", "ser": "serialize_call_info", "variant": "SubState"},
}
STATE = {"type": "wst", "mk": "(mkWS %s %s %s %s)", "var": "s",
         "cells": [("ctx", "(ws_ctx %s)"), ("cache", "(ws_cache %s)"), ("stk", "(ws_stk %s)"), ("end", "(ws_end %s)")]}
INLINE = {"serialize_while_meta_info", "deserialize_while_meta_info", "serialize_call_info", "deserialize_call_info"}
CMD_STRUCTS = {"WhileCommand": None, "EndWhileCommand": None, "FunctionCommand": "function", "EndFunctionCommand": "function",
               "ForInCommand": "forin", "EndForInCommand": "forin", "IfCommand": "ifelse", "EndIfCommand": "ifelse",
               "ElseIfCommand": "ifelse", "ElseCommand": "ifelse"}
SUB_STATE, META_KEY, STACK_KEY = "while", "meta_info", "call_stack"

# name -> (coq name, binders, result type, stub)
SIGS = {
    "pckg_concat": ("gen_pckg_concat", "(parent current : str)", "str", "[]"),
    "get_line_key": ("gen_get_line_key", "(line : nat) (s : wst)", "str", "[]"),
    "create_while_meta_info_for_line": ("gen_create_while_meta_info_for_line",
                                        "(package : str) (instructions : list (option str)) (line : nat)", "lmeta + str", "inr []"),
    "get_or_create_while_meta_info_for_line": ("gen_get_or_create_while_meta_info_for_line",
                                               "(package : str) (instructions : list (option str)) (line : nat) (s : wst)",
                                               "(lmeta + str) * wst", "(inr [], s)"),
    "pop_call_info_for_line": ("gen_pop_call_info_for_line", "(line : nat) (s : wst)", "option wcall * wst", "(None, s)"),
    "store_call_info": ("gen_store_call_info", "(call_info : wcall) (s : wst)", "wst", "s"),
    "while_run": ("gen_while_run", "(A : Type) (evalc : list A -> wst -> (bool + str) * wst) (package : str) "
                  "(instructions : list (option str)) (arguments : list A) (line : nat) (s : wst)", "gres * wst", "(GContinue, s)"),
    "endwhile_run": ("gen_endwhile_run", "(line : nat) (s : wst)", "gres * wst", "(GContinue, s)"),
}
ORDER = ["pckg_concat", "get_line_key", "create_while_meta_info_for_line", "get_or_create_while_meta_info_for_line", "pop_call_info_for_line",
         "store_call_info", "while_run", "endwhile_run"]
GEN_CALLS = {
    "get_line_key": {"coq": "gen_get_line_key", "args": ["nat", "state"], "ret": "str", "state": "ro"},
    "create_while_meta_info_for_line": {"coq": "gen_create_while_meta_info_for_line", "args": ["nat", T_INSTRS, "str"],
                                        "order": [2, 1, 0], "ret": T_RES_META, "state": None},
    "get_or_create_while_meta_info_for_line": {"coq": "gen_get_or_create_while_meta_info_for_line",
                                               "args": ["nat", "state", T_INSTRS, "str"], "order": [2, 1, 0], "ret": T_RES_META,
                                               "state": "rw"},
    "pop_call_info_for_line": {"coq": "gen_pop_call_info_for_line", "args": ["nat", "state"], "ret": ("opt", T_CALL), "state": "rw"},
    "store_call_info": {"coq": "gen_store_call_info", "args": [T_CALL, "state"], "ret": None, "state": "rw"},
}


def need(cond, what):
    if not cond:
        raise Rs2vError(what)


# ---- configured callees -------------------------------------------------------------------------------------------
def is_state(v):
    return v.k == "tok" and v.what == "state"


def lit_of(v, what):
    need(v.k == "term" and isinstance(v.lit, str), "%s: the key is not a literal known at translation time" % what)
    return v.lit


def c_line_context_name(fw, vs, _es, st, _ctx, k):
    need(len(vs) == 1 and is_state(vs[0]), "get_line_context_name: arguments")
    return k(st, fw_term("str", st.cells["ctx"]))


def c_core_sub_state(fw, vs, _es, st, _ctx, k):
    need(len(vs) == 2 and is_state(vs[0]), "get_core_sub_state_for_command: arguments")
    key = lit_of(vs[1], "get_core_sub_state_for_command")
    need(key == SUB_STATE, "the command sub-state %r is not the one the model keeps (%r)" % (key, SUB_STATE))
    return k(st, FwV("tok", what="sub:" + key))


def c_get_sub_state(fw, vs, _es, st, ctx, k):
    need(len(vs) == 2 and vs[1].k == "tok", "get_sub_state: arguments")
    if vs[1].what == "sub:" + SUB_STATE:
        key = lit_of(vs[0], "get_sub_state")
        need(key == META_KEY, "the sub-state %r of the while state has no model component" % key)
        return k(st, FwV("tok", what="cell:cache"))
    if vs[1].what == "cell:cache":
        need(not ctx.get("loop"), "an entry of the meta-info cache is opened inside a loop")
        return fw.open_slot("cache", vs[0], st, ctx, k)
    raise Rs2vError("get_sub_state on %r" % (vs[1],))


def c_get_list(fw, vs, _es, st, _ctx, k):
    need(len(vs) == 2 and vs[1].k == "tok" and vs[1].what == "sub:" + SUB_STATE, "get_list: arguments")
    key = lit_of(vs[0], "get_list")
    need(key == STACK_KEY, "the list %r of the while state has no model component" % key)
    return k(st, FwV("tok", what="cell:stk"))


def c_set_command(fw, vs, _es, st, _ctx, k):
    need(len(vs) == 3 and is_state(vs[1]) and fw.type_of(vs[0]) == "nat" and fw.type_of(vs[2]) == "str", "end::set_command: arguments")
    st2 = fw.flush(st)
    st2 = st2.copy()
    st2.cells["end"] = "(aset Nat.eqb %s %s %s)" % (vs[0].term, vs[2].term, st2.cells["end"])
    return k(st2, rs2v.FW_UNIT)


def c_concat(fw, vs, _es, st, _ctx, k):
    need(len(vs) == 2 and all(fw.type_of(v) == "str" for v in vs), "pckg::concat: arguments")
    return k(st, fw_term("str", "(pckg_concat %s %s)" % (vs[0].term, vs[1].term)))


def c_find_commands(fw, vs, _es, st, _ctx, k):
    need(len(vs) == 9, "find_commands: %d arguments" % len(vs))
    instr, a, b, c, start, end, rec, d, e = vs
    need(fw.type_of(instr) == T_INSTRS, "find_commands: the first argument is not the instruction vector")
    lists = []
    for x in (a, b, c, d, e):
        need(x.k == "vec" and all(fw.type_of(y) == "str" for y in st.heap[x.addr]), "find_commands: a name list is not a Vec of strings")
        lists.append(fw.to_term(x, st))
    need(start.k == "opt" and start.tag == "Some" and fw.type_of(start.val) == "nat", "find_commands: start is not Some(line)")
    need(end.k == "opt" and end.tag == "None", "find_commands: end is not None")
    need(rec.k == "term" and rec.lit is True, "find_commands: allow_recursive is not the literal true")
    call = "find_commands (mkT %s %s %s %s %s) %s %s" % (lists[0], lists[1], lists[2], lists[3], lists[4], instr.term, start.val.term)
    mid, en = fw.fresh("mid"), fw.fresh("e")
    pos = FwV("struct", name="Positions", fields={"middle": fw_term(("list", "nat"), mid), "end": fw_term("nat", en)})
    out = ["| SOk %s %s =>\n%s" % (mid, en, fw_ind(k(st.copy(), FwV("res", tag="Ok", val=FwV("opt", tag="Some", val=pos)))))]
    for r in ("SMissing", "SNested", "SNoNames"):
        out.append("| %s =>\n%s" % (r, fw_ind(k(st.copy(), FwV("res", tag="Err", val=fw_term("str", "(scan_err %s)" % r))))))
    return "match %s with\n%s\nend" % (call, "\n".join(out))


def c_eval_condition(fw, vs, _es, st, _ctx, k):
    need(len(vs) == 6, "eval_condition: %d arguments" % len(vs))
    need(vs[0].k == "term" and vs[0].term == "arguments" and vs[1].k == "term" and vs[1].term == "instructions" and is_state(vs[2])
         and [v.what if v.k == "tok" else None for v in vs[3:]] == ["opaque:variables", "opaque:commands", "opaque:env"],
         "eval_condition is not called with (&context.arguments, context.instructions, context.state, context.variables, "
         "context.commands, context.env)")
    s_in = fw.state_term(st)
    r, s2 = fw.fresh("r"), fw.fresh("s")
    body = k(fw.rebase(st, s2), fw_term(("res", "bool", "str"), r))
    return "match evalc arguments %s with\n| (%s, %s) =>\n%s\nend" % (s_in, r, s2, fw_ind(body))


def k_continue(fw, vs):
    need(len(vs) == 1 and vs[0].k == "opt" and vs[0].tag == "None", "CommandResult::Continue with an output")
    return fw_term("gres", "GContinue")


def k_goto(fw, vs):
    need(len(vs) == 2 and vs[0].k == "opt" and vs[0].tag == "None" and vs[1].k == "term" and vs[1].ty == "goto",
         "CommandResult::GoTo is not GoTo(None, GoToValue::Line(..))")
    return fw_term("gres", "(GGoto %s)" % vs[1].term)


def k_line(fw, vs):
    need(len(vs) == 1 and fw.type_of(vs[0]) == "nat", "GoToValue::Line of a %s" % (fw.type_of(vs[0]) if vs else None,))
    return fw_term("goto", vs[0].term)


def k_error(fw, vs):
    need(len(vs) == 1 and fw.type_of(vs[0]) == "str", "CommandResult::Error of a %s" % (fw.type_of(vs[0]) if vs else None,))
    return fw_term("gres", "(GError %s)" % vs[0].term)


def k_crash(fw, vs):
    need(len(vs) == 1 and fw.type_of(vs[0]) == "str", "CommandResult::Crash of a %s" % (fw.type_of(vs[0]) if vs else None,))
    return fw_term("gres", "(GCrash %s)" % vs[0].term)


CALLS = {"get_line_context_name": c_line_context_name, "get_core_sub_state_for_command": c_core_sub_state,
         "get_sub_state": c_get_sub_state, "get_list": c_get_list, "end::set_command": c_set_command, "pckg::concat": c_concat,
         "instruction_query::find_commands": c_find_commands, "condition::eval_condition": c_eval_condition}
CTORS = {"CommandResult::Continue": k_continue, "CommandResult::GoTo": k_goto, "GoToValue::Line": k_line,
         "CommandResult::Error": k_error, "CommandResult::Crash": k_crash}


# ---- textual frame checks on the state helpers ------------------------------------------------------------------------
def norm(s):
    return " ".join(re.sub(r"//[^\n]*", "", s).split())


def fn_text(src, name):
    m = re.search(r"fn\s+%s\s*\(" % re.escape(name), src)
    need(m is not None, "fn %s not found" % name)
    return norm(src[m.start():src.index("{", m.end())]), norm(rs2v.balanced_block(src, src.index("{", src.index(")", m.end()))))


def frame_check(state_src, scope_src):
    _h, b = fn_text(state_src, "get_core_sub_state_for_command")
    need(re.fullmatch(r'let (\w+) = pckg::concat\("duckscriptsdk::command", &name\); get_sub_state\(\1, state\)', b) is not None,
         "utils/state.rs: get_core_sub_state_for_command is not get_sub_state(pckg::concat(\"duckscriptsdk::command\", &name), state)")
    _h, b = fn_text(state_src, "get_sub_state")
    need(b.startswith("ensure_sub_state(&key, state); match state.get_mut(&key) {") and "StateValue::SubState(ref mut sub_state) => sub_state" in b,
         "utils/state.rs: get_sub_state is not ensure_sub_state + get_mut")
    _h, b = fn_text(state_src, "get_list")
    need(b.startswith("ensure_list(&key, state); match state.get_mut(&key) {") and "StateValue::List(ref mut list) => list" in b,
         "utils/state.rs: get_list is not ensure_list + get_mut")
    _h, b = fn_text(scope_src, "get_line_context_name")
    need("sub_state.insert" not in b and "state.insert" not in b, "types/scope.rs: get_line_context_name writes the state")


# ---- results ------------------------------------------------------------------------------------------------------------
def conforms(fw, v, ty):
    if isinstance(ty, tuple) and ty[0] == "opt" and v.k == "opt":
        return v.tag == "None" or conforms(fw, v.val, ty[1])
    if isinstance(ty, tuple) and ty[0] == "res" and v.k == "res":
        return conforms(fw, v.val, ty[1] if v.tag == "Ok" else ty[2])
    return fw.type_of(v) == ty


def result_of(ty, mode):
    """mode: None (no state), "ro" (the state must come out unchanged), "rw" (value, state)"""
    def f(fw, v, st):
        if ty is None:
            need(v.k == "unit", "the function ends in a value")
            return fw.state_term(st)
        need(conforms(fw, v, ty), "the function returns %r where a %s is expected" % (v, ty))
        t = fw.to_term(v, st)
        if mode is None:
            return t
        s = fw.state_term(st)
        if mode == "ro":
            need(s == fw.cfg["state"]["var"], "the function changes the state")
            return t
        return "(%s, %s)" % (t, s)
    return f


def base_cfg(srcs):
    statics = {}
    for k, (t, v) in rs2v.read_statics(srcs[REL]).items():
        if t == rs2v.Ty.STR:
            statics[k] = fw_term("str", rs2v.coq_str_lit(v), lit=v)
    for mod, rel in MODULES.items():
        for k, (t, v) in rs2v.read_statics(srcs[rel]).items():
            if t == rs2v.Ty.STR:
                statics["%s::%s" % (mod, k)] = fw_term("str", rs2v.coq_str_lit(v), lit=v)
    return {"state": STATE, "structs": STRUCTS, "cells": CELLS, "src": srcs[REL], "modules": {m: srcs[r] for m, r in MODULES.items()},
            "statics": statics, "inline": INLINE, "calls": CALLS, "ctors": CTORS, "cmd_structs": CMD_STRUCTS, "gen_calls": {},
            "loop": None}


def gen_calls_for(name, understood_before):
    """a function may call the translated functions that precede it in ORDER"""
    return {n: GEN_CALLS[n] for n in ORDER[:ORDER.index(name)] if n in GEN_CALLS}


def param_names(params, want, what):
    need([p for p, _t in params] == want, "%s: parameters %r" % (what, [p for p, _t in params]))


def translate(name, srcs):
    cfg = base_cfg(srcs)
    cfg["gen_calls"] = gen_calls_for(name, None)
    state_tok = FwV("tok", what="state")
    if name == "pckg_concat":
        cfg["src"] = srcs[REL_PCKG]
        cfg["inline"], cfg["calls"], cfg["ctors"], cfg["state"], cfg["gen_calls"] = set(), {}, {}, None, {}
        params, _ret, body = rs2v.fw_parse_free(srcs[REL_PCKG], "concat")
        param_names(params, ["parent", "current"], "pckg::concat")
        cfg["result"] = result_of("str", None)
        env = {"parent": fw_term("str", "parent"), "current": fw_term("str", "current")}
        return rs2v.FnFw(cfg).function(env, body, state=False)
    if name == "get_line_key":
        cfg["src"] = srcs[REL_FC]
        cfg["inline"] = set()
        params, _ret, body = rs2v.fw_parse_free(srcs[REL_FC], "get_line_key")
        param_names(params, ["line", "state"], name)
        cfg["result"] = result_of("str", "ro")
        env = {"line": fw_term("nat", "line"), "state": state_tok}
        return rs2v.FnFw(cfg).function(env, body)
    if name == "create_while_meta_info_for_line":
        params, _ret, body = rs2v.fw_parse_free(srcs[REL], name)
        param_names(params, ["line", "instructions", "package"], name)
        cfg["state"] = None
        cfg["result"] = result_of(T_RES_META, None)
        env = {"line": fw_term("nat", "line"), "instructions": fw_term(T_INSTRS, "instructions"), "package": fw_term("str", "package")}
        return rs2v.FnFw(cfg).function(env, body, state=False)
    if name == "get_or_create_while_meta_info_for_line":
        params, _ret, body = rs2v.fw_parse_free(srcs[REL], name)
        param_names(params, ["line", "state", "instructions", "package"], name)
        cfg["result"] = result_of(T_RES_META, "rw")
        env = {"line": fw_term("nat", "line"), "state": state_tok, "instructions": fw_term(T_INSTRS, "instructions"),
               "package": fw_term("str", "package")}
        return rs2v.FnFw(cfg).function(env, body)
    if name == "pop_call_info_for_line":
        params, _ret, body = rs2v.fw_parse_free(srcs[REL], name)
        param_names(params, ["line", "state"], name)
        cfg["result"] = result_of(("opt", T_CALL), "rw")
        cfg["loop"] = {"fuel": "(S (length (ws_stk %s)))", "default": lambda fw, st: "(None, %s)" % fw.state_term(st)}
        env = {"line": fw_term("nat", "line"), "state": state_tok}
        return rs2v.FnFw(cfg).function(env, body)
    if name == "store_call_info":
        params, _ret, body = rs2v.fw_parse_free(srcs[REL], name)
        param_names(params, ["call_info", "state"], name)
        cfg["result"] = result_of(None, "rw")
        env = {"call_info": fw_term(T_CALL, "call_info"), "state": state_tok}
        return rs2v.FnFw(cfg).function(env, body)
    if name in ("while_run", "endwhile_run"):
        struct = "WhileCommand" if name == "while_run" else "EndWhileCommand"
        recv, params, _ret, body = rs2v.fw_parse_method(srcs[REL], struct, "run", trait="Command")
        need(recv == "ref", "%s::run: receiver %s" % (struct, recv))
        param_names(params, ["context"], "%s::run" % struct)
        need([f for f, _t in rs2v.fw_struct_fields(srcs[REL], struct)] == ["package"], "%s: fields" % struct)
        cfg["result"] = result_of("gres", "rw")
        context = FwV("struct", name="CommandInvocationContext", fields={
            "arguments": fw_term(T_ARGS, "arguments"), "line": fw_term("nat", "line"), "state": state_tok,
            "instructions": fw_term(T_INSTRS, "instructions"), "variables": FwV("tok", what="opaque:variables"),
            "commands": FwV("tok", what="opaque:commands"), "env": FwV("tok", what="opaque:env"),
            "output_variable": FwV("tok", what="opaque:output_variable")})
        env = {"self": FwV("struct", name=struct, fields={"package": fw_term("str", "package")}), "context": context}
        return rs2v.FnFw(cfg).function(env, body)
    raise Rs2vError("no translation rule for %s" % name)


def clean(e):
    return ((type(e).__name__ + ": ") if not isinstance(e, Rs2vError) else "") + str(e).replace("*)", "* )").replace("(*", "( *")


def definition(name, body):
    coq, binders, rtype, _stub = SIGS[name]
    return "Definition %s %s : %s :=\n%s.\n" % (coq, binders, rtype, fw_ind(body))


def stub(name, why):
    coq, binders, rtype, st = SIGS[name]
    return "(* NOT UNDERSTOOD: %s: %s *)\nDefinition %s_understood : bool := false.\nDefinition %s %s : %s := %s.\n" % (
        name, why, coq, coq, binders, rtype, st)


def build(api, refuse=None):
    """-> {name: text of its definition block}; refuse: {name: reason} functions that get their stub whatever the source says"""
    refuse = refuse or {}
    srcs, pre = {}, None
    # continuation passing: the Python stack grows with the number of statements executed (create_..: ~40 with inlined methods)
    sys.setrecursionlimit(max(sys.getrecursionlimit(), 20000))
    try:
        for rel in [REL, REL_FC, REL_PCKG, REL_STATE, REL_SCOPE] + list(MODULES.values()):
            srcs[rel] = api.read(rel)
        frame_check(srcs[REL_STATE], srcs[REL_SCOPE])
    except Exception as e:  # noqa: BLE001  anything unexpected means: not understood (never a crash, never a guess)
        pre = clean(e)
    out = {}
    for name in ORDER:
        if name in refuse:
            out[name] = stub(name, refuse[name])
            continue
        try:
            if pre is not None:
                raise Rs2vError("the state helpers are not understood (%s)" % pre)
            body = translate(name, srcs)
            out[name] = "Definition %s_understood : bool := true.\n%s" % (SIGS[name][0], definition(name, body))
        except RecursionError:
            out[name] = stub(name, "recursion limit")
        except Exception as e:  # noqa: BLE001
            out[name] = stub(name, clean(e))
    return out


def text_of(blocks):
    return HEAD + "Definition gen_flowwhile_understood : bool := true.\n" + "".join(blocks[n] for n in ORDER)


def compiles(text):
    """type-check a candidate file in a temporary directory; None when it cannot be judged"""
    import subprocess
    import tempfile
    root = os.path.dirname(os.path.dirname(os.path.dirname(os.path.abspath(__file__))))
    coq, cache = os.path.join(root, "coq"), os.path.join(root, ".cache")
    full = "(* candidate *)\nRequire Import DS.Base.\n" + text
    with tempfile.TemporaryDirectory(dir=cache if os.path.isdir(cache) else None) as td:
        with open(os.path.join(td, "GenFlowwhileFn.v"), "w") as f:
            f.write(full)
        try:
            p = subprocess.run(["coqc", "-q", "-Q", "theories", "DS", "-Q", td, "DSG", "-Q", "generated", "DSG",
                                os.path.join(td, "GenFlowwhileFn.v")], cwd=coq, capture_output=True, text=True, timeout=300)
        except (OSError, subprocess.TimeoutExpired):
            return None
    if p.returncode == 0:
        return True
    err = (p.stderr or "") + (p.stdout or "")
    if re.search(r"Cannot find a physical path|Unable to locate library|Cannot load|makes inconsistent assumptions|Can't find file|"
                 r"cannot find library|Cannot find library", err):
        return None
    return False


def generate(api, force_stub=None):
    blocks = build(api)
    if force_stub:
        # the translation does not type-check: find the offending functions one at a time (in ORDER, a definition only uses
        # the ones before it) and give exactly those their stub
        refuse = {}
        for name in ORDER:
            if "_understood : bool := true" not in blocks[name]:
                continue
            trial = dict(blocks)
            for later in ORDER[ORDER.index(name) + 1:]:
                trial[later] = stub(later, "not tried")
            ok = compiles(text_of(trial))
            if ok is False:
                refuse[name] = clean(Rs2vError(str(force_stub)))
                blocks = build(api, refuse)
            elif ok is None:
                refuse = {n: clean(Rs2vError(str(force_stub))) for n in ORDER}
                blocks = build(api, refuse)
                break
    api.emit("GenFlowwhileFn.v", text_of(blocks),
             "duckscript_sdk/src/sdk/std/flowcontrol/while_mod/mod.rs (get_or_create_while_meta_info_for_line, "
             "create_while_meta_info_for_line, pop_call_info_for_line, store_call_info, WhileCommand::run, EndWhileCommand::run; "
             "the (de)serialisers executed), flowcontrol/mod.rs (get_line_key) and utils/pckg.rs (concat) by lib/rs2v.py")
