"""flowfn_gen — TRANSLATE duckscript_sdk/src/sdk/std/flowcontrol/function/mod.rs (the `function` / call / `end_function` /
`return` commands of C05) into Gallina on every run (lib/rs2v.py, classes PFlowfn / FnFlowfn) -> coq/generated/GenFlowfnFn.v:

    push_to_call_stack          gen_push_to_call_stack  (call_info : xcall) (g : xfnst) : xfnst
    pop_from_call_stack         gen_pop_from_call_stack (g : xfnst) : option xcall * xfnst
    run_call                    gen_run_call      (lcn : str) (function_name : str) (arguments : list str)
                                                  (output_variable : option str) (line : nat) (s : xstate) : cres * xstate
    FunctionCommand::run        gen_function_run  (ann : str -> option (list str)) (cmds : list (option str)) (line : nat)
                                                  (args : list str) (s : xstate) : cres * xstate
    EndFunctionCommand::run     gen_end_function_run (lcn : str) (line : nat) (s : xstate) : cres * xstate
    ReturnCommand::run          gen_return_run    (lcn : str) (line : nat) (args : list str) (s : xstate) : cres * xstate

(store_fn_info_in_state and get_fn_info_from_state are INLINED where they are called.)  One flag `gen_<fn>_understood` per
generated function.  theories/FlowfnGenTie.v proves each of them EQUAL, for all inputs, to the function of the hand model
FlowFn.v (C05) it corresponds to — x_push / x_pop (the typed stack), run_call_m (FlowFn.step_call = command lookup + run_call +
the runner's update_output: FlowfnGenLib.step_call_eq), function_model (FlowFn.step_function on the decoded `fn [<scope>] name`),
step_endfn, step_return_v (FlowFn.step_return on the expanded argument) — on every state `xlift lcn g` in which all frames
carry the current line context name (FlowFn.v omits `line_context_name`, see FlowfnGenLib.v); wrappers props/SrcFlowfn.v,
tie key "flowfn" (C04, C05; no-panic content: C07).

WHAT COMES FROM THE SOURCE (re-read on every run)
  * every test and its operands (argument counts, `fn_info.start != context.line`, the three conjuncts of `return`'s frame
    test and the two of `end_function`'s, their order), which argument index every access reads (`context.arguments[i]` is an
    explicit RPanic arm when the vector is too short; the equality proofs show these arms dead), the `+ 1`s, which result
    constructor each path ends in, the error texts (table ERR below; an unknown text is refused), the order of all effects;
  * the call-stack entry: which KEY of the string-keyed sub-state holds which field under which StateValue variant is not
    configured — push_to_call_stack (the serialiser) and pop_from_call_stack (the deserialiser) are both EXECUTED: the typed
    stack holds `CallInfo` records, `call_stack.push(SubState(m))` pushes the record pop_from_call_stack's own code decodes
    from m, `call_stack.pop()` hands pop_from_call_stack's code the map push_to_call_stack's own code builds from the record.
    That the two are mutually inverse field by field (same keys, same variants, the optional output variable) is then
    exactly what the two tie theorems say (gen_pop_from_call_stack g = x_pop g, gen_push_to_call_stack c g = x_push c g); a
    key or variant written but read differently makes the decoder drop the entry (its recursive call), which is refused.
    The same for the meta info: store_fn_info_in_state / get_fn_info_from_state are executed against each other; the typed
    table holds `fmeta` records (start, end, scoped; the name is the key);
  * FunctionCommand::run: the decoding of the arguments (one argument / annotation::parse of the first / fall back), the
    lookup, the five name lists handed to find_commands (built by executing the aliases() / name() / push / append statements
    on the command tables read from the four flow-control files), `Some(context.line + 1)`, `None`, the allow_recursive
    literal, what is done with the positions, end::set_command(end line, state, the end command's name), the stored meta
    info, the declaration of CallFunctionCommand (its `run` must be `run_call(self.name(), &context.arguments, context.state,
    context.variables, context.output_variable, context.line)`, its `name` the stored name) and its registration;
  * run_call: the scope push under `fn_info.scoped`, the argument loop (index arithmetic, `index.to_string()`), the frame
    that is pushed (which value goes to which field), the jump target;
  * EndFunctionCommand::run / ReturnCommand::run: pop, the frame test, the write / removal of the output variable, the
    value returned, which variables survive the scope pop (`copy`), push-back on a frame that is not the caller's.

WHAT COMES FROM THIS CONFIGURATION (the abstraction FlowFn.v makes; nothing else)
  * the STATE: `context.state` is (flow, xfnst): get_core_sub_state_for_command(state, FUNCTION_STATE_KEY) is the function
    sub-state (checked on utils/state.rs: frame_check), its META_INFO_STATE_KEY sub-map is `xs_meta` (an association list,
    get_sub_state(name, ..) is `aget str_eqb name`; that get_sub_state CREATES an empty sub-map for an unknown name is not
    modelled: an empty map and no map decode alike), its CALL_STACK_STATE_KEY list is `xs_stk` with the entry pushed last
    at the HEAD (Vec::push = cons, Vec::pop = head / tail).  get_core_sub_state_for_command applied to the function
    sub-state ITSELF (store_fn_info_in_state hands `fn_state`, not `state`, to get_fn_info_from_state) is a nested sub-state
    nobody writes an entry to: every lookup in it finds nothing (so that "already defined" test is dead, in the source too).
    `context.variables` is the association list `w_vars w` (insert = aset, remove = adel); the other components of the
    world are not reachable from these functions;
  * callees tied elsewhere are calls of the hand model: instruction_query::find_commands(instructions, a, b, c, Some(l), None,
    rec, d, e) is FlowScan.find_commands (rec = true) / FlowFn.find_commands_nr (rec = false) on (mkT a b c d e) and the
    command names `cmds` of the instruction list (tie "findcmds": props/C04ix.v C04_ix_refines / _nr), its Err and Ok(None)
    are every answer but SOk; utils::scope::push / pop are FlowfnGenLib.fl_scope_push / fl_scope_pop (utils/scope.rs on
    association lists; push cannot fail: tie "var", Src_var_scope_push); end::set_command(l, state, n) is Flow.end_set l n
    (the line key carries the line context name, which the model omits); annotation::parse is the PARAMETER `ann`;
    get_line_context_name(state) is the PARAMETER `lcn`; in the callers push_to_call_stack / pop_from_call_stack are
    x_push / x_pop (each tied to its own translation: the ties are independent);
  * `context.commands.set(Box::new(CallFunctionCommand { name }))` succeeds and leaves no trace but the meta-info entry:
    FlowFn.v identifies "registered call commands" with the keys of fs_meta (a leaf that stores meta info without
    registering the command under the same name is refused);
  * CommandResult::GoTo(o, GoToValue::Line(l)) is RGoto l: the OUTPUT o of a GoTo is written by the runner to the output
    variable of the instruction itself (`x = return v`), which FlowFn.v's instructions do not have (run_call's is the
    runner's update_output in FlowFn.step_call: call_post); Continue(None) is RContinue; Error / Crash carry the code of
    their text (ERR);
  * usize on nat without an overflow arm (line numbers are bounded by the instruction vector), `index` of run_call (an
    unconstrained integer literal: i32) likewise; `to_string` of it is FlowfnGenLib.dec_nat (decimal); Vec<String>::contains
    is Base.str_in, == on String is Base.str_eqb; Vec::is_empty is FlowfnGenLib.vec_is_empty;
  * the names of the parameters and the types of the generated functions.

Anything not understood (every exception) -> `gen_<fn>_understood := false` and a type-correct stub."""
import os
import re
import sys

sys.path.insert(0, os.path.dirname(os.path.dirname(os.path.abspath(__file__))))
sys.path.insert(0, os.path.dirname(os.path.abspath(__file__)))
import rs2v  # noqa: E402
from rs2v import Rs2vError, CmdV  # noqa: E402

FC = "duckscript_sdk/src/sdk/std/flowcontrol/"
REL = FC + "function/mod.rs"
REL_STATE = "duckscript_sdk/src/utils/state.rs"
REL_QUERY = "duckscript_sdk/src/utils/instruction_query.rs"
HEAD = ("Require Import DS.Cond DS.FlowTables DS.FlowScan DS.Flow DS.FlowFn DS.FlowfnGenLib.\n"
        "Local Open Scope bool_scope.\n")

ERR = {
    "Missing function name.": 22,
    "Function: {} already defined at: {} to: {}": 20,
    "Function: {} not found.": 23,
    "Function: {} end not found.": 2,
    "%find_commands": 2,
    "%scope": 21,
    "%commands.set": 24,
}

XCALL = [("call_line", "nat", "usize"), ("start_line", "nat", "usize"), ("end_line", "nat", "usize"),
         ("line_context_name", "str", "String"), ("output_variable", ("opt", "str"), "Option<String>"), ("scoped", "bool", "bool")]
FMETA = [("name", "str", "String"), ("start", "nat", "usize"), ("end", "nat", "usize"), ("scoped", "bool", "bool")]
FMETA_PROJ = {"start": "fm_start", "end": "fm_end", "scoped": "fm_scoped"}
RUN_CALL_PARAMS = ["function_name", "arguments", "state", "variables", "output_variable", "line"]

T_STATE = "&mutHashMap<String,StateValue>"
T_VARS = "&mutHashMap<String,String>"
T_CTX = "CommandInvocationContext"
PANIC = "(RPanic, s)"


def need(cond, what):
    if not cond:
        raise Rs2vError(what)


def clean(e):
    return ((type(e).__name__ + ": ") if not isinstance(e, Rs2vError) else "") + str(e).replace("*)", "* )").replace("(*", "( *")


# ---- types -------------------------------------------------------------------------------------------------------------
def types(text):
    t = text.replace(" ", "")
    simple = {"usize": "nat", "bool": "bool", "String": "str", "&str": "str", "&String": "str", "str": "str", "()": "unit",
              "CommandResult": "cmdresult", "StateValue": "sv", T_STATE: "stateroot", T_VARS: "vars",
              "FunctionMetaInfo": ("struct", "FunctionMetaInfo"), "&FunctionMetaInfo": ("struct", "FunctionMetaInfo"),
              "CallInfo": ("struct", "CallInfo"), "&CallInfo": ("struct", "CallInfo")}
    if t in simple:
        return simple[t]
    if t.startswith("&"):
        return types(t[1:])
    if t.startswith("Vec<") and t.endswith(">"):
        inner = t[4:-1]
        return ("list", None if inner == "_" else types(inner))
    if t.startswith("Option<") and t.endswith(">"):
        return ("opt", types(t[7:-1]))
    if t.startswith("Result<") and t.endswith(">"):
        inner, depth = t[7:-1], 0
        for i, c in enumerate(inner):
            if c in "<(":
                depth += 1
            elif c in ">)":
                depth -= 1
            elif c == "," and depth == 0:
                return ("res", types(inner[:i]), types(inner[i + 1:]))
    raise Rs2vError("type %s" % text)


COQ_TYPES = {"str": "str", "bool": "bool", "nat": "nat", "vars": "list (str * str)", "flow": "flow", "xfnst": "xfnst"}


def coq_type(ty):
    if ty in COQ_TYPES:
        return COQ_TYPES[ty]
    if isinstance(ty, tuple) and ty[0] in ("list", "iter") and ty[1] is not None:
        return "list %s" % coq_type(ty[1])
    if isinstance(ty, tuple) and ty[0] == "opt":
        return "option %s" % coq_type(ty[1])
    raise Rs2vError("no Coq type for %r" % (ty,))


def cell_types(ty):
    return ty in ("dict", "nat", "vars") or (isinstance(ty, tuple) and ty[0] == "list")


# ---- typed maps --------------------------------------------------------------------------------------------------------
ROOT = CmdV("stateroot")


def mk_dict(items, prov=None, junk=False, dirty=False):
    v = rs2v.FfV("dict", None, items=dict(items))
    v.prov, v.junk, v.dirty = prov, junk, dirty
    return v


def ref_new(fn, base, v):
    return CmdV(("ref", fn.new_cell(base, v)))


def struct_of_term(name, fields, projfmt, term):
    return CmdV(("struct", name), term, items={f: CmdV(ty, projfmt(f) % term) for f, ty, _r in fields})


def xcall_of_term(c):
    return struct_of_term("CallInfo", XCALL, lambda f: "(xc_" + f + " %s)", c)


def record_term(v, fields, ctor):
    """the Coq record a struct value denotes"""
    need(isinstance(v.ty, tuple) and v.ty[0] == "struct", "a record is built from a value of type %r" % (v.ty,))
    if v.term is not None:
        return v.term
    parts = []
    for f, ty, _r in fields:
        x = v.items[f]
        need(x.term is not None and x.ty == ty, "field %s of the record has type %r / no term" % (f, x.ty))
        parts.append(x.term)
    return "(%s %s)" % (ctor, " ".join(parts))


def static_lit(fn, name):
    v = fn.cfg["statics"].get(name)
    need(v is not None and v.lit is not None, "static %s not found" % name)
    return v.lit


def p_core_sub_state(fn, vs, expect):
    need(len(vs) == 2 and vs[1].ty == "str" and vs[1].lit is not None, "get_core_sub_state_for_command: arguments")
    need(fn.cfg["frame_ok"] is True, "utils/state.rs: %s" % fn.cfg["frame_ok"])
    need(vs[1].lit == static_lit(fn, "FUNCTION_STATE_KEY"), "get_core_sub_state_for_command of the key %r" % vs[1].lit)
    if vs[0].ty == "stateroot":
        return CmdV(("fnstate", 1))
    if isinstance(vs[0].ty, tuple) and vs[0].ty[0] == "fnstate":
        return CmdV(("fnstate", vs[0].ty[1] + 1))
    raise Rs2vError("get_core_sub_state_for_command of a value of type %r" % (vs[0].ty,))


def p_get_list(fn, vs, expect):
    need(len(vs) == 2 and vs[0].ty == "str" and vs[0].lit == static_lit(fn, "CALL_STACK_STATE_KEY") and vs[1].ty == ("fnstate", 1),
         "get_list of something else than (CALL_STACK_STATE_KEY, the function sub-state)")
    return CmdV("callstack")


def cp_get_sub_state(fn, vs, expect, k):
    need(len(vs) == 2 and vs[0].ty == "str", "get_sub_state: arguments")
    key, m = vs
    if isinstance(m.ty, tuple) and m.ty[0] == "fnstate":
        need(key.lit == static_lit(fn, "META_INFO_STATE_KEY"), "get_sub_state(%r, the function sub-state)" % (key.lit,))
        return k(CmdV(("metastate", m.ty[1] > 1)))
    need(isinstance(m.ty, tuple) and m.ty[0] == "metastate", "get_sub_state on a value of type %r" % (m.ty,))
    need(key.term is not None, "get_sub_state: a key without a term")
    if m.ty[1]:
        return k(ref_new(fn, "junk", mk_dict({}, junk=True)))
    if "fninfo_get" in fn.icpt:
        return k(ref_new(fn, "info", mk_dict(fn.icpt["fninfo_get"])))
    if "fninfo_capture" in fn.icpt:
        holder = fn.icpt["fninfo_capture"]
        need("cell" not in holder, "the serialiser reaches two entries of the meta info")
        r = ref_new(fn, "info", mk_dict({}))
        holder["cell"] = r.ty[1]
        return k(r)
    g = fn.st["g"].term
    scrut = "aget str_eqb %s (xs_meta %s)" % (key.term, g)

    def some_branch(mv):
        return encode_meta(fn, key, mv.term, lambda d: k(ref_new(fn, "info", mk_dict(d, prov=key))))

    def none_branch():
        return k(ref_new(fn, "info", mk_dict({}, prov=key)))
    r = fn.refine.get(scrut)
    if r is not None:
        return some_branch(r[1]) if r[0] == "Some" else none_branch()
    mname = fn.fresh("m")
    mv = CmdV("fmeta", mname)
    a = fn.with_refine(scrut, ("Some", mv), lambda: some_branch(mv))
    b = fn.with_refine(scrut, ("None",), none_branch)
    return fn.match2(scrut, "Some %s" % mname, a, "None", b)


def encode_meta(fn, key, mterm, kd):
    """the string-keyed map store_fn_info_in_state writes for the record mterm under the name key"""
    items = {"name": key}
    for f, ty, _r in FMETA[1:]:
        items[f] = CmdV(ty, "(%s %s)" % (FMETA_PROJ[f], mterm))
    sv = CmdV(("struct", "FunctionMetaInfo"), None, items=items)
    holder = {}

    def k_end(_v):
        d = fn.st[holder["cell"]].items if "cell" in holder else {}
        return kd(d)
    return fn.run_helper("store_fn_info_in_state", [ROOT, sv], k_end, icpt={"fninfo_capture": holder})


def decode_meta(fn, d, key, k):
    """the value get_fn_info_from_state reads from the string-keyed map d stored under the name key"""
    return fn.run_helper("get_fn_info_from_state", [ROOT, key], k, icpt={"fninfo_get": d})


def flush(fn, then):
    """write back every meta-info entry the path has changed"""
    for c, v in fn.st.items():
        if isinstance(v, rs2v.FfV) and v.ty == "dict" and v.prov is not None and v.dirty:
            key = v.prov

            def k_res(r, c=c, v=v, key=key):
                need(isinstance(r.ty, tuple) and r.ty[0] == "opt" and r.known is not None and r.known[0] == "Some",
                     "the meta info written for %s is not one get_fn_info_from_state reads back" % key.term)
                sv = r.known[1]
                need(sv.items is not None and sv.items["name"].term == key.term, "the meta info is read back under another name")
                rec = "(mkFM %s)" % " ".join(record_field(sv, f, ty) for f, ty, _r in FMETA[1:])
                if fn.cfg.get("need_registered"):
                    need(fn.refine.get("%registered") == key.term,
                         "meta info stored for %s without registering the call command under that name" % key.term)
                g = fn.st["g"].term
                fn.write("g", CmdV("xfnst", "(xs_set_meta (aset str_eqb %s %s (xs_meta %s)) %s)" % (key.term, rec, g, g)))
                fn.write(c, mk_dict(v.items, prov=v.prov))
                return flush(fn, then)
            return decode_meta(fn, v.items, key, k_res)
    return then()


def record_field(sv, f, ty):
    x = sv.items[f]
    need(x.term is not None and x.ty == ty, "field %s of the record has type %r / no term" % (f, x.ty))
    return x.term


def lit_key(v, what):
    need(v.ty == "str" and v.lit is not None, "%s with a key that is not a literal" % what)
    return v.lit


def m_dict_insert(fn, r, vs, tf, expect):
    need(len(vs) == 2, "insert: arguments")
    key = lit_key(vs[0], "insert")
    cur = fn.cur(r)
    need(not cur.junk, "a write into the nested function sub-state")
    need(vs[1].ty == "sv" and vs[1].known is not None, "insert of something else than a StateValue whose variant is known")
    items = dict(cur.items)
    items[key] = vs[1]
    fn.write(fn.cell_of(r), mk_dict(items, prov=cur.prov, dirty=True))
    return CmdV("discard")


def m_dict_get(fn, r, vs, tf, expect):
    need(len(vs) == 1, "get: arguments")
    key = lit_key(vs[0], "get")
    if key in r.items:
        return CmdV(("opt", "sv"), None, known=("Some", r.items[key]))
    return CmdV(("opt", "sv"), "None", known=("None",))


def m_dict_contains_key(fn, r, vs, tf, expect):
    need(len(vs) == 1, "contains_key: arguments")
    b = lit_key(vs[0], "contains_key") in r.items
    return CmdV("bool", "true" if b else "false", known=b)


def p_hashmap_new(fn, vs, expect):
    need(not vs, "HashMap::new with arguments")
    return mk_dict({})


def cm_callstack_push(fn, r, vs, tf, expect, k):
    need(len(vs) == 1 and vs[0].ty == "sv" and vs[0].known is not None and vs[0].known[0] == "SubState",
         "push of something else than StateValue::SubState(map) on the call stack")
    d = fn.cur(vs[0].known[1])
    need(d.ty == "dict", "StateValue::SubState of a value of type %r" % (d.ty,))
    if "callstack_push" in fn.icpt:
        kd = fn.icpt["callstack_push"]
        return fn.leave_icpt(lambda: kd(d.items))

    def k_res(v):
        need(isinstance(v.ty, tuple) and v.ty[0] == "opt" and v.known is not None and v.known[0] == "Some",
             "the entry pushed on the call stack is not one pop_from_call_stack reads back")
        rec = record_term(v.known[1], XCALL, "mkXC")
        g = fn.st["g"].term
        fn.write("g", CmdV("xfnst", "(xs_set_stk (%s :: xs_stk %s) %s)" % (rec, g, g)))
        return k(CmdV("unit"))
    return fn.run_helper("pop_from_call_stack", [ROOT], k_res, icpt={"callstack_pop": d.items})


def cm_callstack_pop(fn, r, vs, tf, expect, k):
    need(not vs, "pop with arguments")
    if "callstack_pop" in fn.icpt:
        sv = CmdV("sv", None, known=("SubState", mk_dict(fn.icpt["callstack_pop"])))
        return k(CmdV(("opt", "sv"), None, known=("Some", sv)))
    g = fn.st["g"].term
    c, rest = fn.fresh("c"), fn.fresh("rest")
    none_b = k(CmdV(("opt", "sv"), "None", known=("None",)))
    saved = fn.st
    fn.write("g", CmdV("xfnst", "(xs_set_stk %s %s)" % (rest, g)))
    try:
        def never(_v):
            raise Rs2vError("push_to_call_stack returns without pushing an entry")

        def kd(d):
            sv = CmdV("sv", None, known=("SubState", mk_dict(d)))
            return k(CmdV(("opt", "sv"), None, known=("Some", sv)))
        some_b = fn.run_helper("push_to_call_stack", [ROOT, xcall_of_term(c)], never, icpt={"callstack_push": kd})
    finally:
        fn.st = saved
    return "match xs_stk %s with\n| [] =>\n%s\n| %s :: %s =>\n%s\nend" % (g, rs2v.cmd_indent(none_b, 4), c, rest,
                                                                       rs2v.cmd_indent(some_b, 4))


# ---- callees -----------------------------------------------------------------------------------------------------------
def p_push_to_call_stack(fn, vs, expect):
    need(len(vs) == 2 and vs[0].ty == "stateroot" and vs[1].ty == ("struct", "CallInfo"), "push_to_call_stack: arguments")
    g = fn.st["g"].term
    fn.write("g", CmdV("xfnst", "(x_push %s %s)" % (record_term(vs[1], XCALL, "mkXC"), g)))
    return CmdV("unit")


def cp_pop_from_call_stack(fn, vs, expect, k):
    need(len(vs) == 1 and vs[0].ty == "stateroot", "pop_from_call_stack: arguments")
    g = fn.st["g"].term
    c, g1, g2 = fn.fresh("call_info"), fn.fresh("g"), fn.fresh("g")
    saved = fn.st
    out = []
    ty = ("opt", ("struct", "CallInfo"))
    for gx, v in ((g1, CmdV(ty, None, known=("Some", xcall_of_term(c)))), (g2, CmdV(ty, "None", known=("None",)))):
        fn.write("g", CmdV("xfnst", gx))
        try:
            out.append(k(v))
        finally:
            fn.st = saved
    return "match x_pop %s with\n| (Some %s, %s) =>\n%s\n| (None, %s) =>\n%s\nend" % (
        g, c, g1, rs2v.cmd_indent(out[0], 4), g2, rs2v.cmd_indent(out[1], 4))


def p_get_line_context_name(fn, vs, expect):
    need(len(vs) == 1 and vs[0].ty == "stateroot", "get_line_context_name: arguments")
    need("lcn" in fn.cfg["avail"], "the line context name is not available here")
    return CmdV("str", "lcn")


def p_annotation_parse(fn, vs, expect):
    need(len(vs) == 1 and vs[0].ty == "str" and vs[0].term is not None, "annotation::parse: arguments")
    need("ann" in fn.cfg["avail"], "annotation::parse is not available here")
    return CmdV(("opt", ("list", "str")), "(ann %s)" % vs[0].term)


def p_box_new(fn, vs, expect):
    need(len(vs) == 1, "Box::new: arguments")
    return vs[0]


def p_end_set_command(fn, vs, expect):
    need(len(vs) == 3 and vs[0].ty == "nat" and vs[0].term is not None and vs[1].ty == "stateroot" and vs[2].ty == "str"
         and vs[2].term is not None, "end::set_command: arguments")
    need("flow" in fn.st, "the end table is not available here")
    fn.write("flow", CmdV("flow", "(end_set %s %s %s)" % (vs[0].term, vs[2].term, fn.st["flow"].term)))
    return CmdV("unit")


def list_term(fn, v, what):
    v = fn.cur(v)
    need(v.ty in (("list", "str"), ("list", None)) and v.term is not None, "%s: a list of type %r" % (what, v.ty))
    return v.term


def cp_find_commands(fn, vs, expect, k):
    need(len(vs) == 9 and vs[0].ty == "instructions", "find_commands: the first argument is not the instruction list")
    need(fn.cfg["positions_ok"] is True, "instruction_query.rs: %s" % fn.cfg["positions_ok"])
    lists = [list_term(fn, vs[i], "find_commands") for i in (1, 2, 3, 7, 8)]
    st, en, rec = vs[4], vs[5], vs[6]
    need(isinstance(st.ty, tuple) and st.ty[0] == "opt" and st.known is not None and st.known[0] == "Some"
         and st.known[1].ty == "nat" and st.known[1].term is not None, "find_commands: start is not Some(line number)")
    need(en.known == ("None",), "find_commands: end is not None")
    need(rec.ty == "bool" and isinstance(rec.known, bool), "find_commands: allow_recursive is not a literal")
    table = "(mkT %s)" % " ".join("(%s)" % l if " " in l and not l.startswith(("(", "[")) else l for l in lists)
    call = "%s %s cmds %s" % ("find_commands" if rec.known else "find_commands_nr", table, st.known[1].term)
    mid, e = fn.fresh("mid"), fn.fresh("e")
    pos = CmdV(("struct", "Positions"), None, items={"middle": CmdV(("list", "nat"), mid), "end": CmdV("nat", e)})
    rty = ("res", ("opt", ("struct", "Positions")), "msg")
    ok = k(CmdV(rty, None, known=("Ok", CmdV(("opt", ("struct", "Positions")), None, known=("Some", pos)))))
    bad = k(CmdV(rty, None, known=("Err", CmdV("msg", None, lit="%find_commands"))))
    return "match %s with\n| SOk %s %s =>\n%s\n| _ =>\n%s\nend" % (call, mid, e, rs2v.cmd_indent(ok, 4), rs2v.cmd_indent(bad, 4))


def scope_args(fn, vs, what):
    need(len(vs) == 3 and fn.cell_of(vs[0]) == "vars" and vs[1].ty == "stateroot", "scope::%s of something else than "
         "(the variables, the state, ..)" % what)
    return list_term(fn, vs[2], "scope::" + what)


def cp_scope_push(fn, vs, expect, k):
    copy = scope_args(fn, vs, "push")
    g = fn.st["g"].term
    v1, sc1 = fn.fresh("vars"), fn.fresh("scopes")
    saved = fn.st
    fn.write("vars", CmdV("vars", v1))
    fn.write("g", CmdV("xfnst", "(xs_set_scopes %s %s)" % (sc1, g)))
    try:
        body = k(CmdV(("res", "unit", "msg"), None, known=("Ok", CmdV("unit"))))
    finally:
        fn.st = saved
    return "match fl_scope_push %s %s (xs_scopes %s) with\n| (%s, %s) =>\n%s\nend" % (
        copy, saved["vars"].term, g, v1, sc1, rs2v.cmd_indent(body, 4))


def cp_scope_pop(fn, vs, expect, k):
    copy = scope_args(fn, vs, "pop")
    g = fn.st["g"].term
    v1, sc1 = fn.fresh("vars"), fn.fresh("scopes")
    saved = fn.st
    bad = k(CmdV(("res", "unit", "msg"), None, known=("Err", CmdV("msg", None, lit="%scope"))))
    fn.write("vars", CmdV("vars", v1))
    fn.write("g", CmdV("xfnst", "(xs_set_scopes %s %s)" % (sc1, g)))
    try:
        ok = k(CmdV(("res", "unit", "msg"), None, known=("Ok", CmdV("unit"))))
    finally:
        fn.st = saved
    return "match fl_scope_pop %s %s (xs_scopes %s) with\n| Some (%s, %s) =>\n%s\n| None =>\n%s\nend" % (
        copy, saved["vars"].term, g, v1, sc1, rs2v.cmd_indent(ok, 4), rs2v.cmd_indent(bad, 4))


# ---- commands as values ------------------------------------------------------------------------------------------------
def command_value(fn, struct):
    need(struct in fn.cfg["commands"], "unknown command struct %s" % struct)
    return CmdV(("command", struct))


def path_fallback(fn, p, vs, expect):
    parts = p.split("::")
    if len(parts) >= 2 and parts[-1] == "new" and parts[-2] in fn.cfg["commands"]:
        need(len(vs) == 1 and vs[0].ty == "package", "%s of something else than the package" % p)
        mod = fn.cfg["commands"][parts[-2]][2]
        need(len(parts) == 2 or (len(parts) == 3 and parts[0] == mod), "%s: the command lives in module %s" % (p, mod))
        need(parts[-2] in fn.cfg["new_ok"], "%s::new is not `%s { package: package.to_string() }`" % (parts[-2], parts[-2]))
        return command_value(fn, parts[-2])
    return None


def m_cmd_aliases(fn, r, vs, tf, expect):
    need(not vs, "aliases with arguments")
    al = fn.cfg["commands"][r.ty[1]][1]
    return CmdV(("list", "str"), "[%s]" % "; ".join(rs2v.coq_str_lit(a) for a in al))


def m_cmd_name(fn, r, vs, tf, expect):
    need(not vs, "name with arguments")
    nm = fn.cfg["commands"][r.ty[1]][0]
    return CmdV("str", rs2v.coq_str_lit(nm), lit=nm)


def s_command(struct):
    def h(fn, fields, env):
        need([f for f, _ in fields] == ["package"] and fields[0][1].ty == "package", "%s { .. }: fields" % struct)
        return command_value(fn, struct)
    return h


def s_record(name, decl):
    def h(fn, fields, env):
        need(sorted(f for f, _ in fields) == sorted(f for f, _t, _r in decl), "%s { .. }: fields %r" % (name, [f for f, _ in fields]))
        items = {}
        for f, v in fields:
            ty = [t for g, t, _r in decl if g == f][0]
            if v.ty == "intlit":
                v = fn.literal(v, ty)
            if isinstance(v.ty, tuple) and v.ty[0] == "opt" and v.ty[1] is None:
                v = CmdV(ty, v.term, known=v.known)
            need(v.ty == ty, "%s.%s: a value of type %r" % (name, f, v.ty))
            items[f] = v
        return CmdV(("struct", name), None, items=items)
    return h


CALL_RUN = ("block", [], ("call", ("path", ["run_call"]), [
    ("mcall", ("path", ["self"]), "name", [], None),
    ("ref", ("field", ("path", ["context"]), "arguments")),
    ("field", ("path", ["context"]), "state"),
    ("field", ("path", ["context"]), "variables"),
    ("field", ("path", ["context"]), "output_variable"),
    ("field", ("path", ["context"]), "line")]))
CALL_NAME = ("block", [], ("mcall", ("field", ("path", ["self"]), "name"), "clone", [], None))


def s_call_command(fn, fields, env):
    """CallFunctionCommand { name }: the command FunctionCommand::run declares and registers"""
    need([f for f, _ in fields] == ["name"] and fields[0][1].ty == "str" and fields[0][1].term is not None,
         "CallFunctionCommand { .. }: fields")
    items = env.get("%items", {})
    st = items.get(("struct", "CallFunctionCommand"))
    need(st is not None and [(f, t.replace(" ", "")) for f, t in st[3]] == [("name", "String")],
         "struct CallFunctionCommand { name: String } is not declared here")
    im = items.get(("impl", "Command", "CallFunctionCommand"))
    need(im is not None, "impl Command for CallFunctionCommand is not declared here")
    fns = im[4]
    need("run" in fns and "name" in fns and "aliases" not in fns, "impl Command for CallFunctionCommand: its functions")
    rcv, params, ret, body = fns["run"]
    need(rcv == "ref" and [(p, t.replace(" ", "")) for p, t in params] == [("context", T_CTX)] and body == CALL_RUN,
         "CallFunctionCommand::run is not run_call(self.name(), &context.arguments, context.state, context.variables, "
         "context.output_variable, context.line)")
    need([p for p, _t in fn.cfg["all_fns"]["run_call"][0]] == RUN_CALL_PARAMS, "run_call: its parameters")
    rcv, params, ret, body = fns["name"]
    need(rcv == "ref" and not params and body == CALL_NAME, "CallFunctionCommand::name is not self.name.clone()")
    return CmdV("callcmd", None, items={"name": fields[0][1]})


def m_commands_set(fn, r, vs, tf, expect):
    need(len(vs) == 1 and vs[0].ty == "callcmd", "commands.set of something else than the call command")
    fn.refine = dict(fn.refine)
    fn.refine["%registered"] = vs[0].items["name"].term
    return CmdV(("res", "unit", "msg"), None, known=("Ok", CmdV("unit")))


# ---- std ---------------------------------------------------------------------------------------------------------------
def unary(ty, fmt):
    def h(fn, r, vs, tf, expect):
        need(not vs, "arguments of a method without parameters")
        return CmdV(ty, fmt % fn.cur(r).term)
    return h


def m_identity(fn, r, vs, tf, expect):
    need(not vs, "arguments of a conversion")
    return fn.cur(r)


def m_list_contains(fn, r, vs, tf, expect):
    need(len(vs) == 1 and vs[0].ty == "str" and vs[0].term is not None and r.ty[1] == "str" and r.term is not None, "contains: arguments")
    return CmdV("bool", "(str_in %s %s)" % (vs[0].term, r.term))


def m_vec_push(fn, r, vs, tf, expect):
    need(len(vs) == 1 and vs[0].term is not None, "push of a value without a term")
    cur = fn.cur(r)
    need(cur.ty[1] in (None, vs[0].ty), "push of %r on a Vec of %r" % (vs[0].ty, cur.ty[1]))
    fn.write(fn.cell_of(r), CmdV(("list", vs[0].ty), "(%s ++ [%s])" % (cur.term, vs[0].term)))
    return CmdV("unit")


def m_vec_append(fn, r, vs, tf, expect):
    need(len(vs) == 1, "append: arguments")
    other, cur = fn.cur(vs[0]), fn.cur(r)
    need(isinstance(other.ty, tuple) and other.ty[0] == "list" and other.term is not None and other.ty[1] in (None, cur.ty[1])
         or cur.ty[1] is None, "append of %r on a Vec of %r" % (other.ty, cur.ty[1]))
    fn.write(fn.cell_of(r), CmdV(("list", cur.ty[1] or other.ty[1]), "(%s ++ %s)" % (cur.term, other.term)))
    return CmdV("unit")


def m_vars_insert(fn, r, vs, tf, expect):
    need(len(vs) == 2 and all(x.ty == "str" and x.term is not None for x in vs), "variables.insert: arguments")
    fn.write(fn.cell_of(r), CmdV("vars", "(aset str_eqb %s %s %s)" % (vs[0].term, vs[1].term, fn.cur(r).term)))
    return CmdV("discard")


def m_vars_remove(fn, r, vs, tf, expect):
    need(len(vs) == 1 and vs[0].ty == "str" and vs[0].term is not None, "variables.remove: arguments")
    fn.write(fn.cell_of(r), CmdV("vars", "(adel %s %s)" % (vs[0].term, fn.cur(r).term)))
    return CmdV("discard")


METHODS = {
    ("args", "len"): unary("nat", "(length %s)"), ("args", "is_empty"): unary("bool", "(vec_is_empty %s)"),
    ("list", "len"): unary("nat", "(length %s)"), ("list", "is_empty"): unary("bool", "(vec_is_empty %s)"),
    ("list", "contains"): m_list_contains,
    ("str", "to_string"): m_identity, ("msg", "to_string"): m_identity, ("package", "clone"): m_identity,
    ("nat", "to_string"): unary("str", "(dec_nat %s)"),
    ("opt", "clone"): m_identity,
    ("command", "aliases"): m_cmd_aliases, ("command", "name"): m_cmd_name,
    ("commands", "set"): m_commands_set,
    ("&list", "push"): m_vec_push, ("&list", "append"): m_vec_append,
    ("&vars", "insert"): m_vars_insert, ("&vars", "remove"): m_vars_remove,
    ("&dict", "insert"): m_dict_insert, ("dict", "get"): m_dict_get, ("dict", "contains_key"): m_dict_contains_key,
}
CPS_METHODS = {("callstack", "push"): cm_callstack_push, ("callstack", "pop"): cm_callstack_pop}


# ---- constructors ------------------------------------------------------------------------------------------------------
def msg_code(v):
    need(v.ty in ("str", "msg") and v.lit is not None, "a result that carries something else than a message")
    need(v.lit in ERR, "the message %r is not in the table" % v.lit)
    return ERR[v.lit]


def c_error(fn, vs, expect):
    need(len(vs) == 1, "Error: arguments")
    return CmdV("cmdresult", "(RError %d%%N)" % msg_code(vs[0]))


def c_crash(fn, vs, expect):
    need(len(vs) == 1, "Crash: arguments")
    return CmdV("cmdresult", "(RCrash %d%%N)" % msg_code(vs[0]))


def c_continue(fn, vs, expect):
    need(len(vs) == 1 and vs[0].known == ("None",), "Continue of something else than None")
    return CmdV("cmdresult", "RContinue")


def c_goto(fn, vs, expect):
    need(len(vs) == 2 and isinstance(vs[0].ty, tuple) and vs[0].ty[0] == "opt", "GoTo: the output is not an Option")
    need(vs[1].ty == "gotovalue" and vs[1].known is not None and vs[1].known[0] == "Line", "GoTo of something else than a line")
    return CmdV("cmdresult", "(RGoto %s)" % vs[1].known[1].term)


def c_goto_line(fn, vs, expect):
    need(len(vs) == 1 and vs[0].ty == "nat" and vs[0].term is not None, "GoToValue::Line of something else than a line number")
    return CmdV("gotovalue", None, known=("Line", vs[0]))


def c_sv(variant, ty):
    def h(fn, vs, expect):
        need(len(vs) == 1, "StateValue::%s: arguments" % variant)
        v = fn.cur(vs[0])
        if v.ty == "intlit":
            v = fn.literal(v, ty)
        need(v.ty == ty, "StateValue::%s of a value of type %r" % (variant, v.ty))
        return CmdV("sv", None, known=(variant, v))
    return h


CTORS = {"CommandResult::Error": c_error, "CommandResult::Crash": c_crash, "CommandResult::Continue": c_continue,
         "CommandResult::GoTo": c_goto, "GoToValue::Line": c_goto_line,
         "StateValue::UnsignedNumber": c_sv("UnsignedNumber", "nat"), "StateValue::Boolean": c_sv("Boolean", "bool"),
         "StateValue::String": c_sv("String", "str"), "StateValue::SubState": c_sv("SubState", "dict")}


def mac_vec(fn, args, env, k, ctx, expect):
    if not args:
        return k(CmdV(("list", None), "[]"))
    return fn.seq(args, env, lambda vs: k(fn.list_of([fn.cur(v) for v in vs])), ctx)


def mac_format(fn, args, env, k, ctx, expect):
    need(args and args[0][0] == "str", "format! without a literal")
    lit = args[0][1]
    return fn.seq(args[1:], env, lambda vs: k(CmdV("msg", None, lit=lit)), ctx)


COMPARE = {
    "nat": {"<": "(Nat.ltb %s %s)", "<=": "(Nat.leb %s %s)", "==": "(Nat.eqb %s %s)"},
    "str": {"==": "(str_eqb %s %s)"},
}


class FnFlowfnGen(rs2v.FnFlowfn):
    """FnFlowfn + compound assignment: `x += e` / `x -= e` on a `let mut` local is `x = x + e` / `x = x - e`"""

    def stmts1(self, ss, tail, env, k, ctx, expect):
        if ss and ss[0][0] == "assign" and ss[0][2] in ("+=", "-="):
            s = ss[0]
            ss = [("assign", s[1], "=", ("bin", s[2][0], s[1], s[3]))] + list(ss[1:])
        return rs2v.FnFlowfn.stmts1(self, ss, tail, env, k, ctx, expect)


# ---- the sources -------------------------------------------------------------------------------------------------------
def read_struct_decl(src, name):
    m = re.search(r"^struct\s+%s\s*\{(.*?)^\}" % re.escape(name), rs2v.strip_attributes(src), re.S | re.M)
    need(m is not None, "struct %s not found" % name)
    body = re.sub(r"//[^\n]*", "", m.group(1))
    return [(f, t.replace(" ", "")) for f, t in re.findall(r"(?:pub(?:\([a-z]+\))?\s+)?(\w+)\s*:\s*([^,\n]+?)\s*,", body)]


def frame_check(state_src):
    """get_core_sub_state_for_command(state, name) is the sub-map "duckscriptsdk::command::<name>" of state"""
    m = re.search(r"fn\s+get_core_sub_state_for_command\s*\(\s*state\s*:\s*&mut\s+HashMap<String,\s*StateValue>\s*,\s*name\s*:\s*String\s*,?\s*\)", state_src)
    need(m is not None, "get_core_sub_state_for_command: parameters")
    body = rs2v.balanced_block(state_src, state_src.index("{", state_src.index("->", m.end())))
    body = re.sub(r"//[^\n]*", "", body)
    need(re.fullmatch(r'\s*let\s+(\w+)\s*=\s*pckg::concat\(\s*"duckscriptsdk::command"\s*,\s*&name\s*\)\s*;\s*'
                      r'get_sub_state\(\s*\1\s*,\s*state\s*\)\s*', body) is not None,
         "get_core_sub_state_for_command is not `get_sub_state(pckg::concat(\"duckscriptsdk::command\", &name), state)`")


def uses_ok(src):
    def use(path, names):
        m = re.search(r"^use\s+%s::\{([^}]*)\}\s*;|^use\s+%s::(\w+)\s*;" % (re.escape(path), re.escape(path)), src, re.M)
        need(m is not None, "no `use %s::..`" % path)
        got = set(re.findall(r"\w+", m.group(1) or m.group(2)))
        need(set(names) <= got, "`use %s::{..}` does not bring %s" % (path, sorted(set(names) - got)))
    use("crate::utils::state", ["get_core_sub_state_for_command", "get_list", "get_sub_state"])
    use("crate::utils", ["annotation", "instruction_query", "pckg", "scope"])
    use("crate::sdk::std::flowcontrol", ["end", "forin", "ifelse", "while_mod"])
    use("crate::types::scope", ["get_line_context_name"])
    need(re.search(r"^(?:pub(?:\([a-z]+\))?\s+)?(?:fn|mod)\s+(?:scope|end|annotation|instruction_query|get_line_context_name|"
                   r"get_core_sub_state_for_command|get_list|get_sub_state)\b", src, re.M) is None,
         "a configured callee is redefined in the file")


def command_tables(api):
    """{struct: (name(), aliases(), module)} of the flow-control commands, and the structs whose `new` hands the package on"""
    import c04_gen
    srcs = {k: c04_gen.strip_comments(api.read(rel)) for k, rel in c04_gen.FILES.items()}
    std_rel = "duckscript_sdk/src/sdk/std/mod.rs"
    std_src = c04_gen.strip_comments(api.read(std_rel))
    need(re.search(r"flowcontrol::load\(\s*commands\s*,\s*PACKAGE\s*\)", std_src) is not None, "std/mod.rs: flowcontrol::load(commands, PACKAGE)")
    fc_src = c04_gen.strip_comments(api.read(FC + "mod.rs"))
    load = api.fn_body(fc_src, "load", FC + "mod.rs")
    need(re.search(r"let\s+package\s*=\s*pckg::concat\(\s*parent\s*,\s*PACKAGE\s*\)\s*;", load) is not None
         and re.search(r"function::load\(\s*commands\s*,\s*&package\s*\)", load) is not None, "flowcontrol/mod.rs: load")
    pk_rel = "duckscript_sdk/src/utils/pckg.rs"
    pk = " ".join(api.fn_body(c04_gen.strip_comments(api.read(pk_rel)), "concat", pk_rel).split())
    need(pk == ('{ let mut package = String::from(parent); if !parent.is_empty() && !current.is_empty() '
                '{ package.push_str("::"); } package.push_str(current); package }'), "pckg::concat has an unexpected shape")
    package = c04_gen.concat(c04_gen.static_str(api, std_src, "PACKAGE", std_rel), c04_gen.static_str(api, fc_src, "PACKAGE", FC + "mod.rs"))
    names = c04_gen.command_names(api, srcs, package)
    out, new_ok = {}, set()
    for struct, (fkey, _ident) in c04_gen.COMMANDS.items():
        out[struct] = (names[struct][0], names[struct][1], fkey)
        if re.search(r"fn\s+new\s*\(\s*package\s*:\s*&str\s*\)\s*->\s*%s\s*\{\s*%s\s*\{\s*package\s*:\s*package\.to_string\(\)\s*,?\s*\}\s*\}"
                     % (struct, struct), srcs[fkey]):
            new_ok.add(struct)
    end_name = c04_gen.static_str(api, srcs["end"], "END_COMMAND_NAME", c04_gen.FILES["end"])
    # function::create hands its package to the three commands it builds
    body = api.fn_body(srcs["function"], "create", REL)
    for struct in ("FunctionCommand", "EndFunctionCommand", "ReturnCommand"):
        need(re.search(r"Box::new\(\s*%s\s*\{\s*package:\s*package\.to_string\(\)\s*,?\s*\}\s*\)" % struct, body) is not None,
             "create(): %s { package: package.to_string() } not found" % struct)
    return out, new_ok, end_name


class Sources:
    def __init__(self, api):
        self.src = api.read(REL)
        uses_ok(self.src)
        try:
            frame_check(api.read(REL_STATE))
            self.frame_ok = True
        except Exception as e:  # noqa: BLE001
            self.frame_ok = clean(e)
        try:
            q = rs2v.strip_attributes(api.read(REL_QUERY))
            m = re.search(r"struct\s+Positions\s*\{(.*?)\}", q, re.S)
            need(m is not None, "struct Positions not found")
            fields = [(f, t.replace(" ", "")) for f, t in re.findall(r"(?:pub(?:\([a-z]+\))?\s+)?(\w+)\s*:\s*([^,\n]+?)\s*,", m.group(1))]
            need(fields == [("middle", "Vec<usize>"), ("end", "usize")], "struct Positions: fields %r" % (fields,))
            sig = re.search(r"fn\s+find_commands\s*\((.*?)\)\s*->\s*Result<Option<Positions>,\s*String>", q, re.S)
            need(sig is not None and [p for p in re.findall(r"(\w+)\s*:", sig.group(1))] ==
                 ["instructions", "start_names", "middle_names", "end_names", "start", "end", "allow_recursive", "start_blocks", "end_blocks"],
                 "find_commands: signature")
            self.positions_ok = True
        except Exception as e:  # noqa: BLE001
            self.positions_ok = clean(e)
        self.commands, self.new_ok, self.end_name = command_tables(api)
        got = read_struct_decl(self.src, "CallInfo")
        need(sorted(got) == sorted((f, r) for f, _t, r in XCALL), "struct CallInfo: fields %r" % (got,))
        got = read_struct_decl(self.src, "FunctionMetaInfo")
        need(sorted(got) == sorted((f, r) for f, _t, r in FMETA), "struct FunctionMetaInfo: fields %r" % (got,))
        self.statics = {}
        for sname, (sty, sval) in rs2v.read_statics(self.src).items():
            if sty == rs2v.Ty.STR:
                self.statics[sname] = CmdV("str", rs2v.coq_str_lit(sval), lit=sval)
        self.fns = {}
        self.why = {}
        # every free function of the file but the module glue; the ones that are not translated on their own are inlined where
        # they are called
        self.free = [h for h in rs2v.cmd_free_fns(rs2v.strip_attributes(self.src)) if h not in ("create", "load")]
        for f in self.free:
            try:
                self.fns[f] = rs2v.parse_flowfn_fn(self.src, f)
            except Exception as e:  # noqa: BLE001
                self.why[f] = clean(e)

    def fn(self, name):
        need(name in self.fns, "fn %s: %s" % (name, self.why.get(name, "not found")))
        return self.fns[name]


def base_cfg(S):
    paths = {"get_core_sub_state_for_command": p_core_sub_state, "get_list": p_get_list, "HashMap::new": p_hashmap_new,
             "get_line_context_name": p_get_line_context_name, "annotation::parse": p_annotation_parse, "Box::new": p_box_new,
             "end::set_command": p_end_set_command}
    cps = {"get_sub_state": cp_get_sub_state, "instruction_query::find_commands": cp_find_commands,
           "scope::push": cp_scope_push, "scope::pop": cp_scope_pop}
    statics = dict(S.statics)
    return {
        "params": dict(statics), "statics": statics, "fields": {}, "args_term": "args", "panic": PANIC, "ctors": CTORS, "paths": paths,
        "methods": METHODS, "cps_methods": CPS_METHODS, "cps_paths": cps, "macros": {"vec": mac_vec, "format": mac_format},
        "casts": {}, "compare": COMPARE, "arith": {}, "arith_total": {("nat", "+"): "(%s + %s)%%nat"}, "literal": {"nat": "%d%%nat"},
        "int_default": "nat", "types": types, "helpers": {}, "all_fns": dict(S.fns), "coq_type": coq_type, "range": {},
        "cell_types": cell_types, "map_items": {}, "cells": {}, "structs": {}, "struct_proj": {}, "path_fallback": path_fallback,
        "commands": S.commands, "new_ok": S.new_ok, "frame_ok": S.frame_ok, "positions_ok": S.positions_ok, "avail": set(),
    }


def state_term(fn):
    """the state a command leaves behind"""
    w = "w" if fn.st["vars"].term == "(w_vars w)" else "(set_vars %s w)" % fn.st["vars"].term
    f, g = fn.st["flow"].term, fn.st["g"].term
    return "s" if (w, f, g) == ("w", "f", "g") else "(%s, %s, %s)" % (w, f, g)


def finish_cmd(fn, v):
    need(v.ty == "cmdresult" and v.term is not None, "`run` ends with a value of type %r" % (v.ty,))
    return flush(fn, lambda: "(%s, %s)" % (v.term, state_term(fn)))


OWN_FNS = ("push_to_call_stack", "pop_from_call_stack", "run_call", "store_fn_info_in_state", "get_fn_info_from_state")
CMD_CELLS = {"vars": ("vars", "(w_vars w)"), "flow": ("flow", "f"), "g": ("xfnst", "g")}


def cmd_cfg(S, avail, helpers):
    cfg = base_cfg(S)
    cfg["cells"] = {c: CmdV(t, x) for c, (t, x) in CMD_CELLS.items()}
    cfg["finish"] = finish_cmd
    cfg["avail"] = set(avail)
    cfg["helpers"] = {h: S.fn(h) for h in helpers}
    for h in S.free:        # helpers a refactoring may have introduced
        if h not in OWN_FNS and h not in cfg["helpers"] and h in S.fns:
            cfg["helpers"][h] = S.fns[h]
    cfg["paths"] = dict(cfg["paths"])
    cfg["paths"]["push_to_call_stack"] = p_push_to_call_stack
    cfg["cps_paths"] = dict(cfg["cps_paths"])
    cfg["cps_paths"]["pop_from_call_stack"] = cp_pop_from_call_stack
    cfg["structs"] = {"CallInfo": s_record("CallInfo", XCALL), "FunctionMetaInfo": s_record("FunctionMetaInfo", FMETA),
                      "CallFunctionCommand": s_call_command}
    for struct in S.commands:
        cfg["structs"][struct] = s_command(struct)
    return cfg


def run_method(S, type_name):
    receiver, params, ret, body = rs2v.parse_flowfn_method(S.src, "Command", type_name, "run")
    need(receiver == "ref" and len(params) == 1 and params[0][1].replace(" ", "") == T_CTX and ret is not None
         and ret.replace(" ", "") == "CommandResult", "%s::run: signature" % type_name)
    return params[0][0], body


def ctx_fields(cfg, c, names):
    table = {"arguments": CmdV("args", "args"), "state": ROOT, "variables": CmdV(("ref", "vars")), "line": CmdV("nat", "line"),
             "instructions": CmdV("instructions"), "commands": CmdV("commands")}
    cfg["fields"] = {(c, n): table[n] for n in names}


WRAP = "let '(w, f, g) := s in\n%s"

SIGS = {
    "push_to_call_stack": ("(call_info : xcall) (g : xfnst)", "xfnst", "g"),
    "pop_from_call_stack": ("(g : xfnst)", "option xcall * xfnst", "(None, g)"),
    "run_call": ("(lcn : str) (function_name : str) (arguments : list str) (output_variable : option str) (line : nat) (s : xstate)",
                 "cres * xstate", "(RPanic, s)"),
    "function_run": ("(ann : str -> option (list str)) (cmds : list (option str)) (line : nat) (args : list str) (s : xstate)",
                     "cres * xstate", "(RPanic, s)"),
    "end_function_run": ("(lcn : str) (line : nat) (s : xstate)", "cres * xstate", "(RPanic, s)"),
    "return_run": ("(lcn : str) (line : nat) (args : list str) (s : xstate)", "cres * xstate", "(RPanic, s)"),
}


def tr_push(S):
    params, ret, body = S.fn("push_to_call_stack")
    need([t.replace(" ", "") for _p, t in params] == [T_STATE, "&CallInfo"] and ret is None, "push_to_call_stack: signature")
    S.fn("pop_from_call_stack")
    cfg = base_cfg(S)
    cfg["cells"] = {"g": CmdV("xfnst", "g")}
    cfg["params"][params[0][0]] = ROOT
    cfg["params"][params[1][0]] = xcall_of_term("call_info")
    cfg["structs"] = {"CallInfo": s_record("CallInfo", XCALL)}

    def finish(fn, v):
        need(v.ty == "unit", "push_to_call_stack ends with a value of type %r" % (v.ty,))
        return fn.st["g"].term
    cfg["finish"] = finish
    return FnFlowfnGen(cfg).function(body, "unit")


def tr_pop(S):
    params, ret, body = S.fn("pop_from_call_stack")
    need([t.replace(" ", "") for _p, t in params] == [T_STATE] and ret is not None and ret.replace(" ", "") == "Option<CallInfo>",
         "pop_from_call_stack: signature")
    S.fn("push_to_call_stack")
    cfg = base_cfg(S)
    cfg["cells"] = {"g": CmdV("xfnst", "g")}
    cfg["params"][params[0][0]] = ROOT
    cfg["structs"] = {"CallInfo": s_record("CallInfo", XCALL)}

    def finish(fn, v):
        need(isinstance(v.ty, tuple) and v.ty[0] == "opt" and v.known is not None, "pop_from_call_stack ends with a value of type %r" % (v.ty,))
        if v.known[0] == "None":
            return "(None, %s)" % fn.st["g"].term
        return "(Some %s, %s)" % (record_term(v.known[1], XCALL, "mkXC"), fn.st["g"].term)
    cfg["finish"] = finish
    return FnFlowfnGen(cfg).function(body, types(ret))


def tr_run_call(S):
    params, ret, body = S.fn("run_call")
    need([(p, t.replace(" ", "")) for p, t in params] ==
         list(zip(RUN_CALL_PARAMS, ["String", "&Vec<String>", T_STATE, T_VARS, "Option<String>", "usize"]))
         and ret is not None and ret.replace(" ", "") == "CommandResult", "run_call: signature")
    cfg = cmd_cfg(S, ["lcn"], ["get_fn_info_from_state"])
    cfg["params"].update({"function_name": CmdV("str", "function_name"), "arguments": CmdV(("list", "str"), "arguments"),
                          "state": ROOT, "variables": CmdV(("ref", "vars")),
                          "output_variable": CmdV(("opt", "str"), "output_variable"), "line": CmdV("nat", "line")})
    return WRAP % FnFlowfnGen(cfg).function(body, "cmdresult")


def tr_function_run(S):
    c, body = run_method(S, "FunctionCommand")
    cfg = cmd_cfg(S, ["ann"], ["get_fn_info_from_state", "store_fn_info_in_state"])
    S.fn("run_call")
    cfg["need_registered"] = True
    ctx_fields(cfg, c, ["arguments", "state", "line", "instructions", "commands"])
    cfg["fields"][("self", "package")] = CmdV("package")
    cfg["params"]["self"] = CmdV(("command", "FunctionCommand"))
    cfg["consts"] = {"end::END_COMMAND_NAME": CmdV("str", rs2v.coq_str_lit(S.end_name), lit=S.end_name)}
    return WRAP % FnFlowfnGen(cfg).function(body, "cmdresult")


def tr_end_function_run(S):
    c, body = run_method(S, "EndFunctionCommand")
    cfg = cmd_cfg(S, ["lcn"], [])
    ctx_fields(cfg, c, ["state", "variables", "line"])
    return WRAP % FnFlowfnGen(cfg).function(body, "cmdresult")


def tr_return_run(S):
    c, body = run_method(S, "ReturnCommand")
    cfg = cmd_cfg(S, ["lcn"], [])
    ctx_fields(cfg, c, ["arguments", "state", "variables", "line"])
    return WRAP % FnFlowfnGen(cfg).function(body, "cmdresult")


FUNCTIONS = [("push_to_call_stack", tr_push), ("pop_from_call_stack", tr_pop), ("run_call", tr_run_call),
             ("function_run", tr_function_run), ("end_function_run", tr_end_function_run), ("return_run", tr_return_run)]


def generate(api, force_stub=False):
    """continuation passing nests deeply (every statement of every inlined helper is a few Python frames): the translation runs
    in a thread of its own with a larger stack and recursion limit, so that the limit of the calling process stays as it is"""
    import threading
    box = []

    def job():
        old = sys.getrecursionlimit()
        sys.setrecursionlimit(max(old, 20000))
        try:
            box.append(generate_text(api, force_stub))
        finally:
            sys.setrecursionlimit(old)
    old_size = threading.stack_size(256 * 1024 * 1024)
    try:
        t = threading.Thread(target=job)
        t.start()
        t.join()
    finally:
        threading.stack_size(old_size)
    text = box[0] if box else generate_text(api, "the translation thread died")
    api.emit("GenFlowfnFn.v", text, "%s (push_to_call_stack, pop_from_call_stack, run_call, store_fn_info_in_state, "
             "get_fn_info_from_state, fn run of FunctionCommand / EndFunctionCommand / ReturnCommand) by lib/rs2v.py" % REL)


def generate_text(api, force_stub=False):
    text = HEAD
    S, why_all = None, None
    try:
        S = Sources(api)
    except Exception as e:  # noqa: BLE001
        why_all = clean(e)
    for name, tr in FUNCTIONS:
        binders, rty, stub = SIGS[name]
        flag = "gen_%s_understood" % name
        try:
            if force_stub:
                raise Rs2vError("stub requested (%s)" % force_stub if isinstance(force_stub, str) else "stub requested")
            need(S is not None, why_all)
            body = tr(S)
            text += "Definition %s : bool := true.\nDefinition gen_%s %s : %s :=\n%s.\n" % (flag, name, binders, rty, rs2v.cmd_indent(body))
        except RecursionError:
            text += ("(* NOT UNDERSTOOD %s: recursion limit *)\nDefinition %s : bool := false.\nDefinition gen_%s %s : %s := %s.\n"
                     % (name, flag, name, binders, rty, stub))
        except Exception as e:  # noqa: BLE001  anything unexpected means: not understood (never a crash, never a guess)
            text += ("(* NOT UNDERSTOOD %s: %s *)\nDefinition %s : bool := false.\nDefinition gen_%s %s : %s := %s.\n"
                     % (name, clean(e), flag, name, binders, rty, stub))
    text += "Definition gen_flowfn_understood : bool := true.\n"
    return text
