"""c12_gen — regenerate coq/generated/GenCollections.v: what can be read mechanically from the source
of the collection commands of C12 (duckscript_sdk/src/sdk/std/collections/<dir>/mod.rs and
std/release/mod.rs):

  gen_c12_understood : bool
  gen_c12_cmds : list (str * list str * bool * N * N)
      (directory name, alias list, implemented by a script.ds?, minimal argument count,
       kind of handle the command works on: 0 none, 1 list, 2 map (SubState), 3 set)

  native command   aliases   = the strings of `fn aliases`'s vec![..]
                   min args  = the leading argument-count tests of `fn run`
                               (`context.arguments.is_empty()` = 1, `context.arguments.len() < k` = k, none = 0)
                   kind      = the mutate_list / mutate_map / mutate_set helper it calls, or the
                               StateValue arm (List / SubState / Set) it matches after `.get(`
  script command   aliases, min args = arguments of create_alias_command(name, vec![..], help, scope, script, n)
                   kind      = 0 (not read from the script)

theories/CollectionsProof.v proves by computation (gen_table_ok) that this table agrees with the
model's own table (names, aliases, argument-count errors, wanted kinds), so that an edit of an alias,
an argument check or a helper call in the source breaks an obligation of C12.
`extract(api)` is also used by lib/props/c12.py to drive the commands through their real aliases."""
import re

DIRS = ["array", "range", "array_push", "array_pop", "array_get", "array_set", "array_remove", "array_clear",
        "array_length", "map", "map_put", "map_get", "map_remove", "map_size", "map_keys", "map_clear",
        "set", "set_put", "set_remove", "set_contains", "set_size", "set_clear", "set_to_array",
        "is_array", "is_map", "is_set", "release",
        "array_is_empty", "array_contains", "array_concat", "array_join", "map_contains_key",
        "map_contains_value", "map_is_empty", "set_from_array", "set_is_empty"]

STR = r'"((?:[^"\\]|\\.)*)"\.to_string\(\)'


def extract(api):
    rows = []
    for d in DIRS:
        base = ("duckscript_sdk/src/sdk/std/release/" if d == "release"
                else "duckscript_sdk/src/sdk/std/collections/%s/" % d)
        rel = base + "mod.rs"
        src = api.read(rel)
        if "create_alias_command" in src:
            m = re.search(r'create_alias_command\(\s*name,\s*vec!\[(.*?)\],\s*include_str!\("help\.md"\)\.to_string\(\),\s*'
                          r'"((?:[^"\\]|\\.)*)"\.to_string\(\),\s*include_str!\("script\.ds"\)\.to_string\(\),\s*(\d+),?\s*\)',
                          src, re.S)
            if not m:
                raise api.GenError(rel + ": create_alias_command(name, vec![..], help, scope, script, n) not found")
            api.read(base + "script.ds")
            aliases = [api.rust_str(a) for a in re.findall(STR, m.group(1))]
            rows.append((d, aliases, True, int(m.group(3)), 0))
            continue
        body = api.fn_body(src, "aliases", rel)
        m = re.search(r"vec!\[(.*?)\]", body, re.S)
        if not m:
            raise api.GenError(rel + ": fn aliases: vec![..] not found")
        aliases = [api.rust_str(a) for a in re.findall(STR, m.group(1))]
        if not aliases:
            raise api.GenError(rel + ": fn aliases: no alias")
        run = api.fn_body(src, "run", rel)
        # leading argument-count tests: an if / else-if chain at the very start of run
        min_args = 0
        rest = run[1:].lstrip()
        while True:
            m1 = re.match(r"(?:else\s+)?if\s+context\.arguments\.is_empty\(\)\s*\{", rest)
            m2 = re.match(r"(?:else\s+)?if\s+context\.arguments\.len\(\)\s*<\s*(\d+)\s*\{", rest)
            mm = m1 or m2
            if not mm:
                break
            min_args = max(min_args, 1 if m1 else int(m2.group(1)))
            # skip the block of this test
            i = mm.end() - 1
            depth = 0
            for j in range(i, len(rest)):
                if rest[j] == "{":
                    depth += 1
                elif rest[j] == "}":
                    depth -= 1
                    if depth == 0:
                        rest = rest[j + 1:].lstrip()
                        break
            else:
                raise api.GenError(rel + ": fn run: unbalanced block")
        # 99 / 9 = "not readable from this source shape" (tolerated by CollectionsTables.row_ok: the fact is then tied
        # by the correspondence run only); the extractor never guesses
        if min_args == 0 and re.search(r"arguments\s*(\.len\(\)|\.as_slice\(\)|\.split_first\(\)|\.first\(\)|\.get\()|match\s+&?context\.arguments", run) \
                and d != "release":
            min_args = 99
        elif "context.arguments.len()" in rest.split("mutate_")[0].split(".get(")[0] and d != "release":
            min_args = 99
        helpers = set(re.findall(r"\b(mutate_list|mutate_map|mutate_set)\(", run))
        kind = 0
        if len(helpers) > 1:
            kind = 9
        elif helpers:
            kind = {"mutate_list": 1, "mutate_map": 2, "mutate_set": 3}[helpers.pop()]
        else:
            # a match arm on the looked-up value; 9 (not determined) unless exactly one collection arm is matched
            arms = set(re.findall(r"StateValue::(List|SubState|Set)\((?:ref\s+)?(?:mut\s+)?\w+\)\)?\s*=>", run))
            kind = {"List": 1, "SubState": 2, "Set": 3}[arms.pop()] if len(arms) == 1 else 9
        rows.append((d, aliases, False, min_args, kind))
    return rows


def generate(api):
    src = "duckscript_sdk/src/sdk/std/collections/*/mod.rs, std/release/mod.rs"
    try:
        rows = extract(api)
    except api.GenError as e:
        api.emit("GenCollections.v",
                 "(* NOT UNDERSTOOD: %s *)\nDefinition gen_c12_understood : bool := false.\n"
                 "Definition gen_c12_cmds : list (str * list str * bool * N * N) := [].\n"
                 % str(e).replace("*)", "* )"), src)
        return
    items = ["  (%s, %s, %s, %d, %d)" % (api.coq_str(d), api.coq_list(al), "true" if sc else "false", mn, kd)
             for (d, al, sc, mn, kd) in rows]
    api.emit("GenCollections.v",
             "Definition gen_c12_understood : bool := true.\n"
             "Definition gen_c12_cmds : list (str * list str * bool * N * N) := [\n%s\n]%%list.\n" % ";\n".join(items), src)
