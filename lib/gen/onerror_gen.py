"""onerror_gen — TRANSLATE the on_error command family of the SDK into Gallina on every run (lib/rs2v.py, class FnRec)
-> coq/generated/GenOnErrorFn.v:

  duckscript_sdk/src/sdk/std/on_error/on_error/mod.rs               run   gen_run_on_error_cmd
  duckscript_sdk/src/sdk/std/on_error/exit_on_error/mod.rs          run   gen_run_exit_on_error
  duckscript_sdk/src/sdk/std/on_error/get_last_error/mod.rs         run   gen_run_get_last_error
  duckscript_sdk/src/sdk/std/on_error/get_last_error_line/mod.rs    run   gen_run_get_last_error_line
  duckscript_sdk/src/sdk/std/on_error/get_last_error_source/mod.rs  run   gen_run_get_last_error_source
  duckscript_sdk/src/sdk/std/on_error/set_error/mod.rs              run   gen_run_set_error
  duckscript_sdk/src/sdk/std/on_error/trigger_error/mod.rs          run   gen_run_trigger_error
  duckscript_sdk/src/sdk/std/test/assert_error/mod.rs               run   gen_run_assert_error
      each : forall ustate : Type, inv -> world (estate ustate) -> option (result * world (estate ustate))
      (None = the Rust function panics: an out-of-bounds `context.arguments[i]`; the tie proofs show it never happens)
  and per command `fn aliases`                                            gen_<cmd>_aliases : list str
  duckscript_sdk/src/sdk/std/on_error/mod.rs  get_value  is executed at each call site (inlined), specialised to the
      literal key of the call.

over the SAME types as the hand model theories/SdkErr.v (Runner.inv / world / result, SdkErr.estate).
theories/OnErrorGenTie.v proves, for ALL ustate / invocations / worlds, gen_run_X = Some (the hand model function)
and, for every name in gen_<cmd>_aliases, = Some (sdk_cmd name ..) (props/SrcOnError.v, tie key "onerror", C10).

FROM THE SOURCE (re-read on every run): every test on the argument count and its operands, which argument index goes
where, the order of reads and writes of the state, which key is written with which value and which is removed, the
call of is_true and what it is applied to, the variant match of get_value and what each arm returns, which
CommandResult is returned on which path with which payload, the message literals, the alias names.

FROM THIS CONFIGURATION (the abstraction the hand model makes, nothing else):
  * of `context.state` the model keeps ONE sub-state, SdkErr.estate: get_core_sub_state_for_command(state, K) with K
    evaluating to "on_error" (STATE_KEY, read from mod.rs) is the typed record (any other use of context.state, or
    another sub-state, is not understood), key "error" -> e_error : StateValue::String, "line" -> e_line :
    StateValue::String, "source" -> e_source : StateValue::String, "exit_on_error" -> e_exit : StateValue::Boolean
    (KEYS below; the key of every access is read from the source and must be one of these, and every insert must
    store the variant the record keeps for its key — otherwise not understood).  That no other code writes this
    sub-state and that get_core_sub_state_for_command returns the sub-map "duckscriptsdk::command::<name>" (checked
    textually on utils/state.rs, `frame_check`) is the frame assumption of the hand model;
  * context.arguments = a_args a, context.line = a_line a (usize::to_string = Runner.nat_str), bool::to_string =
    SdkErr.bool_str, CommandResult::{Continue, Error, Exit} = Runner.{Continue, Error, Exit}, CommandResult::Crash(m) =
    Crash (Msg m); the world is `w` with its command state replaced (SdkErr.set_cst) when a field changed;
  * condition::is_true = Cond.is_true (tied to the source separately: tie "cond", props/SrcCond.v);
  * every other field of the context (variables, commands, env, output_variable, instructions) is not available: a
    source that touches one is not understood.

Each function has its own flag; anything not understood -> `gen_<fn>_understood := false` and a type-correct stub."""
import os
import re
import sys

sys.path.insert(0, os.path.dirname(os.path.dirname(os.path.abspath(__file__))))
import rs2v  # noqa: E402
from rs2v import Ty, Rs2vError, T_opt, T_list, T_struct, POISON  # noqa: E402

DIR = "duckscript_sdk/src/sdk/std/on_error/"
REL_MOD = DIR + "mod.rs"
REL_STATE = "duckscript_sdk/src/utils/state.rs"
# (rust file, coq function, alias table, short name used in comments / flags)
FUNCTIONS = [
    (DIR + "on_error/mod.rs", "gen_run_on_error_cmd", "gen_on_error_aliases", "on_error"),
    (DIR + "exit_on_error/mod.rs", "gen_run_exit_on_error", "gen_exit_on_error_aliases", "exit_on_error"),
    (DIR + "get_last_error/mod.rs", "gen_run_get_last_error", "gen_get_last_error_aliases", "get_last_error"),
    (DIR + "get_last_error_line/mod.rs", "gen_run_get_last_error_line", "gen_get_last_error_line_aliases", "get_last_error_line"),
    (DIR + "get_last_error_source/mod.rs", "gen_run_get_last_error_source", "gen_get_last_error_source_aliases",
     "get_last_error_source"),
    (DIR + "set_error/mod.rs", "gen_run_set_error", "gen_set_error_aliases", "set_error"),
    (DIR + "trigger_error/mod.rs", "gen_run_trigger_error", "gen_trigger_error_aliases", "trigger_error"),
    ("duckscript_sdk/src/sdk/std/test/assert_error/mod.rs", "gen_run_assert_error", "gen_assert_error_aliases", "assert_error"),
]

SUB_STATE = "on_error"          # the command sub-state the record models
KEYS = {"error": ("e_error", "String"), "line": ("e_line", "String"), "source": ("e_source", "String"),
        "exit_on_error": ("e_exit", "Boolean")}
KINDS = {"String": Ty.STR, "Boolean": Ty.BOOL}

T_LSTR, T_OSTR, T_OBOOL = T_list(Ty.STR), T_opt(Ty.STR), T_opt(Ty.BOOL)
T_ESTATE, T_OPAQUE = T_struct("ErrState"), "opaque"
T_STATE = T_struct("State")     # context.state as a whole: the model keeps one sub-state of it, the record
REC = "context.state.on_error"

HEAD = ("From stdpp Require Import gmap.\nRequire Import DS.Cond DS.Runner DS.SdkErr.\n"
        "Local Open Scope bool_scope.\nLocal Open Scope nat_scope.\n")
BINDERS = "(ustate : Type) (a : inv) (w : world (estate ustate))"
RTYPE = "option (result * world (estate ustate))"


def need(cond, what):
    if not cond:
        raise Rs2vError(what)


def initial_state():
    return {"e_error": (T_OSTR, "(e_error (cst w))"), "e_line": (T_OSTR, "(e_line (cst w))"),
            "e_source": (T_OSTR, "(e_source (cst w))"), "e_exit": (T_OBOOL, "(e_exit (cst w))"),
            "e_user": (T_OPAQUE, "(e_user (cst w))")}


# ---- the abstracted callee: get_core_sub_state_for_command(state, NAME) is the record ----------------------------
def c_sub_state(fn, args, env, name):
    need(len(args) == 2, "get_core_sub_state_for_command: %d arguments" % len(args))
    pl = fn.place(args[0], env)
    need(pl is not None and fn.get(env, pl)[0] == T_STATE and isinstance(fn.get(env, pl)[1], dict),
         "get_core_sub_state_for_command: the first argument is not the state of the invocation context")
    key = fn.literal(args[1], env, "get_core_sub_state_for_command")
    need(key == SUB_STATE, "the sub-state %r is not the one the model keeps (%r)" % (key, SUB_STATE))
    env2 = dict(env)
    env2[name] = (("alias", pl + "." + SUB_STATE), None)
    return env2


def frame_check(state_src):
    """get_core_sub_state_for_command(state, name) is the sub-map "duckscriptsdk::command::<name>" of state"""
    params, _b = rs2v.parse_fn_state(state_src, "get_core_sub_state_for_command")
    need([p for p, _m in params] == ["state", "name"], "get_core_sub_state_for_command: parameters %r" % (params,))
    m = re.search(r"fn\s+get_core_sub_state_for_command\s*\(", state_src)
    body = rs2v.balanced_block(state_src, state_src.index("{", state_src.index("->", m.end())))
    body = re.sub(r"//[^\n]*", "", body)
    need(re.fullmatch(r'\s*let\s+(\w+)\s*=\s*pckg::concat\(\s*"duckscriptsdk::command"\s*,\s*&name\s*\)\s*;\s*'
                      r'get_sub_state\(\s*\1\s*,\s*state\s*\)\s*', body) is not None,
         "get_core_sub_state_for_command is not `get_sub_state(pckg::concat(\"duckscriptsdk::command\", &name), state)`")


# ---- results -----------------------------------------------------------------------------------------------------
def strip_clone(e):
    while e[0] == "mcall" and e[2] in ("clone", "to_owned") and not e[3]:
        e = e[1]
    return e


def run_result(fn, e, env, ctx):
    e = strip_clone(e)
    need(e[0] == "call" and e[1][0] == "path" and len(e[1][1]) == 2 and e[1][1][0] == "CommandResult" and len(e[2]) == 1,
         "result value %r" % (e,))
    kind, a = e[1][1][1], e[2][0]
    if kind in ("Continue", "Exit"):
        need(a == ("path", ["None"]) or fn.type_of(a, env) == T_OSTR, "CommandResult::%s of a %s" % (kind, fn.type_of(a, env)))
        res = "(%s %s)" % (kind, fn.ex(a, env))
    elif kind == "Error":
        need(fn.type_of(a, env) == Ty.STR, "CommandResult::Error of a %s" % (fn.type_of(a, env),))
        res = "(Error %s)" % fn.ex(a, env)
    elif kind == "Crash":
        need(fn.type_of(a, env) == Ty.STR, "CommandResult::Crash of a %s" % (fn.type_of(a, env),))
        res = "(Crash (Msg %s))" % fn.ex(a, env)
    else:
        raise Rs2vError("CommandResult::%s" % kind)
    t, st = fn.get(env, REC)
    need(isinstance(st, dict), "the command state is not available")
    world = "w" if st == initial_state() else "(set_cst w %s)" % fn.struct_term(t, st)
    return "(Some (%s, %s))" % (res, world)


def h_is_true(fn, args, env):
    need(len(args) == 1, "is_true: %d arguments" % len(args))
    a = args[0]
    need(a == ("path", ["None"]) or fn.type_of(a, env) == T_OSTR, "is_true of a %s" % (fn.type_of(a, env),))
    return (Ty.BOOL, "(is_true %s)" % fn.ex(a, env))


# ---- per file ----------------------------------------------------------------------------------------------------
def imported(src, mod_path):
    """names a file imports from `mod_path` (use a::b::{x, y}; / use a::b::x;)"""
    out = set()
    for m in re.finditer(r"^\s*use\s+%s::(\{[^}]*\}|\w+)\s*;" % re.escape(mod_path), src, re.M):
        g = m.group(1)
        out.update(x.strip() for x in (g[1:-1].split(",") if g.startswith("{") else [g]) if x.strip())
    return out


def statics_for(src, mod_src):
    """the string statics in scope of a command file: its own, and the ones it imports from the family's mod.rs"""
    own = {k: v for k, v in rs2v.read_statics(src).items() if v[0] == Ty.STR}
    names = imported(src, "crate::sdk::std::on_error") | imported(src, "super")
    for k, v in rs2v.read_statics(mod_src).items():
        if k in names and v[0] == Ty.STR:
            need(k not in own or own[k] == v, "static %s is defined twice with different values" % k)
            own[k] = v
    return own, names


def get_value_cfg(mod_src):
    params, body = rs2v.parse_fn_state(mod_src, "get_value")
    need([p for p, _m in params] == ["state", "key"], "get_value: parameters %r" % (params,))
    need(re.search(r"fn\s+get_value\s*\(\s*state\s*:\s*&mut\s+HashMap<String,\s*StateValue>\s*,\s*key\s*:\s*String\s*,?\s*\)"
                   r"\s*->\s*Option<String>", mod_src) is not None, "get_value: signature")
    return {"params": params, "body": body, "ret": T_OSTR}


def translate_run(src, mod_src, coq_name, gv):
    receiver, params, body = rs2v.parse_trait_method(src, "Command", "CommandImpl", "run")
    need(receiver == "ref" and [p for p, _m in params] == ["context"], "run: receiver %s, parameters %r" % (receiver, params))
    statics, names = statics_for(src, mod_src)
    mod_statics = {k: v for k, v in rs2v.read_statics(mod_src).items() if v[0] == Ty.STR}
    for k, v in mod_statics.items():        # get_value is executed with the statics of mod.rs in scope
        need(k not in statics or statics[k] == v, "static %s differs between the command file and mod.rs" % k)
    inline = {}
    if "get_value" in names:
        need(gv is not None, "its callee on_error::get_value is not understood")
        inline["get_value"] = gv
        statics = dict(mod_statics, **statics)
    cfg = {
        "coq_name": coq_name, "fn_params": BINDERS, "fn_args": "ustate a w", "result_type": RTYPE,
        "locals": {}, "maps": {}, "sets": {}, "coq_types": {},
        "self": (T_struct("CommandImpl"), {"package": (T_OPAQUE, POISON)}),
        "params": {"context": (T_struct("CommandInvocationContext"), {
            "arguments": (T_LSTR, "(a_args a)"), "line": (Ty.NAT, "(a_line a)"),
            "state": (T_STATE, {SUB_STATE: (T_ESTATE, initial_state())}),
            "variables": (T_OPAQUE, POISON), "output_variable": (T_OPAQUE, POISON), "instructions": (T_OPAQUE, POISON),
            "commands": (T_OPAQUE, POISON), "env": (T_OPAQUE, POISON)})},
        "structs": {"ErrState": {"fields": [("e_error", T_OSTR), ("e_line", T_OSTR), ("e_source", T_OSTR),
                                            ("e_exit", T_OBOOL), ("e_user", T_OPAQUE)],
                                 "mk": "(EState %s %s %s %s %s)"}},
        "records": {"ErrState": {"enum": "StateValue", "kinds": KINDS, "keys": KEYS}},
        "statics": statics, "inline": inline,
        "calls": {"get_core_sub_state_for_command": {"bind": c_sub_state}},
        "ctor_types": {"condition::is_true": Ty.BOOL},
        "ctor_handlers": {"condition::is_true": h_is_true},
        "num_to_string": {Ty.NAT: "(nat_str %s)"}, "bool_to_string": "(bool_str %s)",
        "res": {"panic": "None"}, "step": {},
        "result": run_result,
    }
    if "is_true" in imported(src, "crate::utils::condition"):
        cfg["ctor_types"]["is_true"] = Ty.BOOL
        cfg["ctor_handlers"]["is_true"] = h_is_true
    fn = rs2v.FnRec(cfg)
    term = fn.function(params, body)
    need(not fn.loops, "run: a loop")
    return "Definition %s %s : %s :=\n%s.\n" % (coq_name, BINDERS, RTYPE, term)


def translate_aliases(src, coq_name):
    _recv, params, body = rs2v.parse_trait_method(src, "Command", "CommandImpl", "aliases")
    need(not params and not body[1] and body[2] is not None and body[2][0] == "macro" and body[2][1] == "vec",
         "aliases: not a single vec![..]")
    out = []
    for a in body[2][2]:
        while a[0] == "mcall" and a[2] in ("to_string", "to_owned") and not a[3]:
            a = a[1]
        need(a[0] == "str", "aliases: an element is not a string literal")
        out.append(rs2v.coq_str_lit(a[1]))
    return "Definition %s : list str := [%s].\n" % (coq_name, "; ".join(out))


def clean(e):
    return ((type(e).__name__ + ": ") if not isinstance(e, Rs2vError) else "") + str(e).replace("*)", "* )").replace("(*", "( *")


def generate(api):
    text = HEAD
    mod_src, gv, gv_why = "", None, ""
    try:
        mod_src = api.read(REL_MOD)
        frame_check(api.read(REL_STATE))
        gv = get_value_cfg(mod_src)
    except Exception as e:  # noqa: BLE001  anything unexpected means: not understood (never a crash, never a guess)
        gv_why = clean(e)
    first = True
    for rel, coq_name, alias_name, short in FUNCTIONS:
        flag = "%s_understood" % coq_name
        try:
            src = api.read(rel)
            if gv is None and "get_value" in (imported(src, "crate::sdk::std::on_error") | imported(src, "super")):
                raise Rs2vError("its callee on_error::get_value / the state frame is not understood (%s)" % gv_why)
            body = translate_aliases(src, alias_name) + translate_run(src, mod_src, coq_name, gv)
            text += "Definition %s : bool := true.\n%s" % (flag, body)
        except Exception as e:  # noqa: BLE001
            tag = "(* NOT UNDERSTOOD: %s: %s *)" % (short, clean(e)) if first else "(* NOT UNDERSTOOD %s: %s *)" % (short, clean(e))
            text += "%s\nDefinition %s : bool := false.\nDefinition %s : list str := [].\nDefinition %s %s : %s := None.\n" % (
                tag, flag, alias_name, coq_name, BINDERS, RTYPE)
        first = False
    api.emit("GenOnErrorFn.v", text, "duckscript_sdk/src/sdk/std/on_error/*/mod.rs, on_error/mod.rs (fn get_value, inlined) and "
             "sdk/std/test/assert_error/mod.rs (impl Command for CommandImpl: fn run, fn aliases) by lib/rs2v.py")
