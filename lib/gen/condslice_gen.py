"""condslice_gen — TRANSLATE `eval_condition_for_slice` and `eval_condition` of
/repo/duckscript_sdk/src/utils/condition.rs into Gallina on every run (lib/rs2v.py, classes PIdx / FnIdx)
-> coq/generated/GenCondSliceFn.v:

  gen_eval_slice_body   one iteration of `for argument in arguments { .. index = index + 1; }` as a step function over
                        the state record of the hand model CondIx.v (searching_block_end, start_block, counter, index,
                        total_evaluated, partial_evaluated, found_token), result type CondIx.bstep
  gen_eval_slice_go     the function body with the recursive call `eval_condition_for_slice(&arguments[a..b])` OPEN
                        (a parameter `ev`)
  gen_eval_slice        the recursion closed by explicit fuel, exactly as CondIx.eval_ix does
  gen_eval_condition    the dispatch in front of it (empty / first word is a command / slice evaluator)

theories/CondSliceGenTie.v proves them EQUAL, for all inputs, to CondIx.body (+ the `index + 1` bump) / CondIx.loop /
CondIx.eval_ix / CondIx.eval_condition_with; props/SrcCondSlice.v holds the wrappers.  Tie key "condslice" (C06).

WHAT COMES FROM THE SOURCE: every test, every assignment, their order, the literals "(" ")" "and" "or", the constants
0 / 1 / true / false, which variable is compared / stored where, the `match found_token` arms, the early returns, the
bounds of the sub-slice, the error TEXTS (mapped to codes by the table below; an unknown text is refused), the list of
FoundToken variants, the order of the dispatch tests and the arguments of the callees.
WHAT COMES FROM THIS CONFIGURATION (no Rust counterpart, or an abstraction of the hand model):
  * the Coq types: `arguments : list str`; the loop state packed into CondIx.ist (constructor mki, field order);
    step type CondIx.bstep (BNext / BRet), result type CondIx.ires; FoundToken::X spelled FX (Cond.ftok);
  * `counter` is an i32 (Rust's default for an unconstrained integer literal; a type annotation other than i32 is
    refused) whose `+` / `-` go through CondIx.i32_result under the profile flag `checked`
    (false: wrapping release build, true: overflow-checks panic); `start_block`, `index` are usize on nat
    (bounded by the slice length, cannot overflow);
  * `&v[a..b]` is CondIx.slice (None unless a <= b <= len -> IPanic); `v[0]` is nth_error (None -> IPanic);
  * the recursive call is the parameter `ev`; `gen_eval_slice` closes it with fuel (IFuel when exhausted), the
    model-only outcomes IFuel / IPanic of a recursive call are returned as they are;
  * `is_true(x)` is the hand model Cond.is_true (tied to the source separately: cond_gen.py / CondGenTie.v);
  * error texts -> codes: Missing ')' 1, Unexpected value: {} 2, Unexpected ')' 3, Unexpected 'and' 4,
    Unexpected 'or' 5, Invalid condition evaluation result. 7; the error string of a failed command -> 6;
  * eval_condition: `commands.exists(x)` is the parameter `exists_cmd x`, `eval::eval_with_instructions(&arguments,
    instructions, state, variables, commands, env)` is the parameter `run_stmt arguments` with result type
    CondIx.stmt_res (SContinue v / SError / SOther = every other CommandResult variant / SPanic); the call of
    eval_condition_for_slice is the HAND model CondIx.eval_ix (tied above), so the two ties are independent.

Each of the two functions has its own flag (`gen_eval_slice_understood`, `gen_eval_condition_understood`); a function
the translator does not understand gets `false` and a type-correct stub; the tie theorems (stated under `.. = true`)
stay provable and lib/vlib.py reports that tie as inactive."""
import os
import sys

sys.path.insert(0, os.path.dirname(os.path.dirname(os.path.abspath(__file__))))
import rs2v  # noqa: E402
from rs2v import Ty, Rs2vError, T_opt, T_list, POISON  # noqa: E402

REL = "duckscript_sdk/src/utils/condition.rs"
HEAD = "Require Import DS.Cond DS.CondIx DS.Rs2vCondLib.\nLocal Open Scope bool_scope.\n"

T_OBOOL = T_opt(Ty.BOOL)
T_OSTR = T_opt(Ty.STR)
T_LSTR = T_list(Ty.STR)
FTOK = {"None": "FNone", "And": "FAnd", "Or": "FOr", "Value": "FValue"}
ERR_TEXTS = {"Missing ')'": "1%N", "Unexpected value: {}": "2%N", "Unexpected ')'": "3%N", "Unexpected 'and'": "4%N",
             "Unexpected 'or'": "5%N", "Invalid condition evaluation result.": "7%N"}
CMD_ERROR = "6%N"
SPELL = {"is_none": "(o_is_none %s)", "is_some": "(o_is_some %s)", "is_empty": "(l_is_empty %s)",
         "unwrap_or": "(unwrap_or %s %s)", "slice": "slice %s %s %s"}
STATE = ["searching_block_end", "start_block", "counter", "index", "total_evaluated", "partial_evaluated", "found_token"]
LOCALS = {"searching_block_end": Ty.BOOL, "start_block": Ty.NAT, "counter": Ty.INT_Z, "index": Ty.NAT,
          "total_evaluated": T_OBOOL, "partial_evaluated": T_OBOOL, "found_token": "FoundToken"}
ANNOT = {"searching_block_end": ["bool"], "start_block": ["usize"], "counter": ["i32"], "index": ["usize"],
         "total_evaluated": ["Option<bool>"], "partial_evaluated": ["Option<bool>"], "found_token": ["FoundToken"],
         "total_bool": ["bool"], "evaluated": ["bool"], "eval_statement": ["bool"], "passed": ["bool"]}
CIRES = [{"coq": "IOk", "rust": "Ok", "binds": [Ty.BOOL]},
         {"coq": "IErr", "rust": "Err", "binds": ["error"]},
         {"coq": "IFuel", "kind": "ret", "term": "IFuel"},
         {"coq": "IPanic", "kind": "panic"}]
STMT_RES = [{"coq": "SContinue", "rust": "CommandResult::Continue", "binds": [T_OSTR]},
            {"coq": "SError", "rust": "CommandResult::Error", "binds": [("fixed", "error", CMD_ERROR)]},
            {"coq": "SOther", "kind": "rest"},
            {"coq": "SPanic", "kind": "panic"}]

BODY_SIG = "(checked : bool) (ev : list str -> ires) (arguments : list str)"
STUB_SLICE = ("Definition gen_eval_slice_body %s (st : ist) (argument : str) : bstep := BRet IPanic.\n"
              "Definition gen_eval_slice_go %s : ires := IPanic.\n" % (BODY_SIG, BODY_SIG))
# the recursion of eval_condition_for_slice on a sub-slice, closed by fuel as in CondIx.eval_ix (configuration)
FIX_SLICE = ("Fixpoint gen_eval_slice (checked : bool) (fuel : nat) (arguments : list str) {struct fuel} : ires :=\n"
             "  match fuel with\n  | O => IFuel\n  | S fuel' => gen_eval_slice_go checked (gen_eval_slice checked fuel') arguments\n  end.\n")
COND_SIG = ("gen_eval_condition (checked : bool) (fuel : nat) (exists_cmd : str -> bool) "
            "(run_stmt : list str -> stmt_res) (arguments : list str) : ires")
STUB_COND = "Definition %s := IPanic.\n" % COND_SIG


def need(cond, what):
    if not cond:
        raise Rs2vError(what)


def strip_ref(e):
    while e[0] in ("ref", "refmut"):
        e = e[1]
    return e


def h_is_true(fn, args, env):
    need(len(args) == 1, "is_true arguments")
    t = fn.type_of(args[0], env)
    need(t is None or t == T_OSTR, "is_true on %s" % (t,))
    return "(is_true %s)" % fn.ex(args[0], env)


def list_arg(fn, args, env, what):
    need(len(args) == 1, "%s arguments" % what)
    need(fn.type_of(args[0], env) == T_LSTR, "%s on %s" % (what, fn.type_of(args[0], env)))
    return fn.ex(args[0], env)


def base_cfg(coq_name, variants):
    return {
        "coq_name": coq_name, "locals": dict(LOCALS), "annot": ANNOT, "statics": {}, "structs": {},
        "enums": {"FoundToken": {v: FTOK[v] for v in variants}},
        "int_overflow": {Ty.INT_Z: "(i32_result checked %s)"}, "spell": SPELL, "err_texts": ERR_TEXTS,
        "pure_helpers": {"is_true": {"term": h_is_true, "ret": Ty.BOOL}},
        "res_shapes": {"cires": CIRES, "stmt_res": STMT_RES},
        "res": {"ok": "IOk %s", "err": "IErr %s", "panic": "IPanic",
                "consume": "match %(drive)s with\n| BNext %(pat)s =>\n%(after)s\n| BRet r => r\nend"},
        "step": {"type": "bstep", "cont": "BNext %s", "brk": None, "fail": "BRet (IErr %s)", "ret": "BRet (%s)",
                 "panic": "BRet IPanic"},
    }


def translate_slice(src, variants):
    rust = "eval_condition_for_slice"
    params, body = rs2v.parse_fn_idx(src, rust)
    need([p for p, _m in params] == ["arguments"], "%s: parameters %s" % (rust, [p for p, _m in params]))
    cfg = base_cfg("gen_eval_slice", variants)
    cfg["params"] = {"arguments": (T_LSTR, "arguments")}
    cfg["calls"] = {rust: {"call": lambda fn, args, env: "(ev %s)" % list_arg(fn, args, env, rust), "res": "cires"}}
    cfg["loop"] = {"kind": "list", "state": STATE, "state_type": "ist", "pack": "(mki %s %s %s %s %s %s %s)",
                   "driver": "for_each_b", "item_coq": "str", "body_params": [], "body_param_types": {}}
    cfg["fn_params"], cfg["fn_args"] = BODY_SIG, "checked ev arguments"
    fn = rs2v.FnIdx(cfg)
    term = fn.function(params, body)
    need(len(fn.loops) == 1, "%s: expected exactly one loop, found %d" % (rust, len(fn.loops)))
    need(POISON not in term, "%s: a value that is not available is used" % rust)
    return "".join(t for _n, t in fn.loops) + "Definition gen_eval_slice_go %s : ires :=\n%s.\n" % (BODY_SIG, term)


WORLD = ["instructions", "state", "variables", "commands", "env"]


def translate_condition(src, variants):
    rust = "eval_condition"
    params, body = rs2v.parse_fn_idx(src, rust)
    need([p for p, _m in params] == ["arguments"] + WORLD, "%s: parameters %s" % (rust, [p for p, _m in params]))

    def world(fn, e, env, name):
        e = strip_ref(e)
        need(e == ("path", [name]) and name not in env, "the argument %r is not the parameter %s" % (e, name))

    def m_exists(fn, recv, args, env):
        world(fn, recv, env, "commands")
        need(len(args) == 1 and fn.type_of(args[0], env) == Ty.STR, "commands.exists arguments")
        return "(exists_cmd %s)" % fn.ex(args[0], env)

    def h_run(fn, args, env):
        need(len(args) == 1 + len(WORLD), "eval_with_instructions arguments")
        a0 = strip_ref(args[0])
        need(a0 == ("path", ["arguments"]) and fn.type_of(a0, env) == T_LSTR and fn.ex(a0, env) == "arguments",
             "eval_with_instructions: the first argument is not `arguments`")
        for a, name in zip(args[1:], WORLD):
            world(fn, a, env, name)
        return "(run_stmt arguments)"

    cfg = base_cfg("gen_eval_condition", variants)
    cfg["params"] = {"arguments": (T_LSTR, "arguments")}
    cfg["methods"] = {"exists": m_exists}
    cfg["method_types"] = {"exists": Ty.BOOL}
    cfg["calls"] = {
        "eval::eval_with_instructions": {"call": h_run, "res": "stmt_res"},
        "eval_condition_for_slice": {
            "call": lambda fn, args, env: "(eval_ix is_true_some checked fuel %s)" % list_arg(fn, args, env, "eval_condition_for_slice"),
            "res": "cires", "tail": True},
    }
    fn = rs2v.FnIdx(cfg)
    term = fn.function(params, body)
    need(not fn.loops, "%s: unexpected loop" % rust)
    need(POISON not in term, "%s: a value that is not available is used" % rust)
    return "Definition %s :=\n%s.\n" % (COND_SIG, term)


def why(e):
    return (type(e).__name__ + ": " if not isinstance(e, Rs2vError) else "") + str(e).replace("*)", "* )").replace("(*", "( *")


def generate(api, force_stub=False):
    """force_stub (lib/gen_from_source.py): the translation written a moment ago did not type-check -> both functions get
    their stub with that reason ('not understood', never a broken build)"""
    text = HEAD
    src, variants, common = "", [], None
    try:
        src = api.read(REL)
        variants = rs2v.read_enum(src, "FoundToken")
        need(sorted(variants) == sorted(FTOK), "enum FoundToken has the variants %s" % variants)
        need(not force_stub, "translation rejected: %s" % force_stub)
    except Exception as e:  # noqa: BLE001
        common = why(e)
    try:
        if common:
            raise Rs2vError(common)
        text += "Definition gen_eval_slice_understood : bool := true.\n" + translate_slice(src, variants)
    except Exception as e:  # noqa: BLE001  anything unexpected means: not understood (never a crash, never a guess)
        text += "(* NOT UNDERSTOOD: %s *)\nDefinition gen_eval_slice_understood : bool := false.\n%s" % (why(e), STUB_SLICE)
    text += FIX_SLICE
    try:
        if common:
            raise Rs2vError(common)
        text += "Definition gen_eval_condition_understood : bool := true.\n" + translate_condition(src, variants)
    except Exception as e:  # noqa: BLE001
        text += "(* NOT UNDERSTOOD eval_condition: %s *)\nDefinition gen_eval_condition_understood : bool := false.\n%s" % (
            why(e), STUB_COND)
    api.emit("GenCondSliceFn.v", text, REL + " (fn eval_condition_for_slice, fn eval_condition) by lib/rs2v.py")
