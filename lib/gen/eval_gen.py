"""eval_gen — TRANSLATE duckscript_sdk/src/utils/eval.rs into Gallina on every run (lib/rs2v.py, class FnE)
-> coq/generated/GenEvalFn.v:

  fn parse             gen_eval_line_body   the body of `for argument in arguments` (quoting rules of one argument)
                       gen_eval_line        the text handed to the parser: the fold of the loop and the three `replace`s
                       gen_eval_parse       the whole function: parse_text on that text, `instructions[0]`, error arm
  fn eval_instructions gen_eval_instructions_step   ONE iteration of its `loop`: bounds test, fetch, match on the
                                            instruction type, run_instruction, the five result arms
                       gen_eval_instructions        the function: the three locals, the loop driven by Rs2vLib2.loop_fuel,
                                            the result pair

theories/EvalGenTie.v proves them EQUAL, for all inputs, to the hand models the property theorems are about:
EvalSer.serialise_arg / line_buffer / serialise, EvalSerIx.eval_parse_ix (and through C09's refinement theorem
EvalSer.eval_parse), SdkErr.eval_instructions (C10, C19).  props/SrcEval.v re-states them; tie key "eval".

Three flags (gen_eval_line_understood, gen_eval_parse_understood, gen_eval_instructions_understood): what the translator
does not understand any more gets `false` and a stub of the same type, its theorems hold vacuously and lib/vlib.py
reports exactly that tie as inactive.

FROM THE SOURCE: every test, assignment, push, replace, index, match arm, break and the order of all of them.
FROM THIS CONFIGURATION (no Rust counterpart, or a callee that is modelled elsewhere):
  * parser::parse_text(t)         -> ParserIx.parse_text t (the index-faithful parser model; parse_text itself is
                                     `parse_lines(&text, InstructionMetaInfo::new())`, checked textually below, and
                                     parse_lines is tied by lib/gen/parser_gen.py);
  * Ok(instruction) of fn parse   -> ParsedOk (i_type instruction): the model's [parsed] keeps the instruction type;
                                     `error.to_string()` keeps the error KIND (messages are never compared);
  * the four `&mut` parameters commands / state / variables / env of eval_instructions are ONE value [w] of
    Runner.world; `variables` is its [vars] component (insert / remove -> Rs2vEvalRunLib.vars_insert / vars_remove);
  * runner::run_instruction(..)   -> Runner.run_instruction cstate exists_cmd cmd w instruction line (the command table is
                                     the Section-style parameters cstate / exists_cmd / cmd of the runner model); its result
                                     is [ri_res], the world afterwards [ri_w];
  * the GHOST list of command invocations [calls] (C10 / C13 / C19 traces): `calls ++ ri_calls o` at every run_instruction;
  * fuel for the `loop`.
The positional meaning of run_instruction's parameters and the variants of CommandResult / GoToValue / InstructionType
are re-read from duckscript/src/runner.rs, types/command.rs and types/instruction.rs and compared with this file."""
import os
import re
import sys

sys.path.insert(0, os.path.dirname(os.path.dirname(os.path.abspath(__file__))))
import rs2v  # noqa: E402
from rs2v import Ty, Rs2vError, T_opt, T_list, T_struct, POISON  # noqa: E402

REL = "duckscript_sdk/src/utils/eval.rs"
T_OSTR = T_opt(Ty.STR)
T_LSTR = T_list(Ty.STR)
T_PINSTR = T_struct("ParsedInstruction")     # an element of what parse_text returns (Parser.instr)
T_INSTR = T_struct("Instruction")            # Runner.instr
T_SI = T_struct("ScriptInstruction")         # Runner.sinstr
T_RES, T_GOTO, T_ITYPE, T_EMSG = "result", "goto", "ritype", "emsg"


def need(cond, what):
    if not cond:
        raise Rs2vError(what)


def strip_ref(e):
    while e[0] in ("ref", "refmut") or (e[0] == "mcall" and e[2] == "clone" and not e[3]):
        e = e[1]
    return e


# ---- fn parse -------------------------------------------------------------------------------------------------
LINE_SIG = "gen_eval_line (arguments : list str) : str"
PARSE_SIG = "gen_eval_parse (arguments : list str) : parsed"
STUB_LINE = ("Definition gen_eval_line_body (st : str) (argument : str) : str := [].\n"
             "Definition gen_eval_line (arguments : list str) : str := [].\n")
STUB_PARSE = "Definition gen_eval_parse (arguments : list str) : parsed := ParsePanic.\n"


def h_parse_text(fn, args, env):
    need(len(args) == 1 and fn.type_of(args[0], env) == Ty.STR, "parse_text arguments")
    return "(ParserIx.parse_text %s)" % fn.ex(args[0], env)


def parse_cfg(stop):
    return {
        "coq_name": "gen_eval_line", "statics": {}, "structs": {}, "locals": {"line_buffer": Ty.STR},
        "params": {"arguments": (T_LSTR, "arguments")},
        "helpers": {"parser::parse_text": {"call": h_parse_text, "res": "eval_itres", "ret": T_list(T_PINSTR)}},
        "ctor_types": {}, "ctor_handlers": {}, "struct_handlers": {}, "err_kinds": (), "is_meta": lambda fn, e, env: False,
        "loop": {"e": True, "name": "gen_eval_line_body", "pure": True, "state": ["line_buffer"], "state_type": "str",
                 "item": (Ty.STR, "str")},
        "fn_params": "", "fn_args": "",
        "step": {"type": "str", "cont": "%s", "brk": None, "fail": None, "panic": None},
        "res": {"ok": "ParsedOk (Parser.i_type %s)", "err": "ParseErr %s", "panic": "ParsePanic", "consume": None},
        "named_lets": {"line_str": {"def": "gen_eval_line", "binders": "(arguments : list str)", "args": "arguments",
                                    "type": "str", "stop": stop}},
    }


def translate_parse(src, stop):
    """-> (text of gen_eval_line_body + gen_eval_line, text of gen_eval_parse | None when stop)"""
    params, body = rs2v.parse_fn2(src, "parse")
    need([p for p, _m in params] == ["arguments"], "fn parse: parameters %s" % [p for p, _m in params])
    fn = rs2v.FnE(parse_cfg(stop))
    term = None
    try:
        term = fn.function(params, body)
    except rs2v.StopAfterLet:
        pass
    need(len(fn.loops) == 1 and fn.loops[0][0] == "gen_eval_line_body", "fn parse: expected exactly one loop")
    need(len(fn.aux) == 1 and fn.aux[0][0] == "gen_eval_line", "fn parse: `let line_str = ..` not found")
    line_text = fn.loops[0][1] + fn.aux[0][1]
    need(POISON not in line_text, "fn parse: a value that is not available is used")
    if term is None:
        return line_text, None
    need(POISON not in term, "fn parse: a value that is not available is used")
    return line_text, "Definition %s :=\n%s.\n" % (PARSE_SIG, term)


# ---- fn eval_instructions --------------------------------------------------------------------------------------
ST_TYPE = "(nat * option str * option Runner.result * Runner.world cstate * list Runner.call)"
TABLE = ("(cstate : Type) (exists_cmd : cstate -> str -> bool) "
         "(cmd : str -> Runner.inv -> Runner.world cstate -> Runner.result * Runner.world cstate)")
STEP_SIG = "gen_eval_instructions_step %s (instructions : list Runner.instr) (st : %s) : step %s" % (TABLE, ST_TYPE, ST_TYPE)
RES_TYPE = "ires (option Runner.result * option str * Runner.world cstate * list Runner.call)"
EI_SIG = ("gen_eval_instructions %s (fuel : nat) (instructions : list Runner.instr) (start_line : nat) "
          "(w : Runner.world cstate) (calls : list Runner.call) : %s" % (TABLE, RES_TYPE))
STUB_EI = "Definition %s := SPanic.\nDefinition %s := IPanic.\n" % (STEP_SIG, EI_SIG)

ENUMS = {
    "InstructionType": {"type": T_ITYPE, "ctors": {"Empty": ("Runner.IEmpty", []), "PreProcess": ("Runner.IPre", [None]),
                                                   "Script": ("Runner.IScript", [T_SI])}},
    "CommandResult": {"type": T_RES, "ctors": {"Continue": ("Runner.Continue", [T_OSTR]), "GoTo": ("Runner.GoTo", [T_OSTR, T_GOTO]),
                                               "Error": ("Runner.Error", [Ty.STR]), "Crash": ("Runner.Crash", [T_EMSG]),
                                               "Exit": ("Runner.Exit", [T_OSTR])}},
    "GoToValue": {"type": T_GOTO, "ctors": {"Label": ("Runner.GLabel", [Ty.STR]), "Line": ("Runner.GLine", [Ty.NAT])}},
}
WORLD_PARTS = ("commands", "variables", "state", "env")
RUN_INSTRUCTION_PARAMS = ["commands", "variables", "state", "instructions", "instruction", "line", "env"]


def ctor(name, coq, argts, rt):
    def h(fn, args, env):
        need(len(args) == len(argts), "%s with %d arguments" % (name, len(args)))
        terms = []
        for a, t in zip(args, argts):
            at = fn.type_of(a, env)
            need(at == t or (at is None and isinstance(t, tuple) and t[0] == "option"), "%s: argument of type %s" % (name, at))
            terms.append(fn.ex(a, env))
        return (rt, "(" + " ".join([coq] + terms) + ")")
    return h


def enum_ctors():
    types, handlers = {}, {}
    for en in ("CommandResult", "GoToValue"):
        for v, (coq, argts) in ENUMS[en]["ctors"].items():
            types["%s::%s" % (en, v)] = ENUMS[en]["type"]
            handlers["%s::%s" % (en, v)] = ctor("%s::%s" % (en, v), coq, argts, ENUMS[en]["type"])
    return types, handlers


def h_run_instruction(fn, names, args, env, cont, ctx):
    need(len(names) == 2 and len(args) == 7, "run_instruction: %d results, %d arguments" % (len(names), len(args)))
    for i in (0, 1, 2, 6):
        need(strip_ref(args[i]) == ("path", [RUN_INSTRUCTION_PARAMS[i]]) and env.get(RUN_INSTRUCTION_PARAMS[i], (None,))[0] == "worldpart",
             "run_instruction: argument %d is not the function's own `%s`" % (i, RUN_INSTRUCTION_PARAMS[i]))
    need(strip_ref(args[3]) == ("path", ["instructions"]) and env.get("instructions") == (T_list(T_INSTR), "instructions"),
         "run_instruction: the instruction list is not the function's own `instructions`")

    def k(a2, env2):
        it, iterm = fn.value(a2[0], env2)
        need(it == T_INSTR and isinstance(iterm, str), "run_instruction: the instruction argument has type %s" % (it,))
        need(a2[1][0] == "num" or fn.type_of(a2[1], env2) == Ty.NAT, "run_instruction: the line argument")
        line = fn.num(a2[1], Ty.NAT, env2)
        o = fn.newvar("o")
        wt, w = env2["%world"]
        ct, calls = env2["%calls"]
        env3 = dict(env2)
        env3["%world"] = (wt, "(Runner.ri_w %s)" % o)
        env3["%calls"] = (ct, "(%s ++ Runner.ri_calls %s)" % (fn.plain(calls, "calls"), o))
        if names[0] != "_":
            env3[names[0]] = (T_RES, "(Runner.ri_res %s)" % o)
        if names[1] != "_":
            env3[names[1]] = (T_OSTR, "(Runner.ri_ov %s)" % o)
        return "let %s := Runner.run_instruction cstate exists_cmd cmd %s %s %s in\n%s" % (
            o, fn.plain(w, "the state"), fn.plain(iterm, "instruction"), line, cont(env3))
    return fn.hoist([args[4], args[5]], env, ctx, k, hint="x")


def m_insert(fn, args, env):
    need(len(args) == 2 and fn.type_of(args[0], env) == Ty.STR and fn.type_of(args[1], env) == Ty.STR, "variables.insert arguments")
    wt, w = env["%world"]
    env2 = dict(env)
    env2["%world"] = (wt, "(vars_insert %s %s %s)" % (fn.ex(args[0], env), fn.ex(args[1], env), fn.plain(w, "the state")))
    return env2


def m_remove(fn, args, env):
    need(len(args) == 1 and fn.type_of(args[0], env) == Ty.STR, "variables.remove arguments")
    wt, w = env["%world"]
    env2 = dict(env)
    env2["%world"] = (wt, "(vars_remove %s %s)" % (fn.ex(args[0], env), fn.plain(w, "the state")))
    return env2


def ei_result(fn, e, env, ctx):
    if e[0] != "tuple" or len(e[1]) != 2 or ctx.get("loop"):
        return None
    need(fn.type_of(e[1][0], env) == T_opt(T_RES) and fn.type_of(e[1][1], env) == T_OSTR, "the result pair has another type")
    return "IOk (%s, %s, %s, %s)" % (fn.ex(e[1][0], env), fn.ex(e[1][1], env), fn.plain(env["%world"][1], "the state"),
                                     fn.plain(env["%calls"][1], "calls"))


def ei_cfg():
    ctor_types, ctor_handlers = enum_ctors()
    structs = {
        "Instruction": {"fields": [("meta_info", "rmeta"), ("instruction_type", T_ITYPE)],
                        "proj": {"meta_info": "(Runner.i_meta %s)", "instruction_type": "(Runner.i_type %s)"}},
        "ScriptInstruction": {"fields": [("label", T_OSTR), ("output", T_OSTR), ("command", T_OSTR)],
                              "proj": {"label": "(Runner.s_label %s)", "output": "(Runner.s_out %s)", "command": "(Runner.s_cmd %s)"}},
    }
    params = {"instructions": (T_list(T_INSTR), "instructions"), "start_line": (Ty.NAT, "start_line")}
    for p in WORLD_PARTS:
        params[p] = ("worldpart", POISON)
    return {
        "coq_name": "gen_eval_instructions", "statics": {}, "structs": structs,
        "locals": {"line": Ty.NAT, "flow_output": T_OSTR, "flow_result": T_opt(T_RES)},
        "params": params, "extra_env": {"%world": ("world", "w"), "%calls": ("calls", "calls")},
        "helpers": {}, "ctor_types": ctor_types, "ctor_handlers": ctor_handlers, "struct_handlers": {}, "err_kinds": (),
        "is_meta": lambda fn, e, env: False, "enums": ENUMS,
        "loop": {"e": True, "name": "gen_eval_instructions_step", "state": ["line", "flow_output", "flow_result", "%world", "%calls"],
                 "state_type": ST_TYPE, "fuel": "fuel"},
        "fn_params": TABLE + " (instructions : list Runner.instr)", "fn_args": "cstate exists_cmd cmd instructions",
        "step": {"type": "step %s" % ST_TYPE, "cont": "SContinue %s", "brk": "SBreak %s", "fail": None, "panic": "SPanic"},
        "res": {"ok": None, "err": None, "panic": "IPanic",
                "consume": "match %(drive)s with\n| IOk %(pat)s =>\n%(after)s\n| IErr e => IErr e\n| IPanic => IPanic\nend"},
        "effect_calls": {"runner::run_instruction": h_run_instruction},
        "method_effects": {("variables", "insert"): m_insert, ("variables", "remove"): m_remove},
        "result_handler": ei_result,
    }


def enum_variants(src, name, rel):
    m = re.search(r"pub\s+enum\s+%s\s*\{(.*?)\n\}" % re.escape(name), src, re.S)
    need(m, "%s: enum %s not found" % (rel, name))
    body = re.sub(r"//[^\n]*", "", m.group(1))
    return re.findall(r"^\s*([A-Z]\w*)\s*(?:\([^)]*\))?\s*,", body, re.M)


def check_environment(api):
    """the declarations this configuration speaks about still look the way it assumes"""
    csrc = api.read("duckscript/src/types/command.rs")
    isrc = api.read("duckscript/src/types/instruction.rs")
    for en, src, rel in (("CommandResult", csrc, "types/command.rs"), ("GoToValue", csrc, "types/command.rs"),
                         ("InstructionType", isrc, "types/instruction.rs")):
        got = enum_variants(src, en, rel)
        need(sorted(got) == sorted(ENUMS[en]["ctors"]), "%s: enum %s has variants %s" % (rel, en, got))
    got, _ = rs2v.read_struct(isrc, "Instruction")
    need(got == ["meta_info", "instruction_type"], "types/instruction.rs: struct Instruction has fields %s" % got)
    got, _ = rs2v.read_struct(isrc, "ScriptInstruction")
    need(got == ["label", "output", "command", "arguments"], "types/instruction.rs: struct ScriptInstruction has fields %s" % got)
    rsrc = api.read("duckscript/src/runner.rs")
    m = re.search(r"pub\s+fn\s+run_instruction\s*\((.*?)\)\s*->\s*\(\s*CommandResult\s*,\s*Option<String>\s*,?\s*\)", rsrc, re.S)
    need(m, "runner.rs: run_instruction has another signature")
    got = re.findall(r"(\w+)\s*:", m.group(1))
    need(got == RUN_INSTRUCTION_PARAMS, "runner.rs: run_instruction has parameters %s" % got)


def check_parse_text(api):
    psrc = api.read("duckscript/src/parser.rs")
    m = re.search(r"pub\s+fn\s+parse_text\s*\(\s*text\s*:\s*&str\s*\)\s*->\s*Result<Vec<Instruction>,\s*ScriptError>\s*\{\s*"
                  r"parse_lines\(\s*&?text\s*,\s*InstructionMetaInfo::new\(\)\s*\)\s*\}", psrc)
    need(m, "parser.rs: parse_text is no longer `parse_lines(&text, InstructionMetaInfo::new())`")


def translate_eval_instructions(src):
    params, body = rs2v.parse_fn2(src, "eval_instructions")
    need([p for p, _m in params] == ["instructions", "commands", "state", "variables", "env", "start_line"],
         "fn eval_instructions: parameters %s" % [p for p, _m in params])
    fn = rs2v.FnE(ei_cfg())
    term = fn.function(params, body)
    need(len(fn.loops) == 1 and fn.loops[0][0] == "gen_eval_instructions_step", "fn eval_instructions: expected exactly one loop")
    text = fn.loops[0][1] + "Definition %s :=\n%s.\n" % (EI_SIG, term)
    need(POISON not in text, "fn eval_instructions: a value that is not available is used")
    return text


HEAD = ("Require Import DS.Parser DS.ParserIx DS.Rs2vLib DS.Rs2vLib2 DS.EvalSer DS.Rs2vEvalStrLib DS.Rs2vEvalRunLib.\n"
        "Require DS.Runner.\n"
        "Local Open Scope bool_scope.\n")


def why(e):
    return ((type(e).__name__ + ": ") if not isinstance(e, Rs2vError) else "") + str(e).replace("*)", "* )").replace("(*", "( *")


def generate(api):
    text = HEAD
    src, common = "", None
    try:
        src = api.read(REL)
    except Exception as e:  # noqa: BLE001
        common = why(e)
    # fn parse: the text assembly first (its own flag), then the whole function
    line_text = parse_text = None
    line_err = parse_err = None
    try:
        if common:
            raise Rs2vError(common)
        try:
            check_parse_text(api)
            line_text, parse_text = translate_parse(src, False)
        except Exception as e:  # noqa: BLE001
            parse_err = why(e)
            line_text, _ = translate_parse(src, True)
    except Exception as e:  # noqa: BLE001
        line_err = why(e)
        parse_err = parse_err or line_err
    if line_text is not None:
        text += "Definition gen_eval_line_understood : bool := true.\n" + line_text
    else:
        text += "(* NOT UNDERSTOOD: parse (text assembly): %s *)\nDefinition gen_eval_line_understood : bool := false.\n%s" % (line_err, STUB_LINE)
    if parse_text is not None:
        text += "Definition gen_eval_parse_understood : bool := true.\n" + parse_text
    else:
        text += "(* NOT UNDERSTOOD parse: %s *)\nDefinition gen_eval_parse_understood : bool := false.\n%s" % (parse_err, STUB_PARSE)
    try:
        if common:
            raise Rs2vError(common)
        check_environment(api)
        text += "Definition gen_eval_instructions_understood : bool := true.\n" + translate_eval_instructions(src)
    except Exception as e:  # noqa: BLE001  anything unexpected means: not understood (never a crash, never a guess)
        text += "(* NOT UNDERSTOOD eval_instructions: %s *)\nDefinition gen_eval_instructions_understood : bool := false.\n%s" % (why(e), STUB_EI)
    api.emit("GenEvalFn.v", text, REL + " (fn parse, fn eval_instructions) by lib/rs2v.py")
