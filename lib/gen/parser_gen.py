"""parser_gen — TRANSLATE the rest of duckscript/src/parser.rs into Gallina on every run (lib/rs2v.py, class Fn2).

  parse_next_argument, parse_arguments_with_options, parse_arguments, reparse_arguments, find_label,
  find_output_and_command, parse_pre_process_line, parse_command_line, parse_line, parse_lines
                                                           -> coq/generated/GenParserRest.v  (gen_<fn>, gen_<fn>_body)

(parse_next_value itself is translated by core_gen.py -> GenParserFn.v.)  theories/ParserGenTie2.v proves every
gen_<fn> EQUAL, for all inputs, to the hand-written index-faithful model function (ParserIx.<fn>, or its
companion in ParserIxFns.v where ParserIx folds the Rust function into its caller).

Calls of other functions of parser.rs are translated to calls of the HAND model functions (ParserIx.* /
ParserIxFns.*), each of which is proved equal to its own translation: the ties are independent, one function
that leaves the translatable subset does not take the others with it.  Every function has its own flag
`gen_<fn>_understood`; a function the translator does not understand gets `false` and a stub of the same type,
its tie theorem (stated under `.. = true`) stays provable, and lib/vlib.py reports that tie as inactive.

What is read from the source besides the function bodies: the statics COMMENT_PREFIX_STR / PRE_PROCESS_PREFIX /
LABEL_PREFIX, and from types/instruction.rs the field lists of ScriptInstruction / PreProcessInstruction /
InstructionMetaInfo together with the fact that their `new()` is all-None (derive(Default), Option fields)."""
import os
import sys

sys.path.insert(0, os.path.dirname(os.path.dirname(os.path.abspath(__file__))))
import rs2v  # noqa: E402
from rs2v import Ty, Rs2vError, Fn2, T_opt, T_list, T_tuple, T_struct, some_inner, POISON  # noqa: E402

T_OSTR = T_opt(Ty.STR)
T_LSTR = T_list(Ty.STR)
T_OLSTR = T_opt(T_LSTR)
T_PNV = T_tuple(Ty.NAT, T_OSTR)
T_ITYPE = "itype"
T_LINSTR = T_list("instr")

ERR_KINDS = ("ControlWithoutValidValue", "InvalidControlLocation", "MissingEndQuotes", "InvalidQuotesLocation",
             "EmptyLabel", "PreProcessNoCommandFound", "UnknownPreProcessorCommand", "MissingOutputVariableName",
             "InvalidEqualsLocation")

SI_FIELDS = [("label", T_OSTR), ("output", T_OSTR), ("command", T_OSTR), ("arguments", T_OLSTR)]
PI_FIELDS = [("command", T_OSTR), ("arguments", T_OLSTR)]
MI_FIELDS = [("line", T_opt(Ty.NUM_N)), ("source", T_OSTR)]

IRES_CONSUME = "match %(drive)s with\n| IOk %(pat)s =>\n%(after)s\n| IErr e => IErr e\n| IPanic => IPanic\nend"
IRES = {"ok": "IOk %s", "err": "IErr %s", "panic": "IPanic", "consume": IRES_CONSUME}


def step_of(state_type):
    return {"type": "step %s" % state_type, "cont": "SContinue %s", "brk": "SBreak %s", "fail": "SFail %s", "panic": "SPanic"}


def strip_ref(e):
    while e[0] in ("ref", "refmut") or (e[0] == "mcall" and e[2] == "clone" and not e[3]):
        e = e[1]
    return e


def is_meta(fn, e, env):
    """the function's own meta_info (by reference, by value or cloned)"""
    return strip_ref(e) == ("path", ["meta_info"])


def need(cond, what):
    if not cond:
        raise Rs2vError(what)


def line_of(fn, e, env):
    need(strip_ref(e) == ("path", ["line_text"]), "the line argument is not line_text")
    return "line"


# ---- callees (hand model functions) --------------------------------------------------------------------
def h_pnv(fn, args, env):
    need(len(args) == 7 and is_meta(fn, args[0], env), "parse_next_value arguments")
    line_of(fn, args[1], env)
    fl = [fn.ex(a, env) for a in args[3:7]]
    return ("(ParserIx.parse_next_value {| allow_quotes := %s; allow_control := %s; stop_on_equals := %s; "
            "control_as_char := %s |} line %s)" % (fl[0], fl[1], fl[2], fl[3], fn.ex(args[2], env)))


def h_pna(fn, args, env):
    need(len(args) == 4 and is_meta(fn, args[0], env), "parse_next_argument arguments")
    line_of(fn, args[1], env)
    return "(ParserIxFns.parse_next_argument %s line %s)" % (fn.ex(args[3], env), fn.ex(args[2], env))


def h_pawo(fn, args, env):
    need(len(args) == 4 and is_meta(fn, args[0], env), "parse_arguments_with_options arguments")
    line_of(fn, args[1], env)
    return "(ParserIxFns.parse_arguments_with_options %s line %s)" % (fn.ex(args[3], env), fn.ex(args[2], env))


def h_simple(coq):
    def h(fn, args, env):
        need(len(args) == 3 and is_meta(fn, args[0], env), "%s arguments" % coq)
        line_of(fn, args[1], env)
        return "(%s line %s)" % (coq, fn.ex(args[2], env))
    return h


def h_line_fn(coq):
    # parse_pre_process_line(&chars, meta_info, 1) / parse_command_line(&chars, meta_info, 0): the line is any string value
    def h(fn, args, env):
        need(len(args) == 3 and is_meta(fn, args[1], env), "%s arguments" % coq)
        t = fn.type_of(args[0], env)
        need(t == Ty.STR, "%s: first argument of type %s" % (coq, t))
        n = args[2]
        need(n[0] == "num" or fn.type_of(n, env) == Ty.NAT, "%s: start index" % coq)
        return "(%s %s %s)" % (coq, fn.ex(args[0], env), ("%d%%nat" % n[1]) if n[0] == "num" else fn.ex(n, env))
    return h


def h_foc_call(fn, args, env):
    need(len(args) == 4 and is_meta(fn, args[0], env) and args[3][0] == "refmut", "find_output_and_command arguments")
    line_of(fn, args[1], env)
    t, val = fn.value(args[3], env)
    need(t == T_struct("ScriptInstruction") and isinstance(val, dict), "find_output_and_command: &mut ScriptInstruction")
    return "(ParserIxFns.find_output_and_command_ins line %s %s)" % (fn.ex(args[2], env), fn.struct_term(t, val))


def h_foc_ok(fn, args, env, var):
    lv = fn.lvalue(strip_ref(args[3]))
    need(lv is not None, "find_output_and_command: &mut of a variable")
    v, iv = fn.newvar(var or "r"), fn.newvar(lv)
    env2 = fn.set(env, lv, fn.struct_of_term(T_struct("ScriptInstruction"), iv))
    if var:
        env2[var] = (Ty.NAT, v)
    return "(%s, %s)" % (v, iv), env2


HELPERS = {
    "parse_next_value": {"call": h_pnv, "res": "ires", "ret": T_PNV, "tail": True},
    "parse_next_argument": {"call": h_pna, "res": "ires", "ret": T_PNV, "tail": True},
    "parse_arguments_with_options": {"call": h_pawo, "res": "ires", "ret": T_OLSTR, "tail": True},
    "parse_arguments": {"call": h_simple("ParserIx.parse_arguments"), "res": "ires", "ret": T_OLSTR, "tail": True},
    "find_label": {"call": h_simple("ParserIx.find_label"), "res": "ires", "ret": T_PNV, "tail": True},
    "find_output_and_command": {"call": h_foc_call, "res": "ires", "ret": Ty.NAT, "ok": h_foc_ok},
    "parse_pre_process_line": {"call": h_line_fn("ParserIx.parse_pre_process_line"), "res": "ires", "ret": T_ITYPE, "tail": True},
    "parse_command_line": {"call": h_line_fn("ParserIx.parse_command_line"), "res": "ires", "ret": T_ITYPE, "tail": True},
}


# ---- constructors of instructions ----------------------------------------------------------------------
def c_empty(fn, args, env):
    need(not args, "InstructionType::Empty with arguments")
    return (T_ITYPE, "IEmpty")


def c_struct_arg(sname, fmt, fields):
    def h(fn, args, env):
        need(len(args) == 1, "%s arguments" % sname)
        t, val = fn.value(args[0], env)
        need(t == T_struct(sname) and isinstance(val, dict), "argument of type %s" % (t,))
        return (T_ITYPE, fmt % tuple(fn.plain(val[f][1], f) for f in fields))
    return h


def s_instruction(fn, fields, env):
    """Instruction { meta_info, instruction_type: e }: the model keeps the instruction type; the meta information is
    re-attached by parse_lines.  The meta_info field must be the function's own meta_info."""
    d = dict(fields)
    need(sorted(d) == ["instruction_type", "meta_info"] and len(fields) == 2, "Instruction { .. } fields")
    need(is_meta(fn, d["meta_info"], env), "Instruction { meta_info: .. } is not the function's meta_info")
    t = fn.type_of(d["instruction_type"], env)
    need(t == T_ITYPE, "instruction_type of type %s" % (t,))
    return (T_ITYPE, fn.ex(d["instruction_type"], env))


CTOR_TYPES = {"InstructionType::Empty": T_ITYPE, "InstructionType::PreProcess": T_ITYPE, "InstructionType::Script": T_ITYPE,
              "Instruction": T_ITYPE}
CTOR_HANDLERS = {
    "InstructionType::Empty": c_empty,
    "InstructionType::PreProcess": c_struct_arg("PreProcessInstruction", "(IPre %s %s)", ["command", "arguments"]),
    "InstructionType::Script": c_struct_arg("ScriptInstruction", "(IScript %s %s %s %s)",
                                            ["label", "output", "command", "arguments"]),
}
STRUCT_HANDLERS = {"Instruction": s_instruction}


def base_cfg(coq_name, statics, structs):
    return {
        "coq_name": coq_name, "statics": statics, "structs": structs, "locals": {},
        "helpers": HELPERS, "ctor_types": CTOR_TYPES, "ctor_handlers": CTOR_HANDLERS, "struct_handlers": STRUCT_HANDLERS,
        "err_kinds": ERR_KINDS, "is_meta": is_meta, "res": IRES,
        "step": {"type": "", "cont": None, "brk": None, "fail": None, "panic": None},
    }


P_LINE = {"line_text": (Ty.STR, "line"), "start_index": (Ty.NAT, "start_index")}


# ---- one entry per function: (rust name, flag, builder(src, statics, structs) -> text, stub text) -------------
def simple_fn(src, rust, cfg, sig):
    params, body = rs2v.parse_fn2(src, rust)
    fn = Fn2(cfg)
    term = fn.function(params, body)
    lc = cfg.get("loop")
    if lc:
        need(len(fn.loops) == 1, "%s: expected exactly one loop, found %d" % (rust, len(fn.loops)))
    else:
        need(not fn.loops, "%s: unexpected loop" % rust)
    need(POISON not in term, "%s: a value that is not available is used" % rust)
    return "".join(t for _n, t in fn.loops) + "Definition %s :=\n%s.\n" % (sig, term)


def b_pna(src, statics, structs):
    cfg = base_cfg("gen_pna", statics, structs)
    cfg["params"] = dict(P_LINE, control_as_char=(Ty.BOOL, "cac"))
    return simple_fn(src, "parse_next_argument", cfg,
                     "gen_parse_next_argument (cac : bool) (line : str) (start_index : nat) : ires (nat * option str)")


def b_pawo(src, statics, structs):
    cfg = base_cfg("gen_pawo", statics, structs)
    cfg["params"] = dict(P_LINE, control_as_char=(Ty.BOOL, "cac"))
    cfg["locals"] = {"arguments": T_LSTR, "index": Ty.NAT}
    st = "(list str * nat)"
    cfg["loop"] = {"state": ["arguments", "index"], "state_type": st, "body_params": [], "body_param_types": {},
                   "fuel": "(S ((length line) - start_index)%nat)"}
    cfg["fn_params"], cfg["fn_args"] = "(cac : bool) (line : str)", "cac line"
    cfg["step"] = step_of(st)
    return simple_fn(src, "parse_arguments_with_options", cfg,
                     "gen_parse_arguments_with_options (cac : bool) (line : str) (start_index : nat) : ires (option (list str))")


def b_pa(rust, coq):
    def b(src, statics, structs):
        cfg = base_cfg(coq, statics, structs)
        cfg["params"] = dict(P_LINE)
        return simple_fn(src, rust, cfg, "%s (line : str) (start_index : nat) : ires (option (list str))" % coq)
    return b


def b_find_label(src, statics, structs):
    cfg = base_cfg("gen_find_label", statics, structs)
    cfg["params"] = dict(P_LINE)
    cfg["locals"] = {"label": T_OSTR, "index": Ty.NAT, "text": Ty.STR}
    st = "(option str * nat)"
    cfg["loop"] = {"state": ["label", "index"], "state_type": st, "body_params": [], "body_param_types": {}}
    cfg["fn_params"], cfg["fn_args"] = "(line : str)", "line"
    cfg["step"] = step_of(st)
    return simple_fn(src, "find_label", cfg, "gen_find_label (line : str) (start_index : nat) : ires (nat * option str)")


def si_struct():
    return {"fields": SI_FIELDS, "coq": "sinstr",
            "mk": "{| si_label := %s; si_output := %s; si_command := %s; si_arguments := %s |}",
            "proj": {"label": "(si_label %s)", "output": "(si_output %s)", "command": "(si_command %s)",
                     "arguments": "(si_arguments %s)"}}


def b_foc(src, statics, structs):
    cfg = base_cfg("gen_foc", statics, structs)
    si = T_struct("ScriptInstruction")
    cfg["params"] = dict(P_LINE)
    cfg["params"]["instruction"] = (si, {f: (t, structs["ScriptInstruction"]["proj"][f] % "instruction") for f, t in SI_FIELDS})
    cfg["locals"] = {"index": Ty.NAT}
    st = "(nat * option str)"
    cfg["loop"] = {"state": ["index", "instruction.output"], "state_type": st, "body_params": [("value", "value")],
                   "body_param_types": {"value": "option str"}}
    cfg["fn_params"], cfg["fn_args"] = "(line : str)", "line"
    cfg["step"] = step_of(st)
    cfg["ok_wrap"] = lambda fn, term, env: "(%s, %s)" % (term, fn.ex(("path", ["instruction"]), env))
    return simple_fn(src, "find_output_and_command", cfg,
                     "gen_find_output_and_command (line : str) (start_index : nat) (instruction : sinstr) : ires (nat * sinstr)")


def b_ppl(src, statics, structs):
    cfg = base_cfg("gen_ppl", statics, structs)
    cfg["params"] = dict(P_LINE)
    cfg["locals"] = {"command": Ty.STR_REV, "index": Ty.NAT}
    st = "(str * nat)"
    cfg["loop"] = {"state": ["command", "index"], "state_type": st, "body_params": [], "body_param_types": {}}
    cfg["fn_params"], cfg["fn_args"] = "(line : str)", "line"
    cfg["step"] = step_of(st)
    return simple_fn(src, "parse_pre_process_line", cfg,
                     "gen_parse_pre_process_line (line : str) (start_index : nat) : ires itype")


def b_pcl(src, statics, structs):
    cfg = base_cfg("gen_pcl", statics, structs)
    cfg["params"] = dict(P_LINE)
    cfg["locals"] = {"index": Ty.NAT}
    return simple_fn(src, "parse_command_line", cfg, "gen_parse_command_line (line : str) (start_index : nat) : ires itype")


def b_parse_line(src, statics, structs):
    cfg = base_cfg("gen_parse_line", statics, structs)
    cfg["params"] = {"line_text": (Ty.STR, "line_text")}
    return simple_fn(src, "parse_line", cfg, "gen_parse_line (line_text : str) : ires itype")


def b_parse_lines(src, statics, structs):
    mi, ins = T_struct("InstructionMetaInfo"), T_struct("Instruction")

    def line_src(fn, val, what):
        need(isinstance(val, dict), "%s: the meta information is not a struct value" % what)
        ln = some_inner(fn.plain(val["line"][1], "meta_info.line"))
        need(ln is not None, "%s: the line number of the meta information is not Some(..) here" % what)
        return ln, fn.plain(val["source"][1], "meta_info.source")

    def pl_call(fn, args, env):
        need(len(args) == 2 and fn.type_of(args[0], env) == Ty.STR, "parse_line arguments")
        t, val = fn.value(args[1], env)
        need(t == mi, "parse_line: second argument of type %s" % (t,))
        line_src(fn, val, "parse_line")
        return "(ParserIx.parse_line %s)" % fn.ex(args[0], env)

    def pl_ok(fn, args, env, var):
        v = fn.newvar(var or "r")
        env2 = dict(env)
        if var:
            env2[var] = (ins, {"meta_info": fn.value(args[1], env), "instruction_type": (T_ITYPE, v)})
        return v, env2

    def pl_err(fn, args, env):
        ln, src_ = line_src(fn, fn.value(args[1], env)[1], "parse_line")
        return "(e, %s, %s)" % (ln, src_)

    def run_call(fn, args, env):
        need(len(args) == 1, "preprocessor::run arguments")
        t, val = fn.value(args[0], env)
        need(t == ins and isinstance(val, dict), "preprocessor::run: argument of type %s" % (t,))
        ln, src_ = line_src(fn, val["meta_info"][1], "preprocessor::run")
        return "(preprocess inc %s %s %s)" % (src_, ln, fn.plain(val["instruction_type"][1], "instruction_type"))

    def ins_term(fn, fields):
        ln, src_ = line_src(fn, fields["meta_info"][1], "Instruction value")
        return "{| i_line := %s; i_source := %s; i_type := %s |}" % (ln, src_, fn.plain(fields["instruction_type"][1], "instruction_type"))

    structs = dict(structs)
    structs["Instruction"] = {"fields": [("meta_info", mi), ("instruction_type", T_ITYPE)], "term": ins_term}
    cfg = base_cfg("gen_parse_lines", statics, structs)
    cfg["helpers"] = {"parse_line": {"call": pl_call, "res": "ires", "ret": T_ITYPE, "ok": pl_ok, "err": pl_err},
                      "preprocessor::run": {"call": run_call, "res": "tres", "ret": T_LINSTR}}
    cfg["params"] = {"lines": (Ty.STR, "text"),
                     "meta_info": (mi, {"line": (T_opt(Ty.NUM_N), POISON), "source": (T_OSTR, "src")})}
    cfg["locals"] = {"instructions": T_LINSTR, "line_number": Ty.NUM_N}
    st = "(list instr * N)"
    ety = "(perr * N * option str)"
    cfg["loop"] = {"state": ["instructions", "line_number"], "state_type": st, "body_params": [], "body_param_types": {},
                   "item": (Ty.STR, "str"), "for_each": "for_each_x"}
    cfg["fn_params"], cfg["fn_args"] = "(inc : list str -> option str -> tres) (src : option str)", "inc src"
    cfg["step"] = {"type": "xstep %s %s" % (ety, st), "cont": "XContinue %s", "brk": "XBreak %s", "fail": "XFail %s",
                   "panic": "XSPanic"}
    cfg["res"] = {"ok": "ITOk %s", "err": "(itres_err %s)", "panic": "ITPanic",
                  "consume": "match %(drive)s with\n| XOk %(pat)s =>\n%(after)s\n| XErr p => itres_err p\n| XPanic => ITPanic\nend"}
    cfg["iflet_ctors"] = {"InstructionType::PreProcess": "IPre _ _"}
    cfg["is_meta"] = lambda fn, e, env: False
    return simple_fn(src, "parse_lines", cfg,
                     "gen_parse_lines (inc : list str -> option str -> tres) (src : option str) (text : str) : itres")


FUNCTIONS = [
    ("parse_next_argument", "gen_parse_next_argument_understood", b_pna,
     "Definition gen_parse_next_argument (cac : bool) (line : str) (start_index : nat) : ires (nat * option str) := IPanic.\n"),
    ("parse_arguments_with_options", "gen_parse_arguments_with_options_understood", b_pawo,
     "Definition gen_pawo_body (cac : bool) (line : str) (st : (list str * nat)) : step (list str * nat) := SPanic.\n"
     "Definition gen_parse_arguments_with_options (cac : bool) (line : str) (start_index : nat) : ires (option (list str)) := IPanic.\n"),
    ("parse_arguments", "gen_parse_arguments_understood", b_pa("parse_arguments", "gen_parse_arguments"),
     "Definition gen_parse_arguments (line : str) (start_index : nat) : ires (option (list str)) := IPanic.\n"),
    ("reparse_arguments", "gen_reparse_arguments_understood", b_pa("reparse_arguments", "gen_reparse_arguments"),
     "Definition gen_reparse_arguments (line : str) (start_index : nat) : ires (option (list str)) := IPanic.\n"),
    ("find_label", "gen_find_label_understood", b_find_label,
     "Definition gen_find_label_body (line : str) (st : (option str * nat)) : step (option str * nat) := SPanic.\n"
     "Definition gen_find_label (line : str) (start_index : nat) : ires (nat * option str) := IPanic.\n"),
    ("find_output_and_command", "gen_find_output_and_command_understood", b_foc,
     "Definition gen_foc_body (line : str) (value : option str) (st : (nat * option str)) : step (nat * option str) := SPanic.\n"
     "Definition gen_find_output_and_command (line : str) (start_index : nat) (instruction : sinstr) : ires (nat * sinstr) := IPanic.\n"),
    ("parse_pre_process_line", "gen_parse_pre_process_line_understood", b_ppl,
     "Definition gen_ppl_body (line : str) (st : (str * nat)) : step (str * nat) := SPanic.\n"
     "Definition gen_parse_pre_process_line (line : str) (start_index : nat) : ires itype := IPanic.\n"),
    ("parse_command_line", "gen_parse_command_line_understood", b_pcl,
     "Definition gen_parse_command_line (line : str) (start_index : nat) : ires itype := IPanic.\n"),
    ("parse_line", "gen_parse_line_understood", b_parse_line,
     "Definition gen_parse_line (line_text : str) : ires itype := IPanic.\n"),
    ("parse_lines", "gen_parse_lines_understood", b_parse_lines,
     "Definition gen_parse_lines_body (inc : list str -> option str -> tres) (src : option str) (st : (list instr * N)) "
     "(line : str) : xstep (perr * N * option str) (list instr * N) := XSPanic.\n"
     "Definition gen_parse_lines (inc : list str -> option str -> tres) (src : option str) (text : str) : itres := ITPanic.\n"),
]

HEAD = ("Require Import DS.Parser DS.ParserIx DS.Rs2vLib DS.Rs2vLib2 DS.ParserIxFns.\n"
        "Local Open Scope bool_scope.\n")


def generate(api, force_stub=False):
    rel, irel = "duckscript/src/parser.rs", "duckscript/src/types/instruction.rs"
    text = HEAD
    common_err = None
    src, statics, structs = "", {}, {}
    try:
        src = api.read(rel)
        isrc = api.read(irel)
        statics = rs2v.read_statics(src)
        structs = {}
        for name, fields, extra in (("ScriptInstruction", SI_FIELDS, si_struct()), ("PreProcessInstruction", PI_FIELDS, {}),
                                    ("InstructionMetaInfo", MI_FIELDS, {})):
            got, new_none = rs2v.read_struct(isrc, name)
            need(got == [f for f, _ in fields], "%s: struct %s has fields %s" % (irel, name, got))
            d = {"fields": fields, "new_is_none": new_none}
            d.update(extra)
            structs[name] = d
    except Exception as e:  # noqa: BLE001
        common_err = str(e)
    for rust, flag, build, stub in FUNCTIONS:
        try:
            if force_stub:
                raise Rs2vError("translation rejected: %s" % force_stub)
            if common_err:
                raise Rs2vError(common_err)
            body = build(src, statics, structs)
            text += "Definition %s : bool := true.\n%s" % (flag, body)
        except Exception as e:  # noqa: BLE001  anything unexpected means: not understood (never a crash, never a guess)
            text += "(* NOT UNDERSTOOD %s: %s *)\nDefinition %s : bool := false.\n%s" % (
                rust, (type(e).__name__ + ": " if not isinstance(e, Rs2vError) else "") + str(e).replace("*)", "* )").replace("(*", "( *"),
                flag, stub)
    api.emit("GenParserRest.v", text, rel + " (every fn except parse_next_value, parse_file, parse_text, parse_text_with_source_file) by lib/rs2v.py")
