"""include_gen — TRANSLATE the include pre-processor into Gallina on every run (lib/rs2v.py, class FnV)
-> coq/generated/GenIncludeFn.v:

  duckscript/src/preprocessor/include_files_preprocessor.rs
      run             gen_include_run  : (str -> option str) -> (str -> tres) -> option str -> option (list str) -> tres
                                          canon, parse_file, meta_info.source, arguments   (+ gen_include_run_body, the loop)
                      gen_include_path : (str -> option str) -> option str -> str -> str
                                          the SAME walk of one loop iteration up to the call of parser::parse_file: the path
                                          string that call receives, as a function of canon, meta_info.source, the argument
  duckscript/src/preprocessor/mod.rs
      run             gen_preprocess   : (option (list str) -> option str -> tres) -> option str -> N -> itype -> tres
                                          include_files_preprocessor::run, meta_info.source, the number in meta_info.line, the
                                          instruction type
  duckscript/src/parser.rs
      parse_file                   gen_parse_file : (str -> option str) -> (list str -> option str -> tres) -> str -> itres
      parse_text_with_source_file  gen_parse_text_with_source_file : (list str -> option str -> tres) -> str -> str -> itres
      parse_text                   gen_parse_text : (list str -> option str -> tres) -> str -> itres

theories/IncludeGenTie.v proves each of them EQUAL, for all inputs, to the hand model (Include.v, IncludePath.v,
Parser.preprocess; IncludeFns.v names the three wrappers) — props/SrcInclude.v.  One flag `gen_<fn>_understood` per
generated function; a function the translator does not understand gets `false` and a stub of the same type, its theorem
(stated under `.. = true`) stays provable, and the check reports that tie inactive.

Calls of functions translated elsewhere are calls of the HAND model (parse_lines -> IncludeFns.parse_lines =
ParserIx.parse_lines_from .. 1 (lines ..), tied by the "parser" tie; parse_text_with_source_file ->
IncludeFns.parse_text_with_source_file), so the ties are independent.

From the SOURCE: the absolute test (which prefixes, how they are combined), which value is the fallback in every arm
(argument / joined path / canonical path), the order parent -> push -> canonicalize, which string parse_file receives, the
loop (state, append order, first error returned, `None` arguments), the dispatch on the command name (the literals, the
error kinds, what is returned for a line that is not a pre-processor line), the three wrappers (source None / Some(file),
the error for an unreadable file, `?`).

Supplied by this CONFIGURATION, not read from the source (see the report / DESIGN):
  * the parameter names and types of the generated functions; `InstructionMetaInfo` as (line, source), `Instruction` as
    (meta_info, instruction_type), `InstructionType` as Parser.itype (field lists checked against types/instruction.rs);
    meta_info.line of the instruction handed to preprocessor::run is `Some ln` and an error carries that ln (the encoding
    of Parser.tres); ErrorReadingFile(file, _) is `TErr EReadFile 0 (Some file)` (the io::Error is erased);
  * std::path: `PathBuf` / `&Path` values are Rust strings here (both come from Strings); `PathBuf::from`, `to_path_buf`,
    `clone`, `as_path`, `to_string_lossy().into_owned()` are the identity; `Path::parent` is IncludePath.parent (its `None`
    is every answer but PSome: PNone and the fuel marker that IncludePathProof.parent_total excludes), `PathBuf::push` and
    `Path::join` are IncludePath.push; `canonicalize()` followed by to_string_lossy is the PARAMETER canon (Ok = Some);
  * `parser::parse_file` inside the loop is the PARAMETER pf; `read_text_file` is the PARAMETER fs (Ok = Some; checked:
    `use fsio::file::read_text_file`); include_files_preprocessor::run inside preprocessor::run is the PARAMETER incrun;
  * print_preprocessor::run only writes to stdout (checked on its AST: no call, no method call, no macro but print! /
    println!) and returns ().
"""
import os
import re
import sys

sys.path.insert(0, os.path.dirname(os.path.dirname(os.path.abspath(__file__))))
import rs2v  # noqa: E402
from rs2v import Rs2vError, VV, VV_UNIT, POISON, some_inner  # noqa: E402

INC = "duckscript/src/preprocessor/include_files_preprocessor.rs"
PRINT = "duckscript/src/preprocessor/print_preprocessor.rs"
MOD = "duckscript/src/preprocessor/mod.rs"
PARSER = "duckscript/src/parser.rs"
INSTR = "duckscript/src/types/instruction.rs"

T_OSTR = ("option", "str")
T_LSTR = ("list", "str")
T_OLSTR = ("option", T_LSTR)
T_LINSTR = ("list", "instr")
T_MI = ("struct", "InstructionMetaInfo")
T_INS = ("struct", "Instruction")
T_PPI = ("struct", "PreProcessInstruction")

INC_TY = "(list str -> option str -> tres)"
# ScriptError variants that carry the meta information of a line -> Parser.perr
META_ERRORS = {"UnknownPreProcessorCommand": "EUnknownPreProcessorCommand", "PreProcessNoCommandFound": "EPreProcessNoCommandFound",
               "ControlWithoutValidValue": "EControlWithoutValidValue", "InvalidControlLocation": "EInvalidControlLocation",
               "MissingEndQuotes": "EMissingEndQuotes", "InvalidQuotesLocation": "EInvalidQuotesLocation", "EmptyLabel": "EEmptyLabel",
               "MissingOutputVariableName": "EMissingOutputVariableName", "InvalidEqualsLocation": "EInvalidEqualsLocation"}


def need(cond, what):
    if not cond:
        raise Rs2vError(what)


def coq_type(ty):
    if ty in ("str", "path"):
        return "str"
    if ty in ("instr", "itype", "bool", "N"):
        return ty
    if isinstance(ty, tuple) and ty[0] in ("list", "option") and ty[1] != "?":
        return "%s (%s)" % (ty[0], coq_type(ty[1]))
    raise Rs2vError("no Coq type for %r" % (ty,))


def k_tres():
    def err(fn):
        e, l, s = fn.fresh("e"), fn.fresh("l"), fn.fresh("s")
        return "TErr %s %s %s" % (e, l, s), VV("serr", "%s %s %s" % (e, l, s))
    return {"coq": "tres", "ok": ("TOk %s", T_LINSTR), "err": err}


def k_opt(payload):
    return {"coq": "option %s" % coq_type(payload), "ok": ("Some %s", payload), "err": lambda fn: ("None", VV("ioerr", None))}


def k_itres():
    def err(fn):
        raise Rs2vError("a parse result of the index-faithful model is inspected")
    return {"coq": "itres", "ok": ("ITOk %s", T_LINSTR), "err": err}


RES_KINDS = {"tres": k_tres(), "itres": k_itres(), "io_str": k_opt("str"), "io_path": k_opt("path")}
R_TRES = {"coq": "tres", "ok": "TOk %s", "ok_type": T_LINSTR, "err": "TErr %s"}
R_ITRES = {"coq": "itres", "ok": "ITOk %s", "ok_type": T_LINSTR, "err": "ITErr %s"}


def is_str(v):
    return v.ty == "str" and isinstance(v.term, str)


def c_identity_str(fn, args, exprs, env):
    need(len(args) == 1 and is_str(args[0]), "String::from / to_string of something that is not a string")
    return args[0]


def c_vec_new(fn, args, exprs, env):
    need(not args, "Vec::new arguments")
    return VV(("list", "?"), "[]")


def meta_value(line, source):
    return VV(T_MI, None, {"line": VV(("option", "N"), line), "source": VV(T_OSTR, source)})


def base_cfg(coq_name, result):
    return {"coq_name": coq_name, "params": {}, "result": result, "res_kinds": RES_KINDS, "coq_type": coq_type,
            "calls": {"String::from": c_identity_str, "Vec::new": c_vec_new}, "methods": {}, "mutators": {}, "enums": {}}


# ---- include_files_preprocessor.rs ----------------------------------------------------------------------------
def c_pathbuf_from(fn, args, exprs, env):
    need(len(args) == 1 and args[0].ty in ("str", "path") and isinstance(args[0].term, str), "PathBuf::from / Path::new argument")
    return VV("path", args[0].term)


def c_parse_file(fn, args, exprs, env):
    need(len(args) == 1 and is_str(args[0]), "parser::parse_file argument")
    return VV(("res", "tres"), "(pf %s)" % args[0].term)


def m_path_identity(fn, r, args):
    need(not args, "path conversion with arguments")
    return r


def m_parent(fn, r, args):
    need(not args, "Path::parent arguments")
    return VV(("option", "path"), "(IncludePath.parent %s)" % fn.term(r, "the path"), pats={"some": "PSome %s", "none": "_"})


def m_push(fn, r, args):
    need(len(args) == 1 and args[0].ty in ("str", "path"), "PathBuf::push / Path::join argument")
    return VV("path", "(IncludePath.push %s %s)" % (fn.term(r, "the path"), fn.term(args[0], "the pushed path")))


def m_canonicalize(fn, r, args):
    need(not args, "canonicalize arguments")
    return VV(("res", "io_path"), "(canon %s)" % fn.term(r, "the path"))


def m_lossy(fn, r, args):
    need(not args, "to_string_lossy arguments")
    return VV("cow", fn.term(r, "the path"))


def m_cow_owned(fn, r, args):
    need(not args, "into_owned arguments")
    return VV("str", r.term)


PATH_METHODS = {("path", "parent"): m_parent, ("path", "canonicalize"): m_canonicalize, ("path", "join"): m_push,
                ("path", "to_string_lossy"): m_lossy, ("cow", "into_owned"): m_cow_owned, ("cow", "to_string"): m_cow_owned,
                ("cow", "into"): m_cow_owned}
for _m in ("to_path_buf", "clone", "to_owned", "as_path", "as_ref", "into", "borrow"):
    PATH_METHODS[("path", _m)] = m_path_identity

INC_BINDERS = "(canon : str -> option str) (pf : str -> tres) (source : option str)"


def include_cfg(src, slice_mode):
    cfg = base_cfg("gen_include_run", R_TRES)
    cfg["params"] = {"arguments": VV(T_OLSTR, "arguments"), "meta_info": meta_value(POISON, "source")}
    for k in ("PathBuf::from", "Path::new", "std::path::PathBuf::from", "std::path::Path::new"):
        cfg["calls"][k] = c_pathbuf_from
    for k in ("parser::parse_file", "crate::parser::parse_file"):
        cfg["calls"][k] = c_parse_file
    cfg["methods"] = PATH_METHODS
    cfg["mutators"] = {("path", "push"): m_push}
    cfg["loop"] = {"state_types": [T_LINSTR]}
    cfg["fn_params"], cfg["fn_args"] = INC_BINDERS, "canon pf source"
    cfg["helper_src"] = src
    if slice_mode:
        cfg["slice_call"], cfg["slice_item"], cfg["slice_type"] = "parser::parse_file", "argument", "str"
    return cfg


def check_include_uses(src):
    need(re.search(r"^\s*use\s+crate::parser\s*;", src, re.M), "%s: `use crate::parser;` not found" % INC)
    need(re.search(r"^\s*use\s+std::path::(?:PathBuf|\{[^}]*\bPathBuf\b[^}]*\})\s*;", src, re.M),
         "%s: `use std::path::PathBuf;` not found" % INC)


def b_include_path(srcs):
    check_include_uses(srcs[INC])
    params, body = rs2v.parse_fn_v(srcs[INC], "run")
    fn = rs2v.FnV(include_cfg(srcs[INC], True))
    term = fn.function(params, body, "run")
    need(not fn.loops, "include run (path): loop definitions in slice mode")
    return "Definition gen_include_path (canon : str -> option str) (source : option str) (argument : str) : str :=\n%s.\n" % term


def b_include_run(srcs):
    check_include_uses(srcs[INC])
    params, body = rs2v.parse_fn_v(srcs[INC], "run")
    fn = rs2v.FnV(include_cfg(srcs[INC], False))
    term = fn.function(params, body, "run")
    need(len(fn.loops) == 1, "include run: %d loops" % len(fn.loops))
    return fn.loops[0][1] + "Definition gen_include_run %s (arguments : option (list str)) : tres :=\n%s.\n" % (INC_BINDERS, term)


# ---- preprocessor/mod.rs --------------------------------------------------------------------------------------
def check_print_only(src):
    """print_preprocessor::run returns () and does nothing but print"""
    m = re.search(r"fn\s+run\s*\(([^)]*)\)\s*(->)?", src)
    need(m is not None and m.group(2) is None, "%s: fn run with a return type" % PRINT)
    _params, body = rs2v.parse_fn_v(src, "run")

    def walk(n):
        if isinstance(n, list):
            for x in n:
                walk(x)
            return
        if not isinstance(n, tuple) or not n:
            return
        need(n[0] not in ("call", "mcall", "index", "try", "return", "assign", "loop"),
             "%s: fn run does more than printing (%s)" % (PRINT, n[0]))
        if n[0] == "macro":
            need(n[1] in ("print", "println"), "%s: macro %s!" % (PRINT, n[1]))
            return
        for x in n[1:]:
            if isinstance(x, (tuple, list)):
                walk(x)
    walk(body)


def e_pre(fn, subs):
    need(len(subs) == 1, "InstructionType::PreProcess pattern")
    c, a = fn.fresh("command"), fn.fresh("arguments")
    binds = {}
    if subs[0]:
        binds[subs[0]] = VV(T_PPI, None, {"command": VV(T_OSTR, c), "arguments": VV(T_OLSTR, a)})
    return "IPre %s %s" % (c, a), binds


def e_script(fn, subs):
    need(len(subs) == 1 and subs[0] is None, "InstructionType::Script pattern binds its payload")
    return "IScript _ _ _ _", {}


def e_empty(fn, subs):
    need(not subs, "InstructionType::Empty pattern")
    return "IEmpty", {}


def c_print_run(fn, args, exprs, env):
    need(len(args) == 1 and args[0].ty == T_OLSTR, "print_preprocessor::run arguments")
    return VV_UNIT


def c_include_run(fn, args, exprs, env):
    need(len(args) == 2 and args[0].ty == T_OLSTR and args[1].ty == T_MI and args[1].fields is not None,
         "include_files_preprocessor::run arguments")
    return VV(("res", "tres"), "(incrun %s %s)" % (fn.term(args[0], "the arguments"), fn.term(args[1].fields["source"], "meta_info.source")))


def c_meta_error(kind):
    def h(fn, args, exprs, env):
        need(len(args) == 1 and args[0].ty == T_MI and args[0].fields is not None, "ScriptError::..(meta_info) argument")
        ln = some_inner(fn.term(args[0].fields["line"], "meta_info.line"))
        need(ln is not None, "the line number of the error's meta information is not Some(..) here")
        return VV("serr", "%s %s %s" % (kind, ln, fn.term(args[0].fields["source"], "meta_info.source")))
    return h


def b_preprocess(srcs):
    src = srcs[MOD]
    need(re.search(r"^\s*mod\s+include_files_preprocessor\s*;", src, re.M) and re.search(r"^\s*mod\s+print_preprocessor\s*;", src, re.M),
         "%s: the two pre-processor modules are not declared" % MOD)
    check_print_only(srcs[PRINT])
    params, body = rs2v.parse_fn_v(src, "run")
    cfg = base_cfg("gen_preprocess", R_TRES)
    cfg["params"] = {"instruction": VV(T_INS, None, {"meta_info": meta_value("(Some ln)", "src"), "instruction_type": VV("itype", "t")})}
    cfg["enums"] = {"itype": {"ctors": {"InstructionType::PreProcess": e_pre, "InstructionType::Script": e_script,
                                        "InstructionType::Empty": e_empty}, "all": 3}}
    cfg["calls"].update({"print_preprocessor::run": c_print_run, "include_files_preprocessor::run": c_include_run})
    for rust, coq in META_ERRORS.items():
        cfg["calls"]["ScriptError::" + rust] = c_meta_error(coq)
    cfg["helper_src"] = src
    fn = rs2v.FnV(cfg)
    term = fn.function(params, body, "run")
    need(not fn.loops, "preprocessor::run: loop")
    return ("Definition gen_preprocess (incrun : option (list str) -> option str -> tres) (src : option str) (ln : N) (t : itype) "
            ": tres :=\n%s.\n" % term)


# ---- parser.rs: the three wrappers ----------------------------------------------------------------------------
def c_read_text_file(fn, args, exprs, env):
    need(len(args) == 1 and is_str(args[0]), "read_text_file argument")
    return VV(("res", "io_str"), "(fs %s)" % args[0].term)


def c_error_reading_file(fn, args, exprs, env):
    need(len(args) == 2 and is_str(args[0]) and args[1].ty in (("option", "ioerr"), ("option", "?")), "ErrorReadingFile arguments")
    return VV("serr", "EReadFile 0%%N (Some %s)" % args[0].term)


def c_meta_new(fn, args, exprs, env):
    need(not args, "InstructionMetaInfo::new arguments")
    return meta_value("None", "None")


def c_parse_lines(fn, args, exprs, env):
    need(len(args) == 2 and is_str(args[0]) and args[1].ty == T_MI and args[1].fields is not None, "parse_lines arguments")
    need(fn.term(args[1].fields["line"], "meta_info.line") == "None", "parse_lines is called with a line number in its meta information")
    return VV(("res", "itres"), "(IncludeFns.parse_lines inc %s %s)" % (fn.term(args[1].fields["source"], "meta_info.source"), args[0].term))


def c_ptsf(fn, args, exprs, env):
    need(len(args) == 2 and is_str(args[0]) and is_str(args[1]), "parse_text_with_source_file arguments")
    return VV(("res", "itres"), "(IncludeFns.parse_text_with_source_file inc %s %s)" % (args[0].term, args[1].term))


def s_meta(fn, d):
    need(sorted(d) == ["line", "source"], "InstructionMetaInfo { .. } fields")
    fn.unify(d["line"].ty, ("option", "N"), "InstructionMetaInfo.line")
    fn.unify(d["source"].ty, T_OSTR, "InstructionMetaInfo.source")
    return meta_value(fn.term(d["line"], "meta_info.line"), fn.term(d["source"], "meta_info.source"))


def wrapper_cfg(name, params):
    cfg = base_cfg(name, R_ITRES)
    cfg["params"] = params
    cfg["struct_lits"] = {"InstructionMetaInfo": s_meta}
    cfg["calls"].update({"InstructionMetaInfo::new": c_meta_new, "parse_lines": c_parse_lines})
    return cfg


def wrapper(srcs, rust, cfg, head):
    params, body = rs2v.parse_fn_v(srcs[PARSER], rust)
    fn = rs2v.FnV(cfg)
    term = fn.function(params, body, rust)
    need(not fn.loops, "%s: loop" % rust)
    return "Definition %s : itres :=\n%s.\n" % (head, term)


def b_parse_file(srcs):
    need(re.search(r"^\s*use\s+fsio::file::read_text_file\s*;", srcs[PARSER], re.M), "%s: `use fsio::file::read_text_file;` not found" % PARSER)
    cfg = wrapper_cfg("gen_parse_file", {"file": VV("str", "file")})
    cfg["calls"].update({"read_text_file": c_read_text_file, "ScriptError::ErrorReadingFile": c_error_reading_file,
                         "parse_text_with_source_file": c_ptsf})
    return wrapper(srcs, "parse_file", cfg, "gen_parse_file (fs : str -> option str) (inc : %s) (file : str)" % INC_TY)


def b_ptsf(srcs):
    cfg = wrapper_cfg("gen_parse_text_with_source_file", {"text": VV("str", "text"), "source_file": VV("str", "source_file")})
    return wrapper(srcs, "parse_text_with_source_file", cfg,
                   "gen_parse_text_with_source_file (inc : %s) (text : str) (source_file : str)" % INC_TY)


def b_parse_text(srcs):
    cfg = wrapper_cfg("gen_parse_text", {"text": VV("str", "text")})
    return wrapper(srcs, "parse_text", cfg, "gen_parse_text (inc : %s) (text : str)" % INC_TY)


FUNCTIONS = [
    ("include_path", "gen_include_path_understood", b_include_path,
     "Definition gen_include_path (canon : str -> option str) (source : option str) (argument : str) : str := [].\n"),
    ("include_run", "gen_include_run_understood", b_include_run,
     "Definition gen_include_run_body %s (st : list (instr)) (argument : str) : lstep (list (instr)) (tres) := LCont st.\n"
     "Definition gen_include_run %s (arguments : option (list str)) : tres := TOk [].\n" % (INC_BINDERS, INC_BINDERS)),
    ("preprocess", "gen_preprocess_understood", b_preprocess,
     "Definition gen_preprocess (incrun : option (list str) -> option str -> tres) (src : option str) (ln : N) (t : itype) : tres "
     ":= TOk [].\n"),
    ("parse_file", "gen_parse_file_understood", b_parse_file,
     "Definition gen_parse_file (fs : str -> option str) (inc : %s) (file : str) : itres := ITPanic.\n" % INC_TY),
    ("parse_text_with_source_file", "gen_parse_text_with_source_file_understood", b_ptsf,
     "Definition gen_parse_text_with_source_file (inc : %s) (text : str) (source_file : str) : itres := ITPanic.\n" % INC_TY),
    ("parse_text", "gen_parse_text_understood", b_parse_text,
     "Definition gen_parse_text (inc : %s) (text : str) : itres := ITPanic.\n" % INC_TY),
]

HEAD = ("Require Import DS.Parser DS.ParserIx DS.Rs2vLib2 DS.Rs2vCliLib DS.Include DS.IncludePath DS.IncludeFns.\n"
        "Local Open Scope bool_scope.\n")


def check_instruction_rs(src):
    fields, new_none = rs2v.read_struct(src, "InstructionMetaInfo")
    need(fields == ["line", "source"], "%s: struct InstructionMetaInfo has fields %s" % (INSTR, fields))
    need(new_none, "%s: InstructionMetaInfo::new() is not all-None" % INSTR)
    fields, _n = rs2v.read_struct(src, "Instruction")
    need(fields == ["meta_info", "instruction_type"], "%s: struct Instruction has fields %s" % (INSTR, fields))
    fields, _n = rs2v.read_struct(src, "PreProcessInstruction")
    need(fields == ["command", "arguments"], "%s: struct PreProcessInstruction has fields %s" % (INSTR, fields))
    m = re.search(r"pub\s+enum\s+InstructionType\s*\{(.*?)\n\}", src, re.S)
    need(m is not None, "%s: enum InstructionType not found" % INSTR)
    variants = re.findall(r"^\s*(\w+)\s*(?:\(([^)]*)\))?\s*,", re.sub(r"//[^\n]*", "", m.group(1)), re.M)
    need(variants == [("Empty", ""), ("PreProcess", "PreProcessInstruction"), ("Script", "ScriptInstruction")],
         "%s: enum InstructionType has variants %s" % (INSTR, variants))


def generate(api, force_stub=False):
    text = HEAD
    common_err = None
    srcs = {}
    try:
        for rel in (INC, PRINT, MOD, PARSER, INSTR):
            srcs[rel] = api.read(rel)
        check_instruction_rs(srcs[INSTR])
    except Exception as e:  # noqa: BLE001
        common_err = str(e)
    text += "Definition gen_include_understood : bool := true.\n"
    for rust, flag, build, stub in FUNCTIONS:
        try:
            if force_stub:
                raise Rs2vError("translation rejected: %s" % force_stub)
            if common_err:
                raise Rs2vError(common_err)
            body = build(srcs)
            text += "Definition %s : bool := true.\n%s" % (flag, body)
        except Exception as e:  # noqa: BLE001  anything unexpected means: not understood (never a crash, never a guess)
            why = (type(e).__name__ + ": " if not isinstance(e, Rs2vError) else "") + str(e).replace("*)", "* )").replace("(*", "( *")
            text += "(* NOT UNDERSTOOD %s: %s *)\nDefinition %s : bool := false.\n%s" % (rust, why, flag, stub)
    api.emit("GenIncludeFn.v", text, "%s (fn run), %s (fn run), %s (fn parse_file, parse_text_with_source_file, parse_text) by lib/rs2v.py"
             % (INC, MOD, PARSER))
