"""c20_gen — regenerate coq/generated/GenCli.v from duckscript_cli/src/main.rs and linter.rs.

Read mechanically from the source (never guessed; GenError when the shape is not understood):
  * the literals compared with `args[1]` in `run_cli`, in source order            -> gen_cli_flags
  * the literal of the `args.len() < N` test that selects the REPL                  -> gen_cli_min_args
  * the status passed to `exit(..)` in the `Err` arm of `main`                      -> gen_cli_err_status
  * the order of the three `is_lower_case(script_instruction.<field>...)` tests in
    `lint_instruction`                                                              -> gen_lint_order
"""
import re


def generate(api):
    # When the table cannot be read any more the previous GenCli.v stays in place (on a fresh checkout: the table of the
    # unchanged tree) and the failure is reported through .cache/gen_status.json: run_cli / main / the linter are ALSO tied
    # by translation (lib/gen/cli_gen.py, props/SrcCli.v), and Check.source_tie("cli") decides whether that tie stands in
    # for this table (a NOTE) or whether the obligation is broken.  A stub with exit status 0 would make the model wrong.
    _generate(api)


def _generate(api):
    rel = "duckscript_cli/src/main.rs"
    src = api.read(rel)
    run_cli = api.fn_body(src, "run_cli", rel)
    flags = re.findall(r'args\[1\]\s*==\s*"((?:[^"\\]|\\.)*)"', run_cli)
    if not flags:
        raise api.GenError("%s: run_cli: no `args[1] == \"...\"` comparisons found" % rel)
    if re.search(r'args\[[^1]\]\s*==', run_cli) or re.search(r'args\[1\]\s*!=', run_cli) or "starts_with" in run_cli:
        raise api.GenError("%s: run_cli: argument tests of an unknown shape" % rel)
    m = re.search(r"args\.len\(\)\s*<\s*(\d+)", run_cli)
    if not m:
        raise api.GenError("%s: run_cli: `args.len() < N` not found" % rel)
    min_args = int(m.group(1))
    main = api.fn_body(src, "main", rel)
    if "Err(" not in main or "run_cli()" not in main:
        raise api.GenError("%s: main: an Err(..) test of run_cli() not found" % rel)
    ex = re.findall(r"\bexit\s*\(\s*(-?\d+)\s*\)", main)
    if len(ex) != 1 or len(re.findall(r"\bexit\s*\(", src)) != 1:
        raise api.GenError("%s: expected exactly one exit(<literal>), in main" % rel)
    status = int(ex[0]) & 0xFF
    rel2 = "duckscript_cli/src/linter.rs"
    lint = api.fn_body(api.read(rel2), "lint_instruction", rel2)
    order = re.findall(r"is_lower_case\(\s*script_instruction\.(\w+)", lint)
    if sorted(order) != ["command", "label", "output"]:
        raise api.GenError("%s: lint_instruction: expected one test each of label, command, output; got %s" % (rel2, order))
    api.emit("GenCli.v",
             "Definition gen_cli_understood : bool := true.\n"
             "Definition gen_cli_flags : list str := %s.\n"
             "Definition gen_cli_min_args : N := %d.\n"
             "Definition gen_cli_err_status : N := %d.\n"
             "Definition gen_lint_order : list str := %s.\n"
             % (api.coq_list([api.rust_str(f) for f in flags]), min_args, status, api.coq_list(order)),
             rel + ", " + rel2)
