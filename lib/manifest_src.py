"""Source of MANIFEST.json (bin/mkmanifest writes it)."""
PARTIAL = "partial"
CHECKS = {
 "C06": dict(
  text="Machine-checked proof (Coq) that the model of is_true / eval_condition_for_slice computes the and-of-ors semantics on every well-formed condition statement (any length, any nesting, any atom strings) and terminates with a verdict on every token list; the falsy table is regenerated from condition.rs on every run and re-proved equal to the documented one; the model is tied to the code by a correspondence run of the extracted model against not/if/elseif/while on an exhaustive small scope plus random trees.",
  note="Trusted: Coq kernel + vm_compute, extraction (ExtrOcamlBasic), the regex table extractor, the harness. The hand-written model is validated, not proved, against the Rust code (exhaustive to length 4-7, random beyond). Lower-casing is ASCII in the model; the fact that this is equivalent for the falsy literals is checked for all scalar values each run.",
  technique="Coq proof of an executable model (induction with a state invariant) + regenerated table lemma + extracted-model/implementation differential correspondence",
  ref="7/C06"),
}
NOT_YET = {}
