"""Source of MANIFEST.json (bin/mkmanifest writes it)."""
PARTIAL = "partial"
CHECKS = {
 "C06": dict(
  text="Machine-checked proof (Coq) that the model of is_true / eval_condition_for_slice computes the and-of-ors semantics on every well-formed condition statement (any length, any nesting, any atom strings) and terminates with a verdict on every token list; the falsy table is regenerated from condition.rs on every run and re-proved equal to the documented one; the model is tied to the code by a correspondence run of the extracted model against not/if/elseif/while on an exhaustive small scope plus random trees.",
  note="Trusted: Coq kernel + vm_compute, extraction (ExtrOcamlBasic), the regex table extractor, the harness. The hand-written model is validated, not proved, against the Rust code (exhaustive to length 4-7, random beyond). Lower-casing is ASCII in the model; the fact that this is equivalent for the falsy literals is checked for all scalar values each run.",
  technique="Coq proof of an executable model (induction with a state invariant) + regenerated table lemma + extracted-model/implementation differential correspondence",
  ref="7/C06"),
 "C07": dict(
  text="PARTIAL. Proof part: machine-checked totality / no-panic theorems for the modelled fragment (listed in evidence under modelled_and_proved; it grows as the other properties' models land). The remainder of the library (~200 commands) is NOT modelled: it is covered by a supporting exploration (arbitrary text at parser level, random straight-line command sequences with typed argument pools, every shard in a child process under a watchdog and an address-space limit so that panics, aborts and hangs are observed). The exploration is testing and never stands in for a theorem. Open findings F8, F12, F13, F17 are re-run as witnesses on every check and printed as KNOWN-FINDING; exactly their classes are excluded from generation.",
  note="Trusted: Coq kernel for the theorems; for the exploration the harness, the process isolation and the generator. Memory, stack and thread behaviour are the runtime's and are not modelled. Commands that block, leave the process, need the network or write/delete files are excluded (list in evidence).",
  technique="Coq totality theorems for modelled commands + process-isolated differential exploration (testing) for the unmodelled library; known-finding witnesses",
  ref="7/C07"),
 "C17": dict(
  text="Machine-checked proofs (Coq) of the base64, UTF-8 and hexadecimal round trips for ALL byte strings, ALL texts of Unicode scalar values and ALL u64 values, on arithmetic models of the base64 crate's STANDARD engine (strict decoder), of String::into_bytes / str::from_utf8 and of u64 parse / {:#x} / trim_start_matches + from_str_radix, including the composition text -> bytes -> base64 -> bytes -> text and the two hex commands. The models are tied to the real crates on every run by running the extracted model against the commands: encoders AND strict decoders on exhaustive small scopes (all byte strings of length <= 2, all 1/2-byte UTF-8 candidates, boundary bytes to length 3-4, every scalar value in thorough) and random / malformed input. PARTIAL: the JSON (serde_json + collection glue) and properties (java-properties + glue) round trips are NOT modelled; they are explored against the property's own oracle (normalised document, same keys/values) as testing. Known finding F18 (properties writer) is reported and exactly its class excluded.",
  note="Trusted: Coq kernel, extraction, harness. The codec models are models of library functions (validated, not verified). JSON and properties parts are exploration only and say so in evidence (not_modelled). Float rendering is serde_json's.",
  technique="Coq round-trip proofs on arithmetic codec models + extracted-model/implementation differential correspondence; oracle-based exploration for JSON/properties",
  ref="7/C17, 14"),
}
NOT_YET = {}
