"""vlib — shared machinery of the per-property checks (see DESIGN.md §3, §9).

A property module (lib/props/cXX.py) defines `run(ck)`; `ck` is a Check object giving it
  * builds tied to /repo's current working tree (regenerated tables, Coq, extraction, harness),
  * proof-obligation bookkeeping (Print Assumptions against an allow-list),
  * sharded execution of the extracted model and of the Rust harness on the same case lines,
  * the violation / known-finding / evidence protocol.
"""
import hashlib
import json
import os
import random
import re
import subprocess
import sys
import time
from concurrent.futures import ThreadPoolExecutor

ROOT = os.path.dirname(os.path.dirname(os.path.abspath(__file__)))
REPO = os.environ.get("VERIF_REPO", "/repo")
CACHE = os.path.join(ROOT, ".cache")
CARGO_TARGET = os.path.join(CACHE, "cargo-target")
NPROC = 16

ALLOWED_AXIOMS = {
    # axioms declared by the standard library that a theorem may depend on; each use is reported
    "functional_extensionality_dep", "JMeq_eq", "Eq_rect_eq.eq_rect_eq", "proof_irrelevance",
    "classic", "propositional_extensionality",
}


def sh(cmd, timeout=None, cwd=None, env=None, input=None):
    e = dict(os.environ)
    e.update({"CARGO_NET_OFFLINE": "true", "CARGO_TARGET_DIR": CARGO_TARGET})
    if env:
        e.update(env)
    e["VERIF_REPO"] = REPO
    try:
        p = subprocess.run(cmd, shell=isinstance(cmd, str), cwd=cwd or ROOT, env=e, input=input,
                           stdout=subprocess.PIPE, stderr=subprocess.STDOUT, timeout=timeout,
                           text=True, errors="replace")
        return p.returncode, p.stdout
    except subprocess.TimeoutExpired as ex:
        out = ex.stdout if isinstance(ex.stdout, str) else (ex.stdout or b"").decode("utf8", "replace")
        return 124, out + "\n[timeout]"


def _child_limits():
    """no child process of a check may take the machine down: 8 GB address space, no core files"""
    import resource
    resource.setrlimit(resource.RLIMIT_AS, (8 << 30, 8 << 30))
    resource.setrlimit(resource.RLIMIT_CORE, (0, 0))


# ------------------------------------------------------------------------------------------------
# wire format
def enc_str(s):
    if s == "":
        return "e"
    return ".".join(str(ord(c)) for c in s)


def dec_str(f):
    if f == "e":
        return ""
    return "".join(chr(int(x)) for x in f.split("."))


def enc_list(l):
    if not l:
        return "-"
    return " ".join(enc_str(s) for s in l)


def dec_list(f):
    if f == "-":
        return []
    return [dec_str(x) for x in f.split(" ")]


# ------------------------------------------------------------------------------------------------
class Broken(Exception):
    """a proof obligation or a build step of the formal side no longer checks"""


class Check:
    def __init__(self, prop, tier, seed, replay=None):
        self.prop = prop
        self.tier = tier
        self.seed = seed
        self.replay = replay
        self.rng = random.Random(seed)
        self.t0 = time.time()
        self.violations = []          # (replay_path, suffix)
        self.known_seen = []          # text
        self.broken = []              # names of broken obligations
        self.obligations = []         # names
        self.discharged = []          # names
        self.axioms_used = {}
        self.coverage = {}
        self.assumptions = []
        self.trusted = [
            "Coq 8.16.1 kernel and vm_compute (no native_compute)",
            "extraction with ExtrOcamlBasic only (no Extract Constant / Extract Inductive of our own), OCaml 4.13.1, ocaml/conv.ml and the per-property driver",
            "lib/gen_from_source.py (regex extractor of tables from /repo)",
            "the Rust harness, the Python generators / canonicaliser / comparer",
            "the hand-written correspondence between Rust functions and model functions, sampled by the correspondence run, not proved",
        ]
        self.known_db = load_known()
        os.makedirs(os.path.join(ROOT, "evidence"), exist_ok=True)
        os.makedirs(CACHE, exist_ok=True)

    # ---- builds --------------------------------------------------------------------------------
    # which properties consume which TABLE generator (a generator that no longer understands its part of the source concerns
    # only these checks; the translated-function clients report through source_tie instead)
    GEN_CONSUMERS = {
        "gen_truth": ("C06",), "c04_gen": ("C04", "C05"), "c05_gen": ("C05",), "c11_gen": ("C11",),
        "c12_gen": ("C12", "C07"), "c19_gen": ("C19",), "c20_gen": ("C20",),
    }

    def gen_from_source(self):
        rc, out = sh([sys.executable, os.path.join(ROOT, "lib", "gen_from_source.py")], timeout=900)
        if rc != 0:
            self.broken.append("gen_from_source: " + out.strip().splitlines()[-1] if out.strip() else "gen_from_source")
            return False
        try:
            status = json.load(open(os.path.join(CACHE, "gen_status.json")))
        except (OSError, ValueError):
            status = {}
        ok = True
        self.truth_table_failed = None
        self.table_failed = {}          # tie key -> (generator, message, table theorems) awaiting the stand-in tie
        for gen, msg in sorted(status.items()):
            users = self.GEN_CONSUMERS.get(gen)
            if users is None:
                # a translated-function client that crashed / could not be imported: its tie is reported inactive
                self.coverage.setdefault("generator_notes", {})[gen] = msg
                continue
            if self.prop not in users:
                continue
            if gen == "gen_truth":
                # is_true is ALSO tied by translation (source_tie("cond")); decided there
                self.truth_table_failed = msg
                continue
            if gen in ("c04_gen", "c05_gen"):
                # the flow-control keyword tables: ALSO tied function by function (flowif / flowwhile / flowfor / flowfn translate
                # create_*_meta_info_for_line and FunctionCommand::run, which build the lists handed to find_commands) and
                # compared with the live registry on every run; decided by Check.flow_tables_standin after those ties ran
                self.flow_table_failed = getattr(self, "flow_table_failed", []) + [(gen, msg)]
                continue
            if gen == "c20_gen":
                # run_cli / main / linter are ALSO tied by translation (source_tie("cli")); decided there
                self.table_failed["cli"] = (gen, msg, ["DSP.C20.C20_tables", "DSP.C20.C20_exit_source"])
                continue
            ok = False
            self.broken.append("regenerated table (%s): %s" % (gen, msg))
        return ok

    def coq_build(self, targets, timeout=1500):
        """make the given .vo targets (full build).  Returns (ok, log)."""
        rc, out = sh(["./build.sh", "-k"] + targets, cwd=os.path.join(ROOT, "coq"), timeout=timeout + 60,
                     env={"COQ_TIMEOUT": str(timeout)})
        self.coq_log = out
        if rc != 0:
            failed = re.findall(r'File "\./([^"]+)", line (\d+)', out)
            names = sorted(set("%s:%s" % f for f in failed)) or ["coq build (rc=%d)" % rc]
            for n in names:
                self.broken.append("coq: " + n)
        return rc == 0, out

    def ocaml_build(self):
        rc, out = sh(["./build.sh", self.prop], cwd=os.path.join(ROOT, "ocaml"), timeout=600)
        if rc != 0:
            self.broken.append("ocaml build: " + out[-300:])
        return rc == 0

    def harness_build(self, bins=None):
        """build the harness against /repo's current working tree"""
        hdir = os.path.join(ROOT, "harness")
        lock = os.path.join(hdir, "Cargo.lock")
        try:
            src = open(os.path.join(REPO, "Cargo.lock")).read()
            if not os.path.exists(lock) or open(lock).read() != src:
                # keep our own resolved lock when it already covers the repo's (cargo adds dsverif)
                if not os.path.exists(lock):
                    open(lock, "w").write(src)
        except OSError:
            pass
        cmd = "flock %s/cargo.lock cargo build --offline --release" % CACHE
        if bins:
            cmd += "".join(" --bin %s" % b for b in bins)
        rc, out = sh(cmd, cwd=hdir, timeout=1800, env={"RUSTFLAGS": "--cfg duckscript_verif"})
        if rc != 0:
            # the tie to the code cannot be established on this tree (the repository does not compile, or its public API
            # changed under the harness): the property is not shown to hold - reported in the prescribed form
            print(out[-3000:])
            print("ERROR: harness does not build against /repo's current tree")
            self.broken.append("harness does not build against the current tree: " + " ".join(out.strip().splitlines()[-6:])[-400:])
            self.violation({"property": self.prop, "kind": "the correspondence harness does not build against /repo's current tree",
                            "cargo_output_tail": out[-3000:], "broken_obligations": self.broken}, "no-failing-input-found")
            self.finish()
        return True

    def print_assumptions(self, requires, names):
        """returns {name: 'closed' | [axioms]}; registers obligations.  One coqc run per required module, so that a
        module that no longer builds only loses its own theorems."""
        tmpd = os.path.join(CACHE, "pa")
        os.makedirs(tmpd, exist_ok=True)
        groups = {}
        for n in names:
            mod = ".".join(n.split(".")[:2]) if n.count(".") >= 2 else (requires[0] if requires else "")
            groups.setdefault(mod, []).append(n)
        res = {}

        def one(item):
            mod, ns = item
            fn = os.path.join(tmpd, "PA_%s_%s.v" % (self.prop, mod.replace(".", "_")))
            with open(fn, "w") as f:
                reqs = [mod] if mod in requires or not requires else list(requires)
                if mod and mod not in reqs:
                    reqs.append(mod)
                for r in reqs:
                    f.write("Require %s.\n" % r)
                for n in ns:
                    f.write('Goal True. idtac "@@BEGIN %s". Abort.\nPrint Assumptions %s.\n' % (n, n))
                f.write('Goal True. idtac "@@END". Abort.\n')
            # A run that was cut short from outside (killed, out of memory, time-out on an overloaded machine) prints
            # neither the end marker nor a Coq error: that says nothing about the theorems, so it is repeated (a module
            # that really no longer loads answers with "Error" at once, every time).
            for attempt in range(4):
                rc, out = sh(["coqc", "-Q", "theories", "DS", "-Q", "generated", "DSG", "-Q", "props", "DSP",
                              "-Q", tmpd, "PA", fn], cwd=os.path.join(ROOT, "coq"), timeout=900)
                if "@@END" in out or re.search(r"^Error", out, re.M):
                    break
                time.sleep(3 * (attempt + 1))
            r = {}
            chunks = re.split(r"@@BEGIN (\S+)\n", out)
            for i in range(1, len(chunks) - 1, 2):
                name, body = chunks[i], chunks[i + 1].split("@@END")[0]
                if "Closed under the global context" in body:
                    r[name] = "closed"
                else:
                    ax = re.findall(r"^(\S+)\s*:", body, re.M)
                    r[name] = ax if ax else ["?unparsed: " + body.strip()[:200]]
            return r
        with ThreadPoolExecutor(max_workers=8) as ex:
            for r in ex.map(one, groups.items()):
                res.update(r)
        for n in names:
            self.obligations.append(n)
            r = res.get(n)
            if r == "closed":
                self.discharged.append(n)
            elif r and all(a.split(".")[-1] in ALLOWED_AXIOMS or a in ALLOWED_AXIOMS for a in r) and not any(a.startswith("?") for a in r):
                self.discharged.append(n)
                self.axioms_used[n] = r
            else:
                self.broken.append("theorem %s: %s" % (n, "not checked" if r is None else "assumes %s" % r))
        return res

    SRC_TIES = {
        "parser": ("GenParserFn.v", "gen_pnv_understood", "props/SrcParser.vo", "DSP.SrcParser",
                   ["Src_parser_body", "Src_parser_parse_next_value"],
                   "duckscript/src/parser.rs::parse_next_value"),
        "expand": ("GenExpandFn.v", "gen_expand_understood", "props/SrcExpand.vo", "DSP.SrcExpand",
                   ["Src_expand_step", "Src_expand_by_wrapper"],
                   "duckscript/src/expansion.rs::{should_break_key, push_prefix, expand_by_wrapper}"),
    }

    def source_tie(self, which):
        """Translation tie (lib/rs2v.py): the hand-written model function is proved EQUAL to the Gallina translation of
        the current Rust source, regenerated on this run.  When the translator does not understand the source any more
        the tie is reported inactive (the correspondence run remains the tie) — that alone is not an alarm."""
        gen, flag, target, mod, thms, what = self.SRC_TIES[which]
        try:
            text = open(os.path.join(ROOT, "coq", "generated", gen)).read()
        except OSError:
            text = ""
        understood = re.search(r"Definition %s : bool := true\." % flag, text) is not None
        info = self.coverage.setdefault("source_translation", {})
        if not understood:
            m = re.search(r"\(\* NOT UNDERSTOOD: (.*?) \*\)", text, re.S)
            why = m.group(1) if m else "generated file missing"
            info[which] = {"function": what, "active": False, "reason": why}
            print("NOTE: property=%s translation tie for %s is inactive on this tree (translator: %s); "
                  "the correspondence run is the only tie for it in this run" % (self.prop, what, why), flush=True)
            if which == "cond" and getattr(self, "truth_table_failed", None):
                self.broken.append("regenerated table (gen_truth): %s (and the translator does not understand is_true either)" % self.truth_table_failed)
                self.truth_table_failed = None
            # the props file still builds against the stub (its theorems are stated under `understood = true`), and other
            # functions tied in the same file (per-function flags) are still checked
            if which in getattr(Check, "SRC_TIES_PARTIAL", ()):
                ok, _ = self.coq_build([target])
                if ok:
                    rest = [t for t in thms if t not in getattr(Check, "SRC_TIES_BASE", {}).get(which, thms)]
                    if rest:
                        self.print_assumptions([mod], ["%s.%s" % (mod, t) for t in rest])
            return False
        ok, _ = self.coq_build([target])
        if ok:
            self.print_assumptions([mod], ["%s.%s" % (mod, t) for t in thms])
        else:
            for t in thms:
                self.obligations.append("%s.%s" % (mod, t))
        info[which] = {"function": what, "active": True, "theorems": thms,
                       "meaning": "the model function equals the mechanical translation of the current source for all inputs"}
        if which == "cond" and getattr(self, "truth_table_failed", None):
            if ok and not any(("Src_cond" in b) for b in self.broken):
                print("NOTE: property=%s the regex extractor of the truthiness TABLE does not understand is_true any more (%s); "
                      "the function-level translation tie (Src_cond_is_true_rule) holds on this tree and stands in for it"
                      % (self.prop, self.truth_table_failed), flush=True)
                info["truth_table"] = {"active": False, "reason": self.truth_table_failed, "replaced_by": "Src_cond_is_true_rule"}
                names = ["DSP.C06.C06_tables"]
                self.obligations[:] = [o for o in self.obligations if o not in names]
                self.discharged[:] = [o for o in self.discharged if o not in names]
            else:
                self.broken.append("regenerated table (gen_truth): %s" % self.truth_table_failed)
            self.truth_table_failed = None
        return ok

    def coqchk(self, timeout=1500):
        """thorough tier: re-check props/Cxx.vo and everything it depends on with the independent checker and
        record the axioms it reports"""
        # every props module a theorem of this check lives in (C07 collects theorems from several; Src* ties)
        mods = sorted({".".join(o.split(".")[:2]) for o in self.obligations if o.startswith("DSP.") and o.count(".") >= 2})
        mods = [m for m in mods if os.path.exists(os.path.join(ROOT, "coq", "props", m.split(".")[1] + ".vo"))]
        if not mods:
            mods = ["DSP.%s" % self.prop]
        rc, out = sh(["coqchk", "-o", "-silent", "-Q", "theories", "DS", "-Q", "generated", "DSG", "-Q", "props", "DSP"] + mods,
                     cwd=os.path.join(ROOT, "coq"), timeout=timeout)
        self.obligations.append("coqchk: independent re-check of %s and their dependencies" % ", ".join(mods))
        m = re.search(r"\* Axioms:(.*?)\n\s*\n\* Constants", out, re.S)
        axioms = [a.strip() for a in (m.group(1).split("\n") if m else []) if a.strip() and a.strip() != "<none>"]
        self.coverage["coqchk"] = {"rc": rc, "axioms": axioms or "<none>"}
        bad = [a for a in axioms if a.split(".")[-1] not in ALLOWED_AXIOMS]
        if rc == 0 and m and not bad and "type-in-type: <none>" in out and "positivity is assumed: <none>" in out:
            self.discharged.append("coqchk")
        else:
            self.broken.append("coqchk: rc=%s axioms=%s %s" % (rc, axioms, out[-300:] if rc else ""))

    def hygiene(self):
        """no Admitted / admit / Axiom / Parameter / ... anywhere in the development"""
        rc, out = sh(r"grep -rnE '\b(Admitted|admit|Axiom|Axioms|Parameter|Parameters|Conjecture|Hypothesis|Variable|Abort All)\b|Unset Guard|bypass_check|type-in-type|impredicative-set|Admit Obligations' "
                     r"coq/theories coq/props coq/extract coq/generated --include=*.v || true")
        bad = []
        for line in out.splitlines():
            m = re.match(r"([^:]+):(\d+):(.*)", line)
            if not m:
                continue
            txt = m.group(3)
            if re.search(r"\b(Variable|Variables|Hypothesis|Hypotheses)\b", txt) and not re.search(r"Admitted|admit|Axiom|Parameter|Conjecture", txt):
                continue  # Section variables are checked separately (must be inside a Section)
            if re.match(r"\s*\(\*.*\*\)\s*$", txt):
                continue
            bad.append(line)
        self.obligations.append("hygiene: no Admitted/admit/Axiom/Parameter/Conjecture, no disabled checks")
        if bad:
            self.broken.append("hygiene: " + "; ".join(bad[:5]))
        else:
            self.discharged.append("hygiene")
        return not bad

    # ---- running both sides ---------------------------------------------------------------------
    def _run_sharded(self, argv, lines, timeout, stall=None):
        """run [argv] on the case lines, sharded.  One output line per input line.  A process that dies is restarted behind the
        line it died on (that line answers `DIED rc=..`).  With [stall] (implementation side): a process that produces no output
        line for [stall] seconds is hung ON THE LINE IT IS WORKING ON: it is killed, that line answers `HANG`, and the rest of the
        shard is run in a fresh process - so a non-terminating implementation yields a located mismatch, not a dead check."""
        if not lines:
            return []
        n = min(NPROC, max(1, len(lines) // 200))
        shards = [lines[i::n] for i in range(n)]
        deadline = time.time() + timeout

        def run_once(sh_lines):
            """-> (outputs received in order, status) with status 'ok' | 'died rc' | 'hang'"""
            import queue
            import threading
            p = subprocess.Popen(argv, stdin=subprocess.PIPE, stdout=subprocess.PIPE, stderr=subprocess.DEVNULL, text=True,
                                 errors="replace", preexec_fn=_child_limits)
            data = "\n".join(sh_lines) + "\n"

            def feed():
                try:
                    p.stdin.write(data)
                    p.stdin.close()
                except (BrokenPipeError, OSError, ValueError):
                    pass
            q = queue.Queue()

            def drain():
                try:
                    for l in p.stdout:
                        q.put(l.rstrip("\n"))
                except (OSError, ValueError):
                    pass
                q.put(None)
            threading.Thread(target=feed, daemon=True).start()
            threading.Thread(target=drain, daemon=True).start()
            got = []
            status = "ok"
            while len(got) < len(sh_lines):
                wait = stall if stall else max(1.0, deadline - time.time())
                if time.time() > deadline:
                    status = "hang"
                    break
                try:
                    l = q.get(timeout=wait)
                except queue.Empty:
                    status = "hang"
                    break
                if l is None:
                    p.wait()
                    status = "died %s" % p.returncode
                    break
                got.append(l)
            if status == "hang" or p.poll() is None:
                try:
                    p.kill()
                except OSError:
                    pass
            try:
                p.wait(timeout=10)
            except subprocess.TimeoutExpired:
                pass
            if status == "ok" and len(got) < len(sh_lines):
                status = "died %s" % p.returncode
            return got, status

        def one(sh_lines):
            outs, remaining, restarts = [], list(sh_lines), 0
            while remaining:
                got, status = run_once(remaining)
                outs += got[:len(remaining)]
                if len(got) >= len(remaining):
                    break
                mark = "HANG" if status == "hang" else "DIED rc=%s" % status.split(" ")[-1]
                outs.append(mark)
                remaining = remaining[len(got) + 1:]
                restarts += 1
                if restarts > 8 or time.time() > deadline:
                    outs += [mark] * len(remaining)
                    break
            return outs
        with ThreadPoolExecutor(max_workers=n) as ex:
            outs = list(ex.map(one, shards))
        res = [None] * len(lines)
        for k, o in enumerate(outs):
            res[k::n] = o
        return res

    def model(self, lines, timeout=1200):
        exe = os.path.join(ROOT, "ocaml", "bin", "%s_model" % self.prop.lower())
        return self._run_sharded([exe], lines, timeout)

    def impl(self, lines, binname=None, timeout=1200, args=()):
        exe = os.path.join(CARGO_TARGET, "release", binname or self.prop.lower())
        return self._run_sharded([exe] + list(args), lines, timeout, stall=float(os.environ.get("VERIF_STALL", "90")))

    # ---- protocol --------------------------------------------------------------------------------
    def violation(self, replay, suffix=""):
        d = os.path.join(ROOT, "replays", self.prop)
        os.makedirs(d, exist_ok=True)
        blob = json.dumps(replay, sort_keys=True, ensure_ascii=False, indent=1)
        h = hashlib.sha1(blob.encode("utf8", "surrogatepass")).hexdigest()[:12]
        path = os.path.join(d, "%s.json" % h)
        with open(path, "w", encoding="utf8", errors="surrogatepass") as f:
            f.write(blob)
        self.violations.append((path, suffix))
        line = "VIOLATION property=%s replay=%s" % (self.prop, path)
        if suffix:
            line += " " + suffix
        print(line, flush=True)

    def known(self, text):
        if text not in self.known_seen:
            self.known_seen.append(text)
            print("KNOWN-FINDING: property=%s %s" % (self.prop, text), flush=True)

    def open_findings(self):
        return [k for k in self.known_db if k.get("property") == self.prop and k.get("status") == "open"]

    def finish(self, level="proof", **cov):
        coverage = dict(self.coverage)
        coverage.update(cov)
        coverage.setdefault("obligations", len(self.obligations))
        coverage.setdefault("discharged", len(self.discharged))
        coverage.setdefault("checker_cmd", "cd /verif/coq && ./build.sh props/%s.vo (coq_makefile + make, full .vo) ; coqc Print Assumptions per theorem" % self.prop)
        coverage.setdefault("trusted_base", self.trusted)
        coverage["obligation_names"] = self.obligations
        coverage["broken_obligations"] = self.broken
        coverage["axioms_used"] = self.axioms_used
        coverage["known_findings_seen"] = self.known_seen
        ev = {
            "property_id": self.prop, "tier": self.tier, "seed": self.seed, "level": level,
            "coverage": coverage, "assumptions": self.assumptions,
            "wall_s": round(time.time() - self.t0, 2), "violations": len(self.violations),
        }
        with open(os.path.join(ROOT, "evidence", "%s.json" % self.prop), "w") as f:
            json.dump(ev, f, indent=1, ensure_ascii=True)
        if self.violations:
            sys.exit(1)
        print("OK property=%s tier=%s obligations=%d/%d evaluations=%s wall=%.1fs" % (
            self.prop, self.tier, len(self.discharged), len(self.obligations),
            coverage.get("evaluations"), time.time() - self.t0))
        sys.exit(0)

    def report_broken(self, directed_found):
        """A proof obligation broke and the directed search found no failing input."""
        if self.broken and not directed_found:
            self.violation({"property": self.prop, "broken_obligations": self.broken,
                            "note": "a proof obligation or the model build no longer checks against /repo's "
                                    "current tree; the directed search found no failing input",
                            "coq_log_tail": getattr(self, "coq_log", "")[-2000:]},
                           "no-failing-input-found")


def load_known():
    p = os.path.join(ROOT, "known_findings.json")
    if not os.path.exists(p):
        return []
    return json.load(open(p))["findings"]


def compare(ck, cases, model_out, impl_out, canon_m=lambda x: x, canon_i=lambda x: x):
    """generic line-wise comparison; returns list of indices that disagree"""
    bad = []
    for k, (m, i) in enumerate(zip(model_out, impl_out)):
        if canon_m(m) != canon_i(i):
            bad.append(k)
    return bad


def generic_replay(ck, mod, data):
    """re-run the single case of a replay file on both sides (needs a "wire" line in the file);
    exit status 1 when they still disagree (by the module's `agree(model_line, impl_line)` if it
    defines one, else by equality)"""
    print(json.dumps({k: v for k, v in data.items() if k != "coq_log_tail"}, indent=1, ensure_ascii=False)[:3000])
    wire = data.get("wire")
    if wire is None:
        print("replay: this file names a broken obligation, not an input; re-run the check itself")
        return 1
    ck.ocaml_build()
    ck.harness_build([ck.prop.lower()])
    m = ck.model([wire])[0]
    i = ck.impl([wire])[0]
    print("model:          " + m)
    print("implementation: " + i)
    same = mod.agree(m, i) if hasattr(mod, "agree") else (m == i)
    print("REPLAY: " + ("agree now" if same else "still disagree"))
    return 0 if same else 1


# --- appended (builder B9): translation ties for `impl Commands` (C15) and `is_true` (C06); see lib/gen/registry_gen.py,
# lib/gen/cond_gen.py, coq/theories/RegistryGenTie.v, coq/theories/CondGenTie.v
Check.SRC_TIES.update({
    "registry": ("GenRegistryFn.v", "gen_registry_understood", "props/SrcRegistry.vo", "DSP.SrcRegistry",
                 ["Src_registry_set", "Src_registry_set_res", "Src_registry_get", "Src_registry_exists",
                  "Src_registry_get_for_use", "Src_registry_names", "Src_registry_remove"],
                 "duckscript/src/types/command.rs::Commands::{set, get, exists, get_for_use, get_all_command_names, remove}"),
    "cond": ("GenCondFn.v", "gen_cond_understood", "props/SrcCond.vo", "DSP.SrcCond",
             ["Src_cond_is_true", "Src_cond_is_true_rule"],
             "duckscript_sdk/src/utils/condition.rs::is_true"),
})


# --- appended (builder B8): the REST of duckscript/src/parser.rs is translated too (lib/gen/parser_gen.py ->
# coq/generated/GenParserRest.v, proofs coq/theories/ParserGenTie2.v, wrappers appended to coq/props/SrcParser.v).
# The theorem names join SRC_TIES["parser"].  Every function has its OWN flag in GenParserRest.v: a function the
# translator does not understand any more gets a stub, its theorem (stated under `flag = true`) holds vacuously, and
# source_tie("parser") then reports exactly that function's tie as inactive (NOTE + evidence) and does not count its
# theorem as a discharged obligation.  Nothing else of source_tie changes.
PARSER_REST_TIES = [
    ("gen_parse_next_argument_understood", "parse_next_argument", ["Src_parser_parse_next_argument"]),
    ("gen_parse_arguments_with_options_understood", "parse_arguments_with_options", ["Src_parser_parse_arguments_with_options"]),
    ("gen_parse_arguments_understood", "parse_arguments", ["Src_parser_parse_arguments"]),
    ("gen_reparse_arguments_understood", "reparse_arguments", ["Src_parser_reparse_arguments"]),
    ("gen_find_label_understood", "find_label", ["Src_parser_find_label"]),
    ("gen_find_output_and_command_understood", "find_output_and_command",
     ["Src_parser_find_output_and_command_ins", "Src_parser_find_output_and_command"]),
    ("gen_parse_pre_process_line_understood", "parse_pre_process_line", ["Src_parser_parse_pre_process_line"]),
    ("gen_parse_command_line_understood", "parse_command_line", ["Src_parser_parse_command_line"]),
    ("gen_parse_line_understood", "parse_line", ["Src_parser_parse_line"]),
    ("gen_parse_lines_understood", "parse_lines", ["Src_parser_parse_lines"]),
]
Check.SRC_TIES_BASE = {"parser": list(Check.SRC_TIES["parser"][4])}
Check.SRC_TIES_PARTIAL = ("parser",)
Check.SRC_TIES["parser"][4].extend(t for _f, _r, _ts in PARSER_REST_TIES for t in _ts)
_source_tie_before_parser_rest = Check.source_tie


def _source_tie_with_parser_rest(self, which):
    ok = _source_tie_before_parser_rest(self, which)
    if which != "parser":
        return ok
    try:
        text = open(os.path.join(ROOT, "coq", "generated", "GenParserRest.v")).read()
    except OSError:
        text = ""
    info = self.coverage.setdefault("source_translation", {})
    base_active = bool(info.get("parser", {}).get("active"))
    rest = {}
    for flag, fn, thms in PARSER_REST_TIES:
        what = "duckscript/src/parser.rs::%s" % fn
        understood = re.search(r"Definition %s : bool := true\." % flag, text) is not None
        if understood:
            rest[fn] = {"active": True, "theorems": thms}
            continue
        if False:
            why = ""
        else:
            m = re.search(r"\(\* NOT UNDERSTOOD %s: (.*?) \*\)" % re.escape(fn), text, re.S)
            why = m.group(1) if m else "generated file missing"
        rest[fn] = {"active": False, "reason": why}
        names = ["DSP.SrcParser.%s" % t for t in thms]
        self.obligations[:] = [o for o in self.obligations if o not in names]
        self.discharged[:] = [o for o in self.discharged if o not in names]
        if isinstance(info.get("parser", {}).get("theorems"), list):
            info["parser"]["theorems"] = [t for t in info["parser"]["theorems"] if t not in thms]
        print("NOTE: property=%s translation tie for %s is inactive on this tree (translator: %s); "
              "the correspondence run is the only tie for it in this run" % (self.prop, what, why), flush=True)
    info["parser_rest"] = {"file": "coq/generated/GenParserRest.v", "functions": rest,
                           "meaning": "each listed function of parser.rs: the hand model function equals the mechanical "
                                      "translation of the current source for all inputs (one flag per function)"}
    return ok


Check.source_tie = _source_tie_with_parser_rest


# --- appended (builder B16): translation tie "cli" for C20 — duckscript_cli/src/main.rs and linter.rs (lib/gen/cli_gen.py ->
# coq/generated/GenCliFn.v, proofs coq/theories/CliGenTie.v, wrappers coq/props/SrcCli.v).  Same scheme as PARSER_REST_TIES:
# the tie key's own flag is run_cli's; every other function has its OWN flag in GenCliFn.v, a function the translator does
# not understand any more gets a stub, its theorem (stated under `flag = true`) holds vacuously, and source_tie("cli")
# then reports exactly that function's tie as inactive (NOTE + evidence) and does not count its theorem as discharged.
CLI_REST_TIES = [
    ("gen_is_lower_case_understood", "duckscript_cli/src/linter.rs::is_lower_case", ["Src_cli_is_lower_case"]),
    ("gen_lint_instruction_understood", "duckscript_cli/src/linter.rs::lint_instruction", ["Src_cli_lint_instruction"]),
    ("gen_lint_instructions_understood", "duckscript_cli/src/linter.rs::lint_instructions", ["Src_cli_lint_instructions"]),
    ("gen_lint_file_understood", "duckscript_cli/src/linter.rs::lint_file", ["Src_cli_lint_file"]),
    ("gen_run_script_understood", "duckscript_cli/src/main.rs::run_script", ["Src_cli_run_script"]),
    ("gen_run_repl_understood", "duckscript_cli/src/main.rs::run_repl", ["Src_cli_run_repl"]),
    ("gen_main_understood", "duckscript_cli/src/main.rs::main", ["Src_cli_main"]),
]
Check.SRC_TIES.update({
    "cli": ("GenCliFn.v", "gen_run_cli_understood", "props/SrcCli.vo", "DSP.SrcCli",
            ["Src_cli_dispatch", "Src_cli_run_cli"], "duckscript_cli/src/main.rs::run_cli"),
})
Check.SRC_TIES_BASE = dict(getattr(Check, "SRC_TIES_BASE", {}))
Check.SRC_TIES_BASE["cli"] = list(Check.SRC_TIES["cli"][4])
Check.SRC_TIES_PARTIAL = tuple(getattr(Check, "SRC_TIES_PARTIAL", ())) + ("cli",)
Check.SRC_TIES["cli"][4].extend(t for _f, _w, _ts in CLI_REST_TIES for t in _ts)
_source_tie_before_cli_rest = Check.source_tie


def _source_tie_with_cli_rest(self, which):
    ok = _source_tie_before_cli_rest(self, which)
    if which != "cli":
        return ok
    try:
        text = open(os.path.join(ROOT, "coq", "generated", "GenCliFn.v")).read()
    except OSError:
        text = ""
    info = self.coverage.setdefault("source_translation", {})
    rest = {}
    for flag, what, thms in CLI_REST_TIES:
        fn = what.split("::")[-1]
        if re.search(r"Definition %s : bool := true\." % flag, text) is not None:
            rest[fn] = {"active": True, "theorems": thms}
            continue
        m = re.search(r"\(\* NOT UNDERSTOOD %s: (.*?) \*\)" % re.escape(fn), text, re.S)
        why = m.group(1) if m else "generated file missing"
        rest[fn] = {"active": False, "reason": why}
        names = ["DSP.SrcCli.%s" % t for t in thms]
        self.obligations[:] = [o for o in self.obligations if o not in names]
        self.discharged[:] = [o for o in self.discharged if o not in names]
        if isinstance(info.get("cli", {}).get("theorems"), list):
            info["cli"]["theorems"] = [t for t in info["cli"]["theorems"] if t not in thms]
        print("NOTE: property=%s translation tie for %s is inactive on this tree (translator: %s); "
              "the correspondence run is the only tie for it in this run" % (self.prop, what, why), flush=True)
    info["cli_rest"] = {"file": "coq/generated/GenCliFn.v", "functions": rest,
                        "meaning": "each listed function of duckscript_cli: the hand model function equals the mechanical "
                                   "translation of the current source for all inputs (one flag per function)"}
    return ok


Check.source_tie = _source_tie_with_cli_rest


# --- appended (builder B13): translation ties "alias" (C19) and "scope_clear" (C11) — AliasCommand::run of
# duckscript_sdk/src/types/command.rs and clear of types/scope.rs (lib/gen/alias_gen.py -> coq/generated/GenAliasFn.v, proofs
# coq/theories/AliasGenTie.v, wrappers coq/props/SrcAlias.v).  Two functions, two flags in one generated file:
#   "scope_clear"  flag gen_scope_clear_understood: AliasCmd.keep and Scope.m_cmd (CClearScope) = the translation of `clear`;
#   "alias"        flag gen_alias_run_understood (the generator sets it only when `clear` is understood too, `run` calls it):
#                  AliasCmd.alias_run = the translation of `run`, and the C19 wrapper theorems restated about the translation;
#                  its list also carries Src_alias_clear, which has its OWN flag (same scheme as PARSER_REST_TIES): when `run`
#                  is not understood but `clear` is, that theorem is still checked; when `clear` is not understood it is
#                  reported inactive and not counted as discharged.
Check.SRC_TIES.update({
    "alias": ("GenAliasFn.v", "gen_alias_run_understood", "props/SrcAlias.vo", "DSP.SrcAlias",
              ["Src_alias_run", "Src_alias_no_working_variable", "Src_alias_argument_array_released",
               "Src_alias_caller_variables", "Src_alias_leak_check_never_fires"],
              "duckscript_sdk/src/types/command.rs::AliasCommand::run"),
    "scope_clear": ("GenAliasFn.v", "gen_scope_clear_understood", "props/SrcAlias.vo", "DSP.SrcAlias",
                    ["Src_alias_clear", "Src_scope_clear_c11"], "duckscript_sdk/src/types/scope.rs::clear"),
})
ALIAS_REST_TIES = [("gen_scope_clear_understood", "duckscript_sdk/src/types/scope.rs::clear", ["Src_alias_clear"])]
Check.SRC_TIES_BASE = dict(getattr(Check, "SRC_TIES_BASE", {}))
Check.SRC_TIES_BASE["alias"] = list(Check.SRC_TIES["alias"][4])
Check.SRC_TIES_PARTIAL = tuple(getattr(Check, "SRC_TIES_PARTIAL", ())) + ("alias",)
Check.SRC_TIES["alias"][4].extend(t for _f, _w, _ts in ALIAS_REST_TIES for t in _ts)
_source_tie_before_alias_rest = Check.source_tie


def _source_tie_with_alias_rest(self, which):
    ok = _source_tie_before_alias_rest(self, which)
    if which != "alias":
        return ok
    try:
        text = open(os.path.join(ROOT, "coq", "generated", "GenAliasFn.v")).read()
    except OSError:
        text = ""
    info = self.coverage.setdefault("source_translation", {})
    rest = {}
    for flag, what, thms in ALIAS_REST_TIES:
        fn = what.split("::")[-1]
        if re.search(r"Definition %s : bool := true\." % flag, text) is not None:
            rest[fn] = {"active": True, "theorems": thms}
            continue
        m = re.search(r"\(\* NOT UNDERSTOOD: %s: (.*?) \*\)" % re.escape(fn), text, re.S)
        why = m.group(1) if m else "generated file missing"
        rest[fn] = {"active": False, "reason": why}
        names = ["DSP.SrcAlias.%s" % t for t in thms]
        self.obligations[:] = [o for o in self.obligations if o not in names]
        self.discharged[:] = [o for o in self.discharged if o not in names]
        if isinstance(info.get("alias", {}).get("theorems"), list):
            info["alias"]["theorems"] = [t for t in info["alias"]["theorems"] if t not in thms]
        print("NOTE: property=%s translation tie for %s is inactive on this tree (translator: %s); "
              "the correspondence run is the only tie for it in this run" % (self.prop, what, why), flush=True)
    info["alias_rest"] = {"file": "coq/generated/GenAliasFn.v", "functions": rest,
                          "meaning": "types/scope.rs::clear, called by AliasCommand::run: AliasCmd.keep equals the mechanical "
                                     "translation of the current source for all inputs (own flag)"}
    return ok


Check.source_tie = _source_tie_with_alias_rest


# --- appended (builder B11): translation tie "eval" for C09 / C10 / C19 — duckscript_sdk/src/utils/eval.rs (lib/gen/eval_gen.py ->
# coq/generated/GenEvalFn.v, proofs coq/theories/EvalGenTie.v, wrappers coq/props/SrcEval.v).  Same scheme as
# PARSER_REST_TIES: the tie key's own flag is the text assembly of fn parse (gen_eval_line_understood); fn parse as a whole and
# fn eval_instructions have their OWN flags in GenEvalFn.v, what the translator does not understand any more gets a stub, its
# theorems (stated under `flag = true`) hold vacuously, and source_tie("eval") then reports exactly that tie as inactive
# (NOTE + evidence) and does not count its theorems as discharged.
EVAL_REST_TIES = [
    ("gen_eval_parse_understood", "parse", "duckscript_sdk/src/utils/eval.rs::parse (parse_text, instructions[0], error arm)",
     ["Src_eval_parse_ix", "Src_eval_parse"]),
    ("gen_eval_instructions_understood", "eval_instructions", "duckscript_sdk/src/utils/eval.rs::eval_instructions",
     ["Src_eval_instructions_loop", "Src_eval_instructions", "Src_eval_instructions_step_no_panic"]),
]
Check.SRC_TIES.update({
    "eval": ("GenEvalFn.v", "gen_eval_line_understood", "props/SrcEval.vo", "DSP.SrcEval",
             ["Src_eval_line_body", "Src_eval_line"],
             "duckscript_sdk/src/utils/eval.rs::parse (text assembly: quoting loop and the three replace calls)"),
})
Check.SRC_TIES_BASE = dict(getattr(Check, "SRC_TIES_BASE", {}))
Check.SRC_TIES_BASE["eval"] = list(Check.SRC_TIES["eval"][4])
Check.SRC_TIES_PARTIAL = tuple(getattr(Check, "SRC_TIES_PARTIAL", ())) + ("eval",)
Check.SRC_TIES["eval"][4].extend(t for _f, _n, _w, _ts in EVAL_REST_TIES for t in _ts)
_source_tie_before_eval_rest = Check.source_tie


def _source_tie_with_eval_rest(self, which):
    ok = _source_tie_before_eval_rest(self, which)
    if which != "eval":
        return ok
    try:
        text = open(os.path.join(ROOT, "coq", "generated", "GenEvalFn.v")).read()
    except OSError:
        text = ""
    info = self.coverage.setdefault("source_translation", {})
    rest = {}
    for flag, fn, what, thms in EVAL_REST_TIES:
        if re.search(r"Definition %s : bool := true\." % flag, text) is not None:
            rest[fn] = {"active": True, "theorems": thms}
            continue
        m = re.search(r"\(\* NOT UNDERSTOOD %s: (.*?) \*\)" % re.escape(fn), text, re.S)
        why = m.group(1) if m else "generated file missing"
        rest[fn] = {"active": False, "reason": why}
        names = ["DSP.SrcEval.%s" % t for t in thms]
        self.obligations[:] = [o for o in self.obligations if o not in names]
        self.discharged[:] = [o for o in self.discharged if o not in names]
        if isinstance(info.get("eval", {}).get("theorems"), list):
            info["eval"]["theorems"] = [t for t in info["eval"]["theorems"] if t not in thms]
        print("NOTE: property=%s translation tie for %s is inactive on this tree (translator: %s); "
              "the correspondence run is the only tie for it in this run" % (self.prop, what, why), flush=True)
    info["eval_rest"] = {"file": "coq/generated/GenEvalFn.v", "functions": rest,
                         "meaning": "fn parse as a whole and fn eval_instructions of utils/eval.rs: the hand model (EvalSerIx.eval_parse_ix / "
                                    "EvalSer.eval_parse, SdkErr.eval_instructions) equals the mechanical translation of the current "
                                    "source for all inputs (one flag per function)"}
    return ok


Check.source_tie = _source_tie_with_eval_rest


# --- appended (builder B12): translation tie "condslice" for C06 — eval_condition_for_slice and eval_condition of
# duckscript_sdk/src/utils/condition.rs (lib/gen/condslice_gen.py -> coq/generated/GenCondSliceFn.v, proofs
# coq/theories/CondSliceGenTie.v, wrappers coq/props/SrcCondSlice.v).  Same scheme as PARSER_REST_TIES: the tie key's own flag
# is eval_condition_for_slice's (gen_eval_slice_understood); eval_condition has its OWN flag in GenCondSliceFn.v: when the
# translator does not understand it any more it gets a stub, its theorems (stated under `flag = true`) hold vacuously, and
# source_tie("condslice") reports exactly that tie as inactive (NOTE + evidence) and does not count its theorems as discharged;
# when eval_condition_for_slice is not understood but eval_condition is, eval_condition's theorems are still checked.
CONDSLICE_BASE_THMS = ["Src_condslice_body", "Src_condslice_eval", "Src_condslice_ix", "Src_condslice_ix_checked",
                       "Src_condslice_total", "Src_condslice_sem"]
CONDSLICE_REST_TIES = [("gen_eval_condition_understood", "eval_condition", "duckscript_sdk/src/utils/condition.rs::eval_condition",
                        ["Src_condslice_eval_condition", "Src_condslice_eval_condition_ix"])]
Check.SRC_TIES.update({
    "condslice": ("GenCondSliceFn.v", "gen_eval_slice_understood", "props/SrcCondSlice.vo", "DSP.SrcCondSlice",
                  CONDSLICE_BASE_THMS + [t for _f, _n, _w, _ts in CONDSLICE_REST_TIES for t in _ts],
                  "duckscript_sdk/src/utils/condition.rs::eval_condition_for_slice"),
})


def _condslice_register():
    base = dict(getattr(Check, "SRC_TIES_BASE", {}))
    base["condslice"] = list(CONDSLICE_BASE_THMS)
    Check.SRC_TIES_BASE = base
    if "condslice" not in getattr(Check, "SRC_TIES_PARTIAL", ()):
        Check.SRC_TIES_PARTIAL = tuple(getattr(Check, "SRC_TIES_PARTIAL", ())) + ("condslice",)


_condslice_register()
_source_tie_before_condslice_rest = Check.source_tie


def _source_tie_with_condslice_rest(self, which):
    if which == "condslice":
        _condslice_register()       # robust against a later block that re-assigns the two class attributes
    ok = _source_tie_before_condslice_rest(self, which)
    if which != "condslice":
        return ok
    try:
        text = open(os.path.join(ROOT, "coq", "generated", "GenCondSliceFn.v")).read()
    except OSError:
        text = ""
    info = self.coverage.setdefault("source_translation", {})
    rest = {}
    for flag, fn, what, thms in CONDSLICE_REST_TIES:
        if re.search(r"Definition %s : bool := true\." % flag, text) is not None:
            rest[fn] = {"active": True, "theorems": thms}
            continue
        m = re.search(r"\(\* NOT UNDERSTOOD %s: (.*?) \*\)" % re.escape(fn), text, re.S)
        why = m.group(1) if m else "generated file missing"
        rest[fn] = {"active": False, "reason": why}
        names = ["DSP.SrcCondSlice.%s" % t for t in thms]
        self.obligations[:] = [o for o in self.obligations if o not in names]
        self.discharged[:] = [o for o in self.discharged if o not in names]
        if isinstance(info.get("condslice", {}).get("theorems"), list):
            info["condslice"]["theorems"] = [t for t in info["condslice"]["theorems"] if t not in thms]
        print("NOTE: property=%s translation tie for %s is inactive on this tree (translator: %s); "
              "the correspondence run is the only tie for it in this run" % (self.prop, what, why), flush=True)
    info["condslice_rest"] = {"file": "coq/generated/GenCondSliceFn.v", "functions": rest,
                              "meaning": "eval_condition (the dispatch in front of the slice evaluator): CondIx.eval_condition_with equals "
                                         "the mechanical translation of the current source for all inputs (own flag)"}
    return ok


Check.source_tie = _source_tie_with_condslice_rest


# --- appended (builder B18): translation tie "onerror" for C10 — the on_error command family of the SDK
# (duckscript_sdk/src/sdk/std/on_error/*/mod.rs, get_value of on_error/mod.rs inlined, sdk/std/test/assert_error/mod.rs;
# lib/gen/onerror_gen.py -> coq/generated/GenOnErrorFn.v, proofs coq/theories/OnErrorGenTie.v, wrappers coq/props/SrcOnError.v).
# Same scheme as PARSER_REST_TIES: the tie key's own flag is the on_error handler's; every other command has its OWN flag in
# GenOnErrorFn.v, a `run` the translator does not understand any more gets a stub, its theorems (stated under `flag = true`) hold
# vacuously, and source_tie("onerror") then reports exactly that command's tie as inactive (NOTE + evidence) and does not count
# its theorems as discharged.  Src_onerror_sdk_names (alias tables = the names SdkErr.is_sdk answers for) needs every flag.
ONERROR_REST_TIES = [
    ("gen_run_exit_on_error_understood", "exit_on_error", ["Src_onerror_exit_on_error", "Src_onerror_exit_on_error_dispatch"]),
    ("gen_run_get_last_error_understood", "get_last_error", ["Src_onerror_get_last_error", "Src_onerror_get_last_error_dispatch"]),
    ("gen_run_get_last_error_line_understood", "get_last_error_line",
     ["Src_onerror_get_last_error_line", "Src_onerror_get_last_error_line_dispatch"]),
    ("gen_run_get_last_error_source_understood", "get_last_error_source",
     ["Src_onerror_get_last_error_source", "Src_onerror_get_last_error_source_dispatch"]),
    ("gen_run_set_error_understood", "set_error", ["Src_onerror_set_error", "Src_onerror_set_error_dispatch"]),
    ("gen_run_trigger_error_understood", "trigger_error", ["Src_onerror_trigger_error", "Src_onerror_trigger_error_dispatch"]),
    ("gen_run_assert_error_understood", "assert_error", ["Src_onerror_assert_error", "Src_onerror_assert_error_dispatch"]),
]
ONERROR_ALL_TIES = ["Src_onerror_sdk_names"]
Check.SRC_TIES.update({
    "onerror": ("GenOnErrorFn.v", "gen_run_on_error_cmd_understood", "props/SrcOnError.vo", "DSP.SrcOnError",
                ["Src_onerror_on_error", "Src_onerror_on_error_dispatch"],
                "duckscript_sdk/src/sdk/std/on_error/on_error/mod.rs::run (with on_error::get_value)"),
})
Check.SRC_TIES_BASE = dict(getattr(Check, "SRC_TIES_BASE", {}))
Check.SRC_TIES_BASE["onerror"] = list(Check.SRC_TIES["onerror"][4])
Check.SRC_TIES_PARTIAL = tuple(getattr(Check, "SRC_TIES_PARTIAL", ())) + ("onerror",)
Check.SRC_TIES["onerror"][4].extend(t for _f, _w, _ts in ONERROR_REST_TIES for t in _ts)
Check.SRC_TIES["onerror"][4].extend(ONERROR_ALL_TIES)
_source_tie_before_onerror_rest = Check.source_tie


def _source_tie_with_onerror_rest(self, which):
    ok = _source_tie_before_onerror_rest(self, which)
    if which != "onerror":
        return ok
    try:
        text = open(os.path.join(ROOT, "coq", "generated", "GenOnErrorFn.v")).read()
    except OSError:
        text = ""
    info = self.coverage.setdefault("source_translation", {})
    rest = {}

    def drop(thms):
        names = ["DSP.SrcOnError.%s" % t for t in thms]
        self.obligations[:] = [o for o in self.obligations if o not in names]
        self.discharged[:] = [o for o in self.discharged if o not in names]
        if isinstance(info.get("onerror", {}).get("theorems"), list):
            info["onerror"]["theorems"] = [t for t in info["onerror"]["theorems"] if t not in thms]
    all_understood = re.search(r"Definition gen_run_on_error_cmd_understood : bool := true\.", text) is not None
    for flag, fn, thms in ONERROR_REST_TIES:
        what = "duckscript_sdk/src/sdk/std/%s/mod.rs::run" % ("test/assert_error" if fn == "assert_error" else "on_error/" + fn)
        if re.search(r"Definition %s : bool := true\." % flag, text) is not None:
            rest[fn] = {"active": True, "theorems": thms}
            continue
        all_understood = False
        m = re.search(r"\(\* NOT UNDERSTOOD %s: (.*?) \*\)" % re.escape(fn), text, re.S)
        why = m.group(1) if m else "generated file missing"
        rest[fn] = {"active": False, "reason": why}
        drop(thms)
        print("NOTE: property=%s translation tie for %s is inactive on this tree (translator: %s); "
              "the correspondence run is the only tie for it in this run" % (self.prop, what, why), flush=True)
    if not all_understood:
        drop(ONERROR_ALL_TIES)
    rest["sdk_names"] = {"active": all_understood, "theorems": ONERROR_ALL_TIES}
    info["onerror_rest"] = {"file": "coq/generated/GenOnErrorFn.v", "functions": rest,
                            "meaning": "each listed command of the on_error family: the hand model (SdkErr.v: run_exit_on_error, "
                                       "run_set_error, the query / trigger arms of sdk_cmd) equals the mechanical translation of the "
                                       "current `run` for all inputs, and sdk_cmd under every alias the source registers is that "
                                       "translation (one flag per command)"}
    return ok


Check.source_tie = _source_tie_with_onerror_rest


# --- appended (builder B10): translation tie "runner" for C03 / C10 / C13 — the fetch/execute loop of duckscript/src/runner.rs
# (lib/gen/runner_gen.py -> coq/generated/GenRunnerFn.v, proofs coq/theories/RunnerGenTie.v, wrappers coq/props/SrcRunner.v;
# for C03 also the runner WITH argument binding: coq/theories/RunnerBindGenTie.v, coq/props/SrcRunnerBind.v).  Same scheme as
# PARSER_REST_TIES: the tie key's own flag is the one of the loop of run_instructions (gen_runner_step_understood); every other
# function has its OWN flag in GenRunnerFn.v, a function the translator does not understand any more gets a stub, its theorems
# (stated under `flag = true`) hold vacuously, and source_tie("runner") then reports exactly that tie as inactive (NOTE +
# evidence) and does not count its theorems as discharged.  A theorem that needs two functions lists both flags.
RUNNER_REST_TIES = [
    (("gen_update_output_understood",), "update_output", ["Src_runner_update_output"]),
    (("gen_labels_from_understood",), "create_runtime", ["Src_runner_labels_from", "Src_runner_label_table"]),
    (("gen_runner_step_understood", "gen_labels_from_understood"), "run (create_runtime + run_instructions)", ["Src_runner_run"]),
    (("gen_run_on_error_understood",), "run_on_error_instruction", ["Src_runner_run_on_error"]),
    (("gen_run_instruction_understood",), "run_instruction", ["Src_runner_run_instruction"]),
]
RUNNER_BIND_TIES = [     # DSP.SrcRunnerBind (RunnerBind.v), checked for the properties in RUNNER_BIND_PROPS
    (("gen_bind_command_arguments_understood",), "bind_command_arguments", ["Src_runner_bind_command_arguments", "Src_runner_bind_vars"]),
    (("gen_run_instruction_understood",), "run_instruction", ["Src_runner_bind_run_instruction"]),
    (("gen_run_on_error_understood",), "run_on_error_instruction", ["Src_runner_bind_run_on_error"]),
    (("gen_runner_step_understood",), "run_instructions", ["Src_runner_bind_step", "Src_runner_bind_loop"]),
]
RUNNER_BIND_PROPS = ("C03",)
Check.SRC_TIES.update({
    "runner": ("GenRunnerFn.v", "gen_runner_step_understood", "props/SrcRunner.vo", "DSP.SrcRunner",
               ["Src_runner_step", "Src_runner_loop"],
               "duckscript/src/runner.rs::run_instructions (one iteration of its loop, and the loop)"),
})
Check.SRC_TIES_BASE = dict(getattr(Check, "SRC_TIES_BASE", {}))
Check.SRC_TIES_BASE["runner"] = list(Check.SRC_TIES["runner"][4])
Check.SRC_TIES_PARTIAL = tuple(getattr(Check, "SRC_TIES_PARTIAL", ())) + ("runner",)
Check.SRC_TIES["runner"][4].extend(t for _f, _w, _ts in RUNNER_REST_TIES for t in _ts)
_source_tie_before_runner_rest = Check.source_tie


def _source_tie_with_runner_rest(self, which):
    ok = _source_tie_before_runner_rest(self, which)
    if which != "runner":
        return ok
    try:
        text = open(os.path.join(ROOT, "coq", "generated", "GenRunnerFn.v")).read()
    except OSError:
        text = ""
    info = self.coverage.setdefault("source_translation", {})

    def on(flag):
        return re.search(r"Definition %s : bool := true\." % flag, text) is not None

    def why_not(flags):
        out = []
        for m in re.finditer(r"\(\* NOT UNDERSTOOD: (\w+): (.*?) \*\)\nDefinition (\w+) : bool := false\.", text, re.S):
            if m.group(3) in flags:
                out.append("%s: %s" % (m.group(1), m.group(2)))
        return "; ".join(out) or "generated file missing"
    noted = set()

    def note(what, why):
        if what not in noted:
            noted.add(what)
            print("NOTE: property=%s translation tie for %s is inactive on this tree (translator: %s); "
                  "the correspondence run is the only tie for it in this run" % (self.prop, what, why), flush=True)
    if not on("gen_runner_step_understood"):
        noted.add("duckscript/src/runner.rs::run_instructions")       # the base source_tie has printed that NOTE
    rest = {}
    for flags, fn, thms in RUNNER_REST_TIES:
        if all(on(f) for f in flags):
            rest[fn] = {"active": True, "theorems": thms}
            continue
        why = why_not(flags)
        rest[fn] = {"active": False, "reason": why}
        names = ["DSP.SrcRunner.%s" % t for t in thms]
        self.obligations[:] = [o for o in self.obligations if o not in names]
        self.discharged[:] = [o for o in self.discharged if o not in names]
        if isinstance(info.get("runner", {}).get("theorems"), list):
            info["runner"]["theorems"] = [t for t in info["runner"]["theorems"] if t not in thms]
        note("duckscript/src/runner.rs::%s" % fn, why)
    info["runner_rest"] = {"file": "coq/generated/GenRunnerFn.v", "functions": rest,
                           "meaning": "each listed function of runner.rs: the hand model function of Runner.v equals the mechanical "
                                      "translation of the current source for all inputs (one flag per function)"}
    if self.prop in RUNNER_BIND_PROPS:
        bind, active = {}, []
        for flags, fn, thms in RUNNER_BIND_TIES:
            if all(on(f) for f in flags):
                bind[fn] = {"active": True, "theorems": thms}
                active += thms
            else:
                why = why_not(flags)
                bind[fn] = {"active": False, "reason": why}
                note("duckscript/src/runner.rs::%s" % fn, why)
        okb, _ = self.coq_build(["props/SrcRunnerBind.vo"])
        if okb:
            if active:
                self.print_assumptions(["DSP.SrcRunnerBind"], ["DSP.SrcRunnerBind.%s" % t for t in active])
        else:
            ok = False
            for t in active:
                self.obligations.append("DSP.SrcRunnerBind.%s" % t)
        info["runner_bind"] = {"file": "coq/generated/GenRunnerFn.v", "functions": bind,
                               "meaning": "the runner WITH argument binding (RunnerBind.v): each listed function equals the mechanical "
                                          "translation of the current source for all inputs and every binder"}
    return ok


Check.source_tie = _source_tie_with_runner_rest


# --- appended (builder B17): translation tie "strings" for C16 / C17 — the `run` functions of the string / range / number
# comparison / hex commands (duckscript_sdk/src/sdk/std/string/*/mod.rs, collections/range/mod.rs, math/{less_than,
# greater_than,hex_encode,hex_decode}/mod.rs; lib/gen/strings_gen.py -> coq/generated/GenStringsFn.v, proofs
# coq/theories/StringsGenTie.v, wrappers coq/props/SrcStrings.v).  Same scheme as PARSER_REST_TIES: the tie key's own flag
# (gen_strings_understood) only says the generator ran; every command has its OWN flag in GenStringsFn.v, a command the
# translator does not understand any more gets a stub, its theorem (stated under `flag = true`) holds vacuously, and
# source_tie("strings") then reports exactly that command's tie as inactive (NOTE + evidence) and does not count its theorem
# as discharged.
STRINGS_CMD_TIES = [
    ("gen_cmd_%s_understood" % _c, "duckscript_sdk/src/sdk/std/%s/mod.rs::run" % _p, ["Src_strings_%s" % _c])
    for _c, _p in [
        ("length", "string/length"), ("indexof", "string/indexof"), ("last_indexof", "string/last_indexof"),
        ("substring", "string/substring"), ("contains", "string/contains"), ("starts_with", "string/starts_with"),
        ("ends_with", "string/ends_with"), ("equals", "string/equals"), ("is_empty", "string/is_empty"),
        ("replace", "string/replace"), ("split", "string/split"), ("trim", "string/trim"),
        ("trim_start", "string/trim_start"), ("trim_end", "string/trim_end"), ("range", "collections/range"),
        ("less_than", "math/less_than"), ("greater_than", "math/greater_than"), ("hex_encode", "math/hex_encode"),
        ("hex_decode", "math/hex_decode")]
]
Check.SRC_TIES.update({
    "strings": ("GenStringsFn.v", "gen_strings_understood", "props/SrcStrings.vo", "DSP.SrcStrings", [],
                "duckscript_sdk/src/sdk/std: run of the string / range / less_than / greater_than / hex commands"),
})
Check.SRC_TIES_BASE = dict(getattr(Check, "SRC_TIES_BASE", {}))
Check.SRC_TIES_BASE["strings"] = list(Check.SRC_TIES["strings"][4])
Check.SRC_TIES_PARTIAL = tuple(getattr(Check, "SRC_TIES_PARTIAL", ())) + ("strings",)
Check.SRC_TIES["strings"][4].extend(t for _f, _w, _ts in STRINGS_CMD_TIES for t in _ts)
_source_tie_before_strings_cmds = Check.source_tie


def _source_tie_with_strings_cmds(self, which):
    ok = _source_tie_before_strings_cmds(self, which)
    if which != "strings":
        return ok
    try:
        text = open(os.path.join(ROOT, "coq", "generated", "GenStringsFn.v")).read()
    except OSError:
        text = ""
    info = self.coverage.setdefault("source_translation", {})
    cmds = {}
    for flag, what, thms in STRINGS_CMD_TIES:
        cmd = flag[len("gen_cmd_"):-len("_understood")]
        if re.search(r"Definition %s : bool := true\." % flag, text) is not None:
            cmds[cmd] = {"active": True, "theorems": thms}
            continue
        m = re.search(r"\(\* NOT UNDERSTOOD %s: (.*?) \*\)" % re.escape(cmd), text, re.S)
        why = m.group(1) if m else "generated file missing"
        cmds[cmd] = {"active": False, "reason": why}
        names = ["DSP.SrcStrings.%s" % t for t in thms]
        self.obligations[:] = [o for o in self.obligations if o not in names]
        self.discharged[:] = [o for o in self.discharged if o not in names]
        if isinstance(info.get("strings", {}).get("theorems"), list):
            info["strings"]["theorems"] = [t for t in info["strings"]["theorems"] if t not in thms]
        print("NOTE: property=%s translation tie for %s is inactive on this tree (translator: %s); "
              "the correspondence run is the only tie for it in this run" % (self.prop, what, why), flush=True)
    info["strings_cmds"] = {"file": "coq/generated/GenStringsFn.v", "commands": cmds,
                            "meaning": "each listed command: the hand model cmd_<name> (Strings.v / Codec.v) equals the mechanical "
                                       "translation of the current `run` for all argument vectors, and the translation (every "
                                       "arguments[i] / unwrap / checked + - an explicit RPanic arm) never panics (one flag per command)"}
    return ok


Check.source_tie = _source_tie_with_strings_cmds


# --- appended (coordinator): a TABLE generator that gave up may be stood in for by the function-level translation tie of the
# same source (decided after that tie has been checked).  gen_truth / "cond" is handled inside source_tie; the generic case:
_source_tie_before_table_standin = Check.source_tie


def _source_tie_with_table_standin(self, which):
    ok = _source_tie_before_table_standin(self, which)
    pending = getattr(self, "table_failed", {})
    if which not in pending:
        return ok
    gen, msg, table_thms = pending.pop(which)
    info = self.coverage.setdefault("source_translation", {})
    base = info.get(which, {})
    rest = info.get(which + "_rest", {}).get("functions", {})
    all_active = bool(base.get("active")) and all(v.get("active") for v in rest.values())
    mod = self.SRC_TIES[which][3]
    tie_broken = any((mod.split(".")[-1] in b) or ("GenTie" in b) for b in self.broken)
    if ok and all_active and not tie_broken:
        print("NOTE: property=%s the regex extractor of the %s TABLE does not understand the source any more (%s); the "
              "function-level translation tie `%s` holds for every function on this tree and stands in for it"
              % (self.prop, gen, msg, which), flush=True)
        info[gen] = {"active": False, "reason": msg, "replaced_by": "translation tie " + which}
        self.obligations[:] = [o for o in self.obligations if o not in table_thms]
        self.discharged[:] = [o for o in self.discharged if o not in table_thms]
        self.dropped_theorems = getattr(self, "dropped_theorems", []) + table_thms
    else:
        self.broken.append("regenerated table (%s): %s" % (gen, msg))
    return ok


Check.source_tie = _source_tie_with_table_standin


# --- appended (builder B23): translation tie "include" for C14 (and C08: the error kinds of the pre-processor dispatch) —
# duckscript/src/preprocessor/include_files_preprocessor.rs `run`, preprocessor/mod.rs `run` and the wrappers parse_file /
# parse_text_with_source_file / parse_text of parser.rs (lib/gen/include_gen.py -> coq/generated/GenIncludeFn.v, proofs
# coq/theories/IncludeGenTie.v, wrappers coq/props/SrcInclude.v).  Same scheme as PARSER_REST_TIES / RUNNER_REST_TIES: the tie
# key's own flag (gen_include_understood) only says the generator ran; every generated function has its OWN flag in
# GenIncludeFn.v, a function the translator does not understand any more gets a stub, its theorems (stated under `flag = true`)
# hold vacuously, and source_tie("include") then reports exactly that tie as inactive (NOTE + evidence) and does not count its
# theorems as discharged.  A theorem that needs two functions lists both flags.
_INC_RS = "duckscript/src/preprocessor/include_files_preprocessor.rs::run"
INCLUDE_FN_TIES = [
    (("gen_include_path_understood",), _INC_RS + " (the path of one listed file)", ["Src_include_path"]),
    (("gen_include_run_understood",), _INC_RS + " (the loop)", ["Src_include_step", "Src_include_run"]),
    (("gen_preprocess_understood",), "duckscript/src/preprocessor/mod.rs::run", ["Src_include_preprocess"]),
    (("gen_preprocess_understood", "gen_include_run_understood"), "duckscript/src/preprocessor/mod.rs::run with the include loop",
     ["Src_include_preprocess_run"]),
    (("gen_parse_text_understood",), "duckscript/src/parser.rs::parse_text", ["Src_include_parse_text"]),
    (("gen_parse_text_with_source_file_understood",), "duckscript/src/parser.rs::parse_text_with_source_file",
     ["Src_include_parse_text_with_source_file"]),
    (("gen_parse_file_understood",), "duckscript/src/parser.rs::parse_file", ["Src_include_parse_file"]),
    (("gen_parse_file_understood", "gen_include_run_understood"), "duckscript/src/parser.rs::parse_file with the include loop (recursion)",
     ["Src_include_knot"]),
]
INCLUDE_FLAG_NAMES = {"gen_include_path_understood": "include_path", "gen_include_run_understood": "include_run",
                      "gen_preprocess_understood": "preprocess", "gen_parse_text_understood": "parse_text",
                      "gen_parse_text_with_source_file_understood": "parse_text_with_source_file",
                      "gen_parse_file_understood": "parse_file"}
Check.SRC_TIES.update({
    "include": ("GenIncludeFn.v", "gen_include_understood", "props/SrcInclude.vo", "DSP.SrcInclude", [],
                "the include pre-processor (include_files_preprocessor.rs, preprocessor/mod.rs, parse_file / parse_text of parser.rs)"),
})
Check.SRC_TIES_BASE = dict(getattr(Check, "SRC_TIES_BASE", {}))
Check.SRC_TIES_BASE["include"] = list(Check.SRC_TIES["include"][4])
Check.SRC_TIES_PARTIAL = tuple(getattr(Check, "SRC_TIES_PARTIAL", ())) + ("include",)
Check.SRC_TIES["include"][4].extend(t for _f, _w, _ts in INCLUDE_FN_TIES for t in _ts)
_source_tie_before_include_fns = Check.source_tie


def _source_tie_with_include_fns(self, which):
    ok = _source_tie_before_include_fns(self, which)
    if which != "include":
        return ok
    try:
        text = open(os.path.join(ROOT, "coq", "generated", "GenIncludeFn.v")).read()
    except OSError:
        text = ""
    info = self.coverage.setdefault("source_translation", {})

    def on(flag):
        return re.search(r"Definition %s : bool := true\." % flag, text) is not None

    def why_not(flags):
        out = []
        for f in flags:
            if on(f):
                continue
            m = re.search(r"\(\* NOT UNDERSTOOD %s: (.*?) \*\)" % re.escape(INCLUDE_FLAG_NAMES[f]), text, re.S)
            out.append("%s: %s" % (INCLUDE_FLAG_NAMES[f], m.group(1) if m else "generated file missing"))
        return "; ".join(out)
    fns = {}
    for flags, what, thms in INCLUDE_FN_TIES:
        if all(on(f) for f in flags):
            fns[what] = {"active": True, "theorems": thms}
            continue
        why = why_not(flags)
        fns[what] = {"active": False, "reason": why}
        names = ["DSP.SrcInclude.%s" % t for t in thms]
        self.obligations[:] = [o for o in self.obligations if o not in names]
        self.discharged[:] = [o for o in self.discharged if o not in names]
        if isinstance(info.get("include", {}).get("theorems"), list):
            info["include"]["theorems"] = [t for t in info["include"]["theorems"] if t not in thms]
        print("NOTE: property=%s translation tie for %s is inactive on this tree (translator: %s); "
              "the correspondence run is the only tie for it in this run" % (self.prop, what, why), flush=True)
    info["include_fns"] = {"file": "coq/generated/GenIncludeFn.v", "functions": fns,
                           "meaning": "each listed function: the hand model (Include.v / IncludePath.v / Parser.preprocess / "
                                      "IncludeFns.v) equals the mechanical translation of the current source for all inputs "
                                      "(one flag per generated function)"}
    return ok


Check.source_tie = _source_tie_with_include_fns


# --- appended (builder B22): translation tie "var" for C11 — the `run` functions of the variable commands
# (duckscript_sdk/src/sdk/std/var/{set,set_by_name,get_by_name,is_defined,get_all_var_names,unset_all_vars}/mod.rs), of the scope
# commands (sdk/std/scope/{clear,push_stack,pop_stack}/mod.rs) and push / pop of duckscript_sdk/src/utils/scope.rs
# (lib/gen/var_gen.py -> coq/generated/GenVarFn.v, proofs coq/theories/VarGenTie.v, wrappers coq/props/SrcVar.v).  Same scheme as
# PARSER_REST_TIES / RUNNER_REST_TIES: the tie key's own flag (gen_var_understood) only says the generator ran; every generated
# function has its OWN flag in GenVarFn.v, a function the translator does not understand any more gets a stub, its theorems
# (stated under `flag = true`) hold vacuously, and source_tie("var") then reports exactly that tie as inactive (NOTE + evidence)
# and does not count its theorems as discharged.  A theorem that needs two functions lists both flags (gen_scope_clear_understood
# is the flag of types/scope.rs::clear in GenAliasFn.v).
_VAR_STD = "duckscript_sdk/src/sdk/std/"
VAR_FN_TIES = [
    (("gen_scope_push_understood",), "duckscript_sdk/src/utils/scope.rs::push", ["Src_var_scope_push"]),
    (("gen_scope_pop_understood",), "duckscript_sdk/src/utils/scope.rs::pop", ["Src_var_scope_pop"]),
    (("gen_cmd_set_understood",), _VAR_STD + "var/set/mod.rs::run", ["Src_var_set"]),
    (("gen_cmd_set_by_name_understood",), _VAR_STD + "var/set_by_name/mod.rs::run", ["Src_var_set_by_name"]),
    (("gen_cmd_get_by_name_understood",), _VAR_STD + "var/get_by_name/mod.rs::run", ["Src_var_get_by_name"]),
    (("gen_cmd_is_defined_understood",), _VAR_STD + "var/is_defined/mod.rs::run", ["Src_var_is_defined"]),
    (("gen_cmd_get_all_var_names_understood",), _VAR_STD + "var/get_all_var_names/mod.rs::run", ["Src_var_get_all_var_names"]),
    (("gen_cmd_unset_all_vars_understood",), _VAR_STD + "var/unset_all_vars/mod.rs::run", ["Src_var_unset_all_vars"]),
    (("gen_cmd_clear_scope_understood",), _VAR_STD + "scope/clear/mod.rs::run", ["Src_var_clear_scope"]),
    (("gen_cmd_scope_push_stack_understood",), _VAR_STD + "scope/push_stack/mod.rs::run", ["Src_var_scope_push_stack"]),
    (("gen_cmd_scope_pop_stack_understood",), _VAR_STD + "scope/pop_stack/mod.rs::run", ["Src_var_scope_pop_stack"]),
    (("gen_cmd_clear_scope_understood", "gen_scope_clear_understood"), _VAR_STD + "scope/clear/mod.rs::run with types/scope.rs::clear",
     ["Src_var_clear_scope_tied"]),
    (("gen_cmd_scope_push_stack_understood", "gen_scope_push_understood"), _VAR_STD + "scope/push_stack/mod.rs::run with utils/scope.rs::push",
     ["Src_var_scope_push_stack_tied"]),
    (("gen_cmd_scope_pop_stack_understood", "gen_scope_pop_understood"), _VAR_STD + "scope/pop_stack/mod.rs::run with utils/scope.rs::pop",
     ["Src_var_scope_pop_stack_tied"]),
]
Check.SRC_TIES.update({
    "var": ("GenVarFn.v", "gen_var_understood", "props/SrcVar.vo", "DSP.SrcVar", [],
            "the variable and scope commands (sdk/std/var/*, sdk/std/scope/*: fn run; utils/scope.rs: push / pop)"),
})
Check.SRC_TIES_BASE = dict(getattr(Check, "SRC_TIES_BASE", {}))
Check.SRC_TIES_BASE["var"] = list(Check.SRC_TIES["var"][4])
Check.SRC_TIES_PARTIAL = tuple(getattr(Check, "SRC_TIES_PARTIAL", ())) + ("var",)
Check.SRC_TIES["var"][4].extend(t for _f, _w, _ts in VAR_FN_TIES for t in _ts)
_source_tie_before_var_fns = Check.source_tie


def _source_tie_with_var_fns(self, which):
    ok = _source_tie_before_var_fns(self, which)
    if which != "var":
        return ok
    text = ""
    for gen in ("GenVarFn.v", "GenAliasFn.v"):
        try:
            text += open(os.path.join(ROOT, "coq", "generated", gen)).read() + "\n"
        except OSError:
            pass
    info = self.coverage.setdefault("source_translation", {})

    def on(flag):
        return re.search(r"Definition %s : bool := true\." % flag, text) is not None

    def why_not(flags):
        out = []
        for f in flags:
            if on(f):
                continue
            short = re.sub(r"^gen_(cmd_)?|_understood$", "", f)
            m = re.search(r"\(\* NOT UNDERSTOOD:? %s: (.*?) \*\)" % re.escape("clear" if short == "scope_clear" else short), text, re.S)
            out.append("%s: %s" % (short, m.group(1) if m else "generated file missing"))
        return "; ".join(out)
    fns = {}
    for flags, what, thms in VAR_FN_TIES:
        if all(on(f) for f in flags):
            fns[what] = {"active": True, "theorems": thms}
            continue
        why = why_not(flags)
        fns[what] = {"active": False, "reason": why}
        names = ["DSP.SrcVar.%s" % t for t in thms]
        self.obligations[:] = [o for o in self.obligations if o not in names]
        self.discharged[:] = [o for o in self.discharged if o not in names]
        if isinstance(info.get("var", {}).get("theorems"), list):
            info["var"]["theorems"] = [t for t in info["var"]["theorems"] if t not in thms]
        print("NOTE: property=%s translation tie for %s is inactive on this tree (translator: %s); "
              "the correspondence run is the only tie for it in this run" % (self.prop, what, why), flush=True)
    info["var_fns"] = {"file": "coq/generated/GenVarFn.v", "functions": fns,
                       "meaning": "each listed function: the hand model (Scope.v: m_cmd on the command the argument vector denotes, "
                                  "m_push, m_pop, m_step OpNames) equals the mechanical translation of the current source for all "
                                  "arguments and states, and the translation (every arguments[i] / arguments[1..] an explicit panic "
                                  "arm) never panics (one flag per generated function)"}
    return ok


Check.source_tie = _source_tie_with_var_fns


# --- appended (builder B19): translation tie "findcmds" for C04 / C05 (no-panic content: C07) — get_start, get_end and
# find_commands of duckscript_sdk/src/utils/instruction_query.rs (lib/gen/findcmds_gen.py -> coq/generated/GenFindCmdsFn.v,
# proofs coq/theories/FindCmdsGenTie.v, wrappers coq/props/SrcFindCmds.v).  One flag (gen_find_commands_understood) covers the
# three functions.  The hand model the translation is proved equal to is the index-faithful FlowScanIx.v; the theorems that
# connect THAT model to the suffix-style scanners of the C04 / C05 developments (FlowScan.find_commands, FlowFn.find_commands_nr)
# and show it panic-free are props/C04ix.v — they do not depend on the generated file, so source_tie("findcmds") checks them
# whether or not the translation tie is active on this tree.
FINDCMDS_THMS = ["Src_findcmds_get_start", "Src_findcmds_get_end", "Src_findcmds_body", "Src_findcmds_eq", "Src_findcmds_total",
                 "Src_findcmds_checked_total", "Src_findcmds_scan", "Src_findcmds_scan_nr"]
FINDCMDS_IX_THMS = ["C04_ix_total", "C04_ix_checked_total", "C04_ix_refines", "C04_ix_refines_nr", "C04_ix_scan", "C04_ix_scan_nr",
                    "C04_ix_find_own_end", "C04_ix_bounds_needed"]
Check.SRC_TIES.update({
    "findcmds": ("GenFindCmdsFn.v", "gen_find_commands_understood", "props/SrcFindCmds.vo", "DSP.SrcFindCmds", list(FINDCMDS_THMS),
                 "duckscript_sdk/src/utils/instruction_query.rs::{get_start, get_end, find_commands}"),
})
_source_tie_before_findcmds_ix = Check.source_tie


def _source_tie_with_findcmds_ix(self, which):
    ok = _source_tie_before_findcmds_ix(self, which)
    if which != "findcmds":
        return ok
    names = ["DSP.C04ix.%s" % t for t in FINDCMDS_IX_THMS]
    okb, _ = self.coq_build(["props/C04ix.vo"])
    if okb:
        self.print_assumptions(["DSP.C04ix"], names)
    else:
        ok = False
        self.obligations.extend(names)
    info = self.coverage.setdefault("source_translation", {})
    info["findcmds_ix"] = {"file": "coq/props/C04ix.v", "theorems": FINDCMDS_IX_THMS,
                           "meaning": "the index-faithful model of find_commands (FlowScanIx.v: instructions[line], usize indices, i32 "
                                      "block_delta, recursion with fuel) never panics / runs out of fuel and equals the suffix-style "
                                      "scanners FlowScan.find_commands / FlowFn.find_commands_nr below 2^31 instructions"}
    return ok


Check.source_tie = _source_tie_with_findcmds_ix


# --- appended (builder B20): translation tie "collections" for C12 — the handle helpers mutate_list / mutate_map / mutate_set of
# duckscript_sdk/src/utils/state.rs and the `run` functions of the native collection commands
# (duckscript_sdk/src/sdk/std/collections/*/mod.rs; lib/gen/collections_gen.py -> coq/generated/GenCollectionsFn.v, proofs
# coq/theories/CollectionsGenTie.v, wrappers coq/props/SrcCollections.v).  Same scheme as PARSER_REST_TIES / STRINGS_CMD_TIES: the
# tie key's own flag (gen_collections_understood) only says the generator ran; every function has its OWN flag in
# GenCollectionsFn.v, a function the translator does not understand any more gets a stub, its theorem (stated under `flag =
# true`) holds vacuously, and source_tie("collections") then reports exactly that function's tie as inactive (NOTE + evidence)
# and does not count its theorem as discharged.  (A command that calls a mutate_* helper which is not understood is not
# understood either: the generator gives it a stub.)
COLLECTIONS_FN_TIES = [
    ("gen_mutate_%s_understood" % _k, "mutate_%s" % _k, "duckscript_sdk/src/utils/state.rs::mutate_%s" % _k,
     ["Src_collections_mutate_%s" % _k]) for _k in ("list", "map", "set")
] + [
    ("gen_cmd_%s_understood" % _c, _c, "duckscript_sdk/src/sdk/std/collections/%s/mod.rs::run" % ("set" if _c == "set_new" else _c),
     ["Src_collections_%s" % _c])
    for _c in ["array", "range", "array_push", "array_pop", "array_get", "array_set", "array_remove", "array_clear",
               "array_length", "map", "map_put", "map_get", "map_remove", "map_size", "map_keys", "map_clear", "set_new",
               "set_put", "set_remove", "set_contains", "set_size", "set_clear", "set_to_array", "is_array", "is_map", "is_set"]
] + [
    # its callee remove_handle_recursive is NOT translated: the translation calls the model's release_recursive there
    ("gen_cmd_release_understood", "release", "duckscript_sdk/src/sdk/std/release/mod.rs::run", ["Src_collections_release"]),
]
Check.SRC_TIES.update({
    "collections": ("GenCollectionsFn.v", "gen_collections_understood", "props/SrcCollections.vo", "DSP.SrcCollections", [],
                    "duckscript_sdk/src/utils/state.rs::mutate_list / mutate_map / mutate_set and run of the native collection commands"),
})


def _collections_register():
    base = dict(getattr(Check, "SRC_TIES_BASE", {}))
    base["collections"] = []
    Check.SRC_TIES_BASE = base
    if "collections" not in getattr(Check, "SRC_TIES_PARTIAL", ()):
        Check.SRC_TIES_PARTIAL = tuple(getattr(Check, "SRC_TIES_PARTIAL", ())) + ("collections",)


_collections_register()
Check.SRC_TIES["collections"][4].extend(t for _f, _n, _w, _ts in COLLECTIONS_FN_TIES for t in _ts)
_source_tie_before_collections_fns = Check.source_tie


def _source_tie_with_collections_fns(self, which):
    if which == "collections":
        _collections_register()       # robust against a later block that re-assigns the two class attributes
    ok = _source_tie_before_collections_fns(self, which)
    if which != "collections":
        return ok
    try:
        text = open(os.path.join(ROOT, "coq", "generated", "GenCollectionsFn.v")).read()
    except OSError:
        text = ""
    info = self.coverage.setdefault("source_translation", {})
    fns = {}
    for flag, fn, what, thms in COLLECTIONS_FN_TIES:
        if re.search(r"Definition %s : bool := true\." % flag, text) is not None:
            fns[fn] = {"active": True, "theorems": thms}
            continue
        m = re.search(r"\(\* NOT UNDERSTOOD %s: (.*?) \*\)" % re.escape(fn), text, re.S)
        why = m.group(1) if m else "generated file missing"
        fns[fn] = {"active": False, "reason": why}
        names = ["DSP.SrcCollections.%s" % t for t in thms]
        self.obligations[:] = [o for o in self.obligations if o not in names]
        self.discharged[:] = [o for o in self.discharged if o not in names]
        if isinstance(info.get("collections", {}).get("theorems"), list):
            info["collections"]["theorems"] = [t for t in info["collections"]["theorems"] if t not in thms]
        print("NOTE: property=%s translation tie for %s is inactive on this tree (translator: %s); "
              "the correspondence run is the only tie for it in this run" % (self.prop, what, why), flush=True)
    info["collections_fns"] = {"file": "coq/generated/GenCollectionsFn.v", "functions": fns,
                               "meaning": "each listed function: the hand model (Collections.v: mutate_list / mutate_map / mutate_set, "
                                          "cmd_<name>) equals the mechanical translation of the current source for all keys, handle "
                                          "tables, closures, argument vectors, states and oracles; each wrong-kind arm of mutate_* puts "
                                          "the value back; every command translation equals Done of the specification's step (every "
                                          "arguments[i] / list[i] / Vec::remove an explicit Panic arm, never reached) (one flag per "
                                          "function); the callee of `release`, remove_handle_recursive, is NOT translated (the model's "
                                          "release_recursive stands for it)"}
    return ok


Check.source_tie = _source_tie_with_collections_fns


# --- appended (builder B26): translation tie "flowfor" for C04 / C05 (no-panic content: C07) — the for / end_for commands and
# their helpers, duckscript_sdk/src/sdk/std/flowcontrol/forin/mod.rs (lib/gen/flowfor_gen.py -> coq/generated/GenFlowforFn.v,
# proofs coq/theories/FlowforGenTie.v + FlowforEmbed.v over FlowforLib.v, wrappers coq/props/SrcFlowfor.v).  Same scheme as
# COLLECTIONS_FN_TIES: the tie key's own flag (gen_flowfor_understood) says that the struct declarations, the callee
# signatures and the serialise / deserialise inverse check were understood; every function has its OWN flag, a function the
# translator does not understand (or that calls one it does not understand) gets a stub, its theorems (stated under the flags of
# the functions they speak about) hold vacuously, and source_tie("flowfor") then reports exactly that function's tie as inactive
# (NOTE + evidence) and does not count its theorems as discharged.  FLOWFOR_MODEL_THMS do not depend on the generated file (the
# g-model of FlowforLib.v against Flow.v): they are checked whether or not the translation tie is active on this tree.
_FF = "duckscript_sdk/src/sdk/std/flowcontrol/forin/mod.rs::"
FLOWFOR_FN_TIES = [
    ("gen_store_call_info_understood", "store_call_info", _FF + "store_call_info", ["Src_flowfor_store", "Src_flowfor_flow_store"]),
    ("gen_get_next_iteration_understood", "get_next_iteration", _FF + "get_next_iteration",
     ["Src_flowfor_next", "Src_flowfor_flow_next"]),
    ("gen_get_or_create_forin_meta_info_for_line_understood", "get_or_create_forin_meta_info_for_line",
     _FF + "get_or_create_forin_meta_info_for_line", ["Src_flowfor_meta_info", "Src_flowfor_flow_meta_info"]),
    ("gen_pop_call_info_for_line_understood", "pop_call_info_for_line", _FF + "pop_call_info_for_line",
     ["Src_flowfor_pop", "Src_flowfor_flow_pop"]),
    ("gen_forin_run_understood", "forin_run", _FF + "ForInCommand::run",
     ["Src_flowfor_run_for", "Src_flowfor_flow_run_for", "Src_flowfor_flow_run_for_invalid"]),
    ("gen_endforin_run_understood", "endforin_run", _FF + "EndForInCommand::run",
     ["Src_flowfor_run_endfor", "Src_flowfor_flow_run_endfor"]),
]
FLOWFOR_MODEL_THMS = ["Src_flowfor_model_pop_loop", "Src_flowfor_model_pop", "Src_flowfor_model_store", "Src_flowfor_model_next",
                      "Src_flowfor_model_meta_info", "Src_flowfor_model_step_for", "Src_flowfor_model_step_for_invalid",
                      "Src_flowfor_model_step_endfor", "Src_flowfor_model_rest_for", "Src_flowfor_model_rest_endfor",
                      "Src_flowfor_model_determines"]
Check.SRC_TIES.update({
    "flowfor": ("GenFlowforFn.v", "gen_flowfor_understood", "props/SrcFlowfor.vo", "DSP.SrcFlowfor", [],
                "duckscript_sdk/src/sdk/std/flowcontrol/forin/mod.rs (store_call_info, get_next_iteration, "
                "get_or_create_forin_meta_info_for_line, pop_call_info_for_line, ForInCommand::run, EndForInCommand::run)"),
})


def _flowfor_register():
    base = dict(getattr(Check, "SRC_TIES_BASE", {}))
    base["flowfor"] = []
    Check.SRC_TIES_BASE = base
    if "flowfor" not in getattr(Check, "SRC_TIES_PARTIAL", ()):
        Check.SRC_TIES_PARTIAL = tuple(getattr(Check, "SRC_TIES_PARTIAL", ())) + ("flowfor",)


_flowfor_register()
Check.SRC_TIES["flowfor"][4].extend(FLOWFOR_MODEL_THMS)
Check.SRC_TIES["flowfor"][4].extend(t for _f, _n, _w, _ts in FLOWFOR_FN_TIES for t in _ts)
_source_tie_before_flowfor_fns = Check.source_tie


def _source_tie_with_flowfor_fns(self, which):
    if which == "flowfor":
        _flowfor_register()       # robust against a later block that re-assigns the two class attributes
    ok = _source_tie_before_flowfor_fns(self, which)
    if which != "flowfor":
        return ok
    try:
        text = open(os.path.join(ROOT, "coq", "generated", "GenFlowforFn.v")).read()
    except OSError:
        text = ""
    info = self.coverage.setdefault("source_translation", {})
    fns = {}
    for flag, fn, what, thms in FLOWFOR_FN_TIES:
        if re.search(r"Definition %s : bool := true\." % flag, text) is not None:
            fns[fn] = {"active": True, "theorems": thms}
            continue
        m = re.search(r"\(\* NOT UNDERSTOOD %s: (.*?) \*\)" % re.escape(fn), text, re.S)
        why = m.group(1) if m else "generated file missing"
        fns[fn] = {"active": False, "reason": why}
        names = ["DSP.SrcFlowfor.%s" % t for t in thms]
        self.obligations[:] = [o for o in self.obligations if o not in names]
        self.discharged[:] = [o for o in self.discharged if o not in names]
        if isinstance(info.get("flowfor", {}).get("theorems"), list):
            info["flowfor"]["theorems"] = [t for t in info["flowfor"]["theorems"] if t not in thms]
        if info.get("flowfor", {}).get("active"):     # (when the key's own flag is false the base NOTE has been printed already)
            print("NOTE: property=%s translation tie for %s is inactive on this tree (translator: %s); "
                  "the correspondence run is the only tie for it in this run" % (self.prop, what, why), flush=True)
    info["flowfor_fns"] = {"file": "coq/generated/GenFlowforFn.v", "functions": fns, "model_theorems": FLOWFOR_MODEL_THMS,
                           "meaning": "each listed function of forin/mod.rs: its mechanical translation from the current source "
                                      "equals GVal of the g-model (FlowforLib.v: the Rust over the typed sub-states, WITH "
                                      "line_context_name) for all inputs — so no `arguments[i]` / `list[iteration]` panic arm and no "
                                      "fuel exhaustion of the pop loop is reachable — and, on the states Flow.v describes (every "
                                      "call-info entry carries the current line context name), equals Flow.for_meta_info / "
                                      "for_pop_top / for_pop / for_push / get_next_iteration / step_for / step_endfor (one flag per "
                                      "function; model_theorems: g-model = Flow.v, independent of the generated file)"}
    return ok


Check.source_tie = _source_tie_with_flowfor_fns


# --- appended (builder B25): translation tie "flowwhile" for C04 / C05 — the while / end_while commands and their helpers
# (duckscript_sdk/src/sdk/std/flowcontrol/while_mod/mod.rs: create_while_meta_info_for_line, get_or_create_while_meta_info_for_line,
# pop_call_info_for_line, store_call_info, WhileCommand::run, EndWhileCommand::run — the (de)serialisers are executed by the
# translator — and flowcontrol/mod.rs::get_line_key; lib/gen/flowwhile_gen.py -> coq/generated/GenFlowwhileFn.v, proofs
# coq/theories/FlowwhileGenTie.v, wrappers coq/props/SrcFlowwhile.v).  Same scheme as PARSER_REST_TIES / VAR_FN_TIES: the tie key's own
# flag (gen_flowwhile_understood) only says the generator ran; every generated function has its OWN flag in GenFlowwhileFn.v, a function
# the translator does not understand any more gets a stub, its theorems (stated under `flag = true`) hold vacuously, and
# source_tie("flowwhile") then reports exactly that tie as inactive (NOTE + evidence) and does not count its theorems as discharged.
# A theorem that speaks about several translated functions lists all their flags.
_FW = "duckscript_sdk/src/sdk/std/flowcontrol/"
_FW_META = ("gen_get_or_create_while_meta_info_for_line_understood", "gen_get_line_key_understood",
            "gen_create_while_meta_info_for_line_understood")
FLOWWHILE_FN_TIES = [
    (("gen_get_line_key_understood",), _FW + "mod.rs::get_line_key", ["Src_flowwhile_line_key"]),
    (("gen_create_while_meta_info_for_line_understood",), _FW + "while_mod/mod.rs::create_while_meta_info_for_line", ["Src_flowwhile_create"]),
    (_FW_META, _FW + "while_mod/mod.rs::get_or_create_while_meta_info_for_line", ["Src_flowwhile_meta_info"]),
    (("gen_pop_call_info_for_line_understood",), _FW + "while_mod/mod.rs::pop_call_info_for_line",
     ["Src_flowwhile_pop_all", "Src_flowwhile_pop"]),
    (("gen_store_call_info_understood",), _FW + "while_mod/mod.rs::store_call_info", ["Src_flowwhile_store"]),
    (("gen_while_run_understood", "gen_store_call_info_understood") + _FW_META, _FW + "while_mod/mod.rs::WhileCommand::run",
     ["Src_flowwhile_while_run", "Src_flowwhile_while_run_cond"]),
    (("gen_endwhile_run_understood", "gen_pop_call_info_for_line_understood", "gen_store_call_info_understood"),
     _FW + "while_mod/mod.rs::EndWhileCommand::run", ["Src_flowwhile_endwhile_run", "Src_flowwhile_endwhile_all"]),
]
Check.SRC_TIES.update({
    "flowwhile": ("GenFlowwhileFn.v", "gen_flowwhile_understood", "props/SrcFlowwhile.vo", "DSP.SrcFlowwhile", ["Src_flowwhile_line_key_inj"],
                  "the while / end_while commands (sdk/std/flowcontrol/while_mod/mod.rs: fn run of both commands and their helpers)"),
})
Check.SRC_TIES_BASE = dict(getattr(Check, "SRC_TIES_BASE", {}))
Check.SRC_TIES_BASE["flowwhile"] = list(Check.SRC_TIES["flowwhile"][4])
Check.SRC_TIES_PARTIAL = tuple(getattr(Check, "SRC_TIES_PARTIAL", ())) + ("flowwhile",)
Check.SRC_TIES["flowwhile"][4].extend(t for _f, _w, _ts in FLOWWHILE_FN_TIES for t in _ts)
_source_tie_before_flowwhile_fns = Check.source_tie


def _source_tie_with_flowwhile_fns(self, which):
    ok = _source_tie_before_flowwhile_fns(self, which)
    if which != "flowwhile":
        return ok
    try:
        text = open(os.path.join(ROOT, "coq", "generated", "GenFlowwhileFn.v")).read()
    except OSError:
        text = ""
    info = self.coverage.setdefault("source_translation", {})

    def on(flag):
        return re.search(r"Definition %s : bool := true\." % flag, text) is not None

    def why_not(flags):
        out = []
        for f in flags:
            if on(f):
                continue
            short = re.sub(r"^gen_|_understood$", "", f)
            m = re.search(r"\(\* NOT UNDERSTOOD: %s: (.*?) \*\)" % re.escape(short), text, re.S)
            out.append("%s: %s" % (short, " ".join(m.group(1).split())[:300] if m else "generated file missing"))
        return "; ".join(out)
    fns = {}
    for flags, what, thms in FLOWWHILE_FN_TIES:
        if all(on(f) for f in flags):
            fns[what] = {"active": True, "theorems": thms}
            continue
        why = why_not(flags)
        fns[what] = {"active": False, "reason": why}
        names = ["DSP.SrcFlowwhile.%s" % t for t in thms]
        self.obligations[:] = [o for o in self.obligations if o not in names]
        self.discharged[:] = [o for o in self.discharged if o not in names]
        if isinstance(info.get("flowwhile", {}).get("theorems"), list):
            info["flowwhile"]["theorems"] = [t for t in info["flowwhile"]["theorems"] if t not in thms]
        print("NOTE: property=%s translation tie for %s is inactive on this tree (translator: %s); "
              "the correspondence run is the only tie for it in this run" % (self.prop, what, why), flush=True)
    info["flowwhile_fns"] = {"file": "coq/generated/GenFlowwhileFn.v", "functions": fns,
                             "meaning": "each listed function: the hand model (Flow.v: create_loop_meta gen_while_tables, while_meta_info, "
                                        "wh_pop, wh_push, step_while, step_endwhile; FlowFnC.v: cstep_while) equals the mechanical "
                                        "translation of the current source on the typed states wst_of ctx f, for every context name ctx "
                                        "(the model omits line_context_name); result kind / goto target / flow state are compared, "
                                        "message texts are not (one flag per generated function)"}
    return ok


Check.source_tie = _source_tie_with_flowwhile_fns


# --- appended (builder B27): translation tie "flowfn" for C04 / C05 (no-panic content: C07) — the function / call / end_function /
# return commands (duckscript_sdk/src/sdk/std/flowcontrol/function/mod.rs: push_to_call_stack, pop_from_call_stack, run_call,
# FunctionCommand::run, EndFunctionCommand::run, ReturnCommand::run, with store_fn_info_in_state / get_fn_info_from_state inlined —
# the (de)serialisers are executed against each other by the translator; lib/gen/flowfn_gen.py -> coq/generated/GenFlowfnFn.v, proofs
# coq/theories/FlowfnGenTie.v, wrappers coq/props/SrcFlowfn.v).  Same scheme as PARSER_REST_TIES / VAR_FN_TIES: the tie key's own flag
# (gen_flowfn_understood) only says the generator ran; every generated function has its OWN flag in GenFlowfnFn.v, a function the
# translator does not understand any more gets a stub, its theorems (stated under `flag = true`) hold vacuously, and
# source_tie("flowfn") then reports exactly that tie as inactive (NOTE + evidence) and does not count its theorems as discharged.
# A theorem that speaks about two translated functions lists both flags.
_FFN = "duckscript_sdk/src/sdk/std/flowcontrol/function/mod.rs::"
FLOWFN_FN_TIES = [
    (("gen_push_to_call_stack_understood",), _FFN + "push_to_call_stack", ["Src_flowfn_push"]),
    (("gen_pop_from_call_stack_understood",), _FFN + "pop_from_call_stack", ["Src_flowfn_pop"]),
    (("gen_push_to_call_stack_understood", "gen_pop_from_call_stack_understood"),
     _FFN + "pop_from_call_stack after push_to_call_stack (mutually inverse)", ["Src_flowfn_pop_push"]),
    (("gen_function_run_understood",), _FFN + "FunctionCommand::run",
     ["Src_flowfn_function", "Src_flowfn_function_step", "Src_flowfn_function_no_panic"]),
    (("gen_run_call_understood",), _FFN + "run_call", ["Src_flowfn_run_call", "Src_flowfn_call_step", "Src_flowfn_run_call_no_panic"]),
    (("gen_end_function_run_understood",), _FFN + "EndFunctionCommand::run",
     ["Src_flowfn_end_function", "Src_flowfn_end_function_no_panic"]),
    (("gen_return_run_understood",), _FFN + "ReturnCommand::run",
     ["Src_flowfn_return", "Src_flowfn_return_step", "Src_flowfn_return_no_panic"]),
]
Check.SRC_TIES.update({
    "flowfn": ("GenFlowfnFn.v", "gen_flowfn_understood", "props/SrcFlowfn.vo", "DSP.SrcFlowfn", [],
               "the function / call / end_function / return commands (sdk/std/flowcontrol/function/mod.rs)"),
})


def _flowfn_register():
    base = dict(getattr(Check, "SRC_TIES_BASE", {}))
    base["flowfn"] = []
    Check.SRC_TIES_BASE = base
    if "flowfn" not in getattr(Check, "SRC_TIES_PARTIAL", ()):
        Check.SRC_TIES_PARTIAL = tuple(getattr(Check, "SRC_TIES_PARTIAL", ())) + ("flowfn",)


_flowfn_register()
Check.SRC_TIES["flowfn"][4].extend(t for _f, _w, _ts in FLOWFN_FN_TIES for t in _ts)
_source_tie_before_flowfn_fns = Check.source_tie


def _source_tie_with_flowfn_fns(self, which):
    if which == "flowfn":
        _flowfn_register()       # robust against a later block that re-assigns the two class attributes
    ok = _source_tie_before_flowfn_fns(self, which)
    if which != "flowfn":
        return ok
    try:
        text = open(os.path.join(ROOT, "coq", "generated", "GenFlowfnFn.v")).read()
    except OSError:
        text = ""
    info = self.coverage.setdefault("source_translation", {})

    def on(flag):
        return re.search(r"Definition %s : bool := true\." % flag, text) is not None

    def why_not(flags):
        out = []
        for f in flags:
            if on(f):
                continue
            short = re.sub(r"^gen_|_understood$", "", f)
            m = re.search(r"\(\* NOT UNDERSTOOD %s: (.*?) \*\)" % re.escape(short), text, re.S)
            out.append("%s: %s" % (short, " ".join(m.group(1).split())[:300] if m else "generated file missing"))
        return "; ".join(out)
    fns = {}
    for flags, what, thms in FLOWFN_FN_TIES:
        if all(on(f) for f in flags):
            fns[what] = {"active": True, "theorems": thms}
            continue
        why = why_not(flags)
        fns[what] = {"active": False, "reason": why}
        names = ["DSP.SrcFlowfn.%s" % t for t in thms]
        self.obligations[:] = [o for o in self.obligations if o not in names]
        self.discharged[:] = [o for o in self.discharged if o not in names]
        if isinstance(info.get("flowfn", {}).get("theorems"), list):
            info["flowfn"]["theorems"] = [t for t in info["flowfn"]["theorems"] if t not in thms]
        print("NOTE: property=%s translation tie for %s is inactive on this tree (translator: %s); "
              "the correspondence run is the only tie for it in this run" % (self.prop, what, why), flush=True)
    info["flowfn_fns"] = {"file": "coq/generated/GenFlowfnFn.v", "functions": fns,
                          "meaning": "each listed function: the hand model (FlowFn.v: step_function on the decoded `fn [<scope>] name`, "
                                     "step_call = command lookup + run_call + the runner's update_output, step_endfn, step_return on the "
                                     "expanded argument; the typed call stack x_push / x_pop) equals the mechanical translation of the "
                                     "current source on the states xlift lcn g, for every line context name lcn (the model omits "
                                     "line_context_name; run_call: at most nine arguments, the model's one-digit index names); the "
                                     "call-stack / meta-info (de)serialisers are executed against each other, not assumed; the "
                                     "`context.arguments[i]` RPanic arms are dead (one flag per generated function)"}
    return ok


Check.source_tie = _source_tie_with_flowfn_fns


# --- appended (builder B24): translation tie "flowif" for C04 / C05 — the if / elseif / else / end_if commands of
# duckscript_sdk/src/sdk/std/flowcontrol/ifelse/mod.rs (get_or_create_if_meta_info_for_line, create_if_meta_info_for_line,
# pop_call_info_for_line, store_call_info, the four `run` functions) plus fn get_line_key of flowcontrol/mod.rs and fn set_command
# of end/mod.rs (lib/gen/flowif_gen.py -> coq/generated/GenFlowifFn.v, proofs coq/theories/FlowifGenTie.v, wrappers
# coq/props/SrcFlowif.v).  Same scheme as PARSER_REST_TIES / VAR_FN_TIES: the tie key's own flag (gen_flowif_understood) only says
# the generator ran; every generated function has its OWN flag in GenFlowifFn.v, a function the translator does not understand any
# more (or that calls one it does not understand, or whose serialise / deserialise pair is no longer accepted as mutually
# inverse) gets a stub, its theorems (stated under `flag = true`) hold vacuously, and source_tie("flowif") then reports exactly
# that tie as inactive (NOTE + evidence) and does not count its theorems as discharged.
_FLOWIF_RS = "duckscript_sdk/src/sdk/std/flowcontrol/ifelse/mod.rs::"
FLOWIF_FN_TIES = [
    (("gen_get_line_key_understood",), "duckscript_sdk/src/sdk/std/flowcontrol/mod.rs::get_line_key", ["Src_flowif_line_key"]),
    (("gen_end_set_command_understood",), "duckscript_sdk/src/sdk/std/flowcontrol/end/mod.rs::set_command", ["Src_flowif_end_set"]),
    (("gen_create_if_meta_info_for_line_understood",), _FLOWIF_RS + "create_if_meta_info_for_line", ["Src_flowif_create_if_meta"]),
    (("gen_get_or_create_if_meta_info_for_line_understood",), _FLOWIF_RS + "get_or_create_if_meta_info_for_line",
     ["Src_flowif_if_meta_info"]),
    (("gen_store_call_info_understood",), _FLOWIF_RS + "store_call_info", ["Src_flowif_if_push"]),
    (("gen_pop_call_info_for_line_understood",), _FLOWIF_RS + "pop_call_info_for_line", ["Src_flowif_if_pop"]),
    (("gen_if_run_understood",), _FLOWIF_RS + "IfCommand::run", ["Src_flowif_step_if", "Src_flowif_step_if_noargs", "Src_flowif_cstep_if"]),
    (("gen_elseif_run_understood",), _FLOWIF_RS + "ElseIfCommand::run",
     ["Src_flowif_step_elseif", "Src_flowif_step_elseif_noargs", "Src_flowif_cstep_elseif"]),
    (("gen_else_run_understood",), _FLOWIF_RS + "ElseCommand::run", ["Src_flowif_step_else"]),
    (("gen_endif_run_understood",), _FLOWIF_RS + "EndIfCommand::run", ["Src_flowif_endif"]),
]
Check.SRC_TIES.update({
    "flowif": ("GenFlowifFn.v", "gen_flowif_understood", "props/SrcFlowif.vo", "DSP.SrcFlowif", ["Src_flowif_emb_inj"],
               "the if / elseif / else / end_if commands (sdk/std/flowcontrol/ifelse/mod.rs; get_line_key; end::set_command)"),
})


def _flowif_register():
    base = dict(getattr(Check, "SRC_TIES_BASE", {}))
    base["flowif"] = ["Src_flowif_emb_inj"]
    Check.SRC_TIES_BASE = base
    if "flowif" not in getattr(Check, "SRC_TIES_PARTIAL", ()):
        Check.SRC_TIES_PARTIAL = tuple(getattr(Check, "SRC_TIES_PARTIAL", ())) + ("flowif",)


_flowif_register()
Check.SRC_TIES["flowif"][4].extend(t for _f, _w, _ts in FLOWIF_FN_TIES for t in _ts)
_source_tie_before_flowif_fns = Check.source_tie


def _source_tie_with_flowif_fns(self, which):
    if which == "flowif":
        _flowif_register()       # robust against a later block that re-assigns the two class attributes
    ok = _source_tie_before_flowif_fns(self, which)
    if which != "flowif":
        return ok
    try:
        text = open(os.path.join(ROOT, "coq", "generated", "GenFlowifFn.v")).read()
    except OSError:
        text = ""
    info = self.coverage.setdefault("source_translation", {})

    def on(flag):
        return re.search(r"Definition %s : bool := true\." % flag, text) is not None

    def why_not(flags):
        out = []
        for f in flags:
            if on(f):
                continue
            short = re.sub(r"^gen_|_understood$", "", f)
            m = re.search(r"\(\* NOT UNDERSTOOD %s: (.*?) \*\)" % re.escape(short), text, re.S)
            out.append("%s: %s" % (short, " ".join(m.group(1).split())[:300] if m else "generated file missing"))
        return "; ".join(out)
    fns = {}
    for flags, what, thms in FLOWIF_FN_TIES:
        if all(on(f) for f in flags):
            fns[what] = {"active": True, "theorems": thms}
            continue
        why = why_not(flags)
        fns[what] = {"active": False, "reason": why}
        names = ["DSP.SrcFlowif.%s" % t for t in thms]
        self.obligations[:] = [o for o in self.obligations if o not in names]
        self.discharged[:] = [o for o in self.discharged if o not in names]
        if isinstance(info.get("flowif", {}).get("theorems"), list):
            info["flowif"]["theorems"] = [t for t in info["flowif"]["theorems"] if t not in thms]
        print("NOTE: property=%s translation tie for %s is inactive on this tree (translator: %s); "
              "the correspondence run is the only tie for it in this run" % (self.prop, what, why), flush=True)
    info["flowif_fns"] = {"file": "coq/generated/GenFlowifFn.v", "functions": fns,
                          "meaning": "each listed function: the hand model (Flow.v: create_if_meta, if_meta_info, if_pop, if_push, step_if, "
                                     "step_elseif, step_else, the end-if / wrong-shape arms of step; FlowFnC.v: cstep_if, cstep_elseif) equals "
                                     "the mechanical translation of the current source on the image of the injective embedding emb lcn / "
                                     "embC lcn of model states, for every constant line context name lcn (the model omits "
                                     "line_context_name: every CallInfo carries lcn, the cache / end-table keys are `lcn::line`); the "
                                     "serialise / deserialise pairs are checked on the source to be mutually inverse field by field before "
                                     "the typed view of the state is used; the loop of pop_call_info_for_line never runs out of fuel "
                                     "(one flag per generated function)"}
    return ok


Check.source_tie = _source_tie_with_flowif_fns


# --- appended (builder B25, second part): utils/pckg.rs::concat — the function the translations above spell pckg_concat at its call
# sites — is translated too (gen_pckg_concat, own flag) and proved equal to FlowwhileGenLib.pckg_concat.
FLOWWHILE_FN_TIES.insert(0, (("gen_pckg_concat_understood",), "duckscript_sdk/src/utils/pckg.rs::concat", ["Src_flowwhile_pckg_concat"]))
Check.SRC_TIES["flowwhile"][4].append("Src_flowwhile_pckg_concat")


# --- appended (builder B27, second part): three more theorems of props/SrcFlowfn.v for the tie "flowfn" — the call made under a
# condition-position evaluation (FlowFnC.step_call_eval, the machine of C05_sim_cond) is run_call (flag of run_call), and the
# association-list scope push / pop the translations of function/mod.rs are configured with ARE Scope.v's m_push / m_pop (the
# functions the tie "var" proves equal to utils/scope.rs) read through list_to_map — hand-model theorems, no flag: checked
# whenever source_tie("flowfn") runs.
FLOWFN_FN_TIES.append((("gen_run_call_understood",), _FFN + "run_call under a condition-position evaluation (FlowFnC.step_call_eval)",
                       ["Src_flowfn_call_eval_step"]))
Check.SRC_TIES["flowfn"][4].extend(["Src_flowfn_call_eval_step", "Src_flowfn_scope_push", "Src_flowfn_scope_pop"])


# --- appended (builder B28): translation tie "json" for C17 (no-panic content: C07) — the JSON <-> nested-handle glue of
# `json_parse --collection` / `json_encode --collection`: create_structure and fn run of
# duckscript_sdk/src/sdk/std/json/parse/mod.rs, encode_from_state_value / encode_from_state and fn run of json/encode/mod.rs
# (lib/gen/json_gen.py -> coq/generated/GenJsonFn.v, proofs coq/theories/JsonGenTie.v, wrappers coq/props/SrcJson.v).  Same scheme
# as COLLECTIONS_FN_TIES / FLOWIF_FN_TIES: the tie key's own flag (gen_json_understood) only says the generator ran; every
# function has its OWN flag in GenJsonFn.v, a function the translator does not understand any more gets a stub, the theorems
# that mention it (stated under `flag = true`) hold vacuously, and source_tie("json") then reports exactly those ties as
# inactive (NOTE + evidence) and does not count their theorems as discharged.
_JP, _JE = "duckscript_sdk/src/sdk/std/json/parse/mod.rs::", "duckscript_sdk/src/sdk/std/json/encode/mod.rs::"
_JCS = ("gen_create_structure_step_understood", "gen_create_structure_understood")
_JEV = ("gen_encode_from_state_value_step_understood", "gen_encode_from_state_value_understood")
JSON_FN_TIES = [
    (_JCS[:1], _JP + "create_structure (one recursion step)", ["Src_json_create_structure_step"]),
    (_JCS, _JP + "create_structure", ["Src_json_create_structure"]),
    (_JEV, _JE + "encode_from_state_value", ["Src_json_encode_from_state_value"]),
    (_JEV + ("gen_encode_from_state_understood",), _JE + "encode_from_state", ["Src_json_encode_from_state"]),
    (_JCS + ("gen_run_parse_understood",), _JP + "run", ["Src_json_run_parse"]),
    (_JEV + ("gen_encode_from_state_understood", "gen_run_encode_understood"), _JE + "run", ["Src_json_run_encode"]),
    (_JCS + _JEV + ("gen_encode_from_state_understood",), "json_parse --collection then json_encode --collection (C17_json_fuel about the "
     "translations)", ["Src_json_roundtrip"]),
]
Check.SRC_TIES.update({
    "json": ("GenJsonFn.v", "gen_json_understood", "props/SrcJson.vo", "DSP.SrcJson", [],
             "json/parse/mod.rs::{create_structure, run} and json/encode/mod.rs::{encode_from_state_value, encode_from_state, run}"),
})


def _json_register():
    base = dict(getattr(Check, "SRC_TIES_BASE", {}))
    base["json"] = []
    Check.SRC_TIES_BASE = base
    if "json" not in getattr(Check, "SRC_TIES_PARTIAL", ()):
        Check.SRC_TIES_PARTIAL = tuple(getattr(Check, "SRC_TIES_PARTIAL", ())) + ("json",)


_json_register()
Check.SRC_TIES["json"][4].extend(t for _f, _w, _ts in JSON_FN_TIES for t in _ts)
_source_tie_before_json_fns = Check.source_tie


def _source_tie_with_json_fns(self, which):
    if which == "json":
        _json_register()       # robust against a later block that re-assigns the two class attributes
    ok = _source_tie_before_json_fns(self, which)
    if which != "json":
        return ok
    try:
        text = open(os.path.join(ROOT, "coq", "generated", "GenJsonFn.v")).read()
    except OSError:
        text = ""
    info = self.coverage.setdefault("source_translation", {})

    def on(flag):
        return re.search(r"Definition %s : bool := true\." % flag, text) is not None

    def why_not(flags):
        out = []
        for f in flags:
            if on(f):
                continue
            short = re.sub(r"^gen_|_understood$", "", f)
            m = re.search(r"\(\* NOT UNDERSTOOD %s: (.*?) \*\)" % re.escape(short), text, re.S)
            out.append("%s: %s" % (short, " ".join(m.group(1).split())[:300] if m else "generated file missing"))
        return "; ".join(out)
    fns = {}
    for flags, what, thms in JSON_FN_TIES:
        if all(on(f) for f in flags):
            fns[what] = {"active": True, "theorems": thms}
            continue
        why = why_not(flags)
        fns[what] = {"active": False, "reason": why}
        names = ["DSP.SrcJson.%s" % t for t in thms]
        self.obligations[:] = [o for o in self.obligations if o not in names]
        self.discharged[:] = [o for o in self.discharged if o not in names]
        if isinstance(info.get("json", {}).get("theorems"), list):
            info["json"]["theorems"] = [t for t in info["json"]["theorems"] if t not in thms]
        print("NOTE: property=%s translation tie for %s is inactive on this tree (translator: %s); "
              "the correspondence run is the only tie for it in this run" % (self.prop, what, why), flush=True)
    info["json_fns"] = {"file": "coq/generated/GenJsonFn.v", "functions": fns,
                        "meaning": "each listed function: the hand model (Json.v: create_structure, encode_from_state_value, "
                                   "encode_from_state; JsonRun.v: cs_step, run_parse, run_encode) equals the mechanical translation of "
                                   "the current source for all documents, stores, fuels, argument vectors and oracles (parse_json / "
                                   "Value::to_string are oracle parameters; error texts erased; the encoder over String / List / SubState "
                                   "values never answers Err; every context.arguments[i] an explicit JPanic arm, never reached; the "
                                   "variable glue create_variables / encode_from_variables is NOT translated: JVars) (one flag per function)"}
    return ok


Check.source_tie = _source_tie_with_json_fns


# --- appended (builder B31): translation tie "regcmds" for C15 (no-panic content: C07) — the `run` functions of the script-level
# registry commands alias / unalias / remove_command / is_command_defined (duckscript_sdk/src/sdk/std/lib/alias/{set,unset}/mod.rs,
# lib/command/remove/mod.rs, is_command_defined/mod.rs; lib/gen/regcmds_gen.py -> coq/generated/GenRegcmdsFn.v, proofs
# coq/theories/RegcmdsGenTie.v, wrappers coq/props/SrcRegcmds.v).  Same scheme as PARSER_REST_TIES / STRINGS_CMD_TIES: the tie key's
# own flag (gen_regcmds_understood) only says the generator ran; every command has its OWN flag, a command the translator does not
# understand any more gets a stub, its theorem (stated under `flag = true`) holds vacuously, and source_tie("regcmds") then reports
# exactly that command's tie as inactive (NOTE + evidence) and does not count its theorem as discharged.
_REGCMDS_STD = "duckscript_sdk/src/sdk/std/"
REGCMDS_CMD_TIES = [
    (("gen_cmd_is_command_defined_understood",), _REGCMDS_STD + "is_command_defined/mod.rs::run", ["Src_regcmds_is_command_defined"]),
    (("gen_cmd_remove_command_understood",), _REGCMDS_STD + "lib/command/remove/mod.rs::run", ["Src_regcmds_remove_command"]),
    (("gen_cmd_unalias_understood",), _REGCMDS_STD + "lib/alias/unset/mod.rs::run", ["Src_regcmds_unalias"]),
    (("gen_cmd_alias_understood",), _REGCMDS_STD + "lib/alias/set/mod.rs::{run, create_alias_command}", ["Src_regcmds_alias"]),
    (("gen_cmd_is_command_defined_understood", "gen_cmd_remove_command_understood", "gen_cmd_unalias_understood",
      "gen_cmd_alias_understood"), "histories of the four script-level registry commands (Registry.srun)", ["Src_regcmds_srun"]),
]
Check.SRC_TIES.update({
    "regcmds": ("GenRegcmdsFn.v", "gen_regcmds_understood", "props/SrcRegcmds.vo", "DSP.SrcRegcmds", [],
                "duckscript_sdk/src/sdk/std: run of alias / unalias / remove_command / is_command_defined"),
})


def _regcmds_register():
    base = dict(getattr(Check, "SRC_TIES_BASE", {}))
    base["regcmds"] = []
    Check.SRC_TIES_BASE = base
    if "regcmds" not in getattr(Check, "SRC_TIES_PARTIAL", ()):
        Check.SRC_TIES_PARTIAL = tuple(getattr(Check, "SRC_TIES_PARTIAL", ())) + ("regcmds",)


_regcmds_register()
Check.SRC_TIES["regcmds"][4].extend(t for _f, _w, _ts in REGCMDS_CMD_TIES for t in _ts)
_source_tie_before_regcmds = Check.source_tie


def _source_tie_with_regcmds(self, which):
    if which == "regcmds":
        _regcmds_register()       # robust against a later block that re-assigns the two class attributes
    ok = _source_tie_before_regcmds(self, which)
    if which != "regcmds":
        return ok
    try:
        text = open(os.path.join(ROOT, "coq", "generated", "GenRegcmdsFn.v")).read()
    except OSError:
        text = ""
    info = self.coverage.setdefault("source_translation", {})

    def on(flag):
        return re.search(r"Definition %s : bool := true\." % flag, text) is not None

    def why_not(flags):
        out = []
        for f in flags:
            if on(f):
                continue
            short = re.sub(r"^gen_cmd_|_understood$", "", f)
            m = re.search(r"\(\* NOT UNDERSTOOD %s: (.*?) \*\)" % re.escape(short), text, re.S)
            out.append("%s: %s" % (short, " ".join(m.group(1).split())[:300] if m else "generated file missing"))
        return "; ".join(out)
    cmds = {}
    for flags, what, thms in REGCMDS_CMD_TIES:
        if all(on(f) for f in flags):
            cmds[what] = {"active": True, "theorems": thms}
            continue
        why = why_not(flags)
        cmds[what] = {"active": False, "reason": why}
        names = ["DSP.SrcRegcmds.%s" % t for t in thms]
        self.obligations[:] = [o for o in self.obligations if o not in names]
        self.discharged[:] = [o for o in self.discharged if o not in names]
        if isinstance(info.get("regcmds", {}).get("theorems"), list):
            info["regcmds"]["theorems"] = [t for t in info["regcmds"]["theorems"] if t not in thms]
        print("NOTE: property=%s translation tie for %s is inactive on this tree (translator: %s); "
              "the correspondence run is the only tie for it in this run" % (self.prop, what, why), flush=True)
    info["regcmds_cmds"] = {"file": "coq/generated/GenRegcmdsFn.v", "commands": cmds,
                            "meaning": "each listed command: the arm of the hand model Registry.sstep (SAlias / SUnalias / SRemoveCommand / "
                                       "SIsDefined) equals the mechanical translation of the current `run` for all argument vectors and all "
                                       "states (registry, alias sub-state as a set of names, fn names), and the translation (every "
                                       "arguments[i] / arguments[1..] an explicit panic arm = None) never panics; the registry methods the "
                                       "commands call are the hand model functions tied to `impl Commands` by the tie `registry` "
                                       "(one flag per command)"}
    return ok


Check.source_tie = _source_tie_with_regcmds


# --- appended (builder B32): translation tie "codeccmds" for C17 (and C07: the `arguments[i]` panic arms are shown dead) — the
# `run` functions of the byte / base64 / properties glue commands (duckscript_sdk/src/sdk/std/string/{string_to_bytes,
# bytes_to_string, base64_encode, base64_decode}/mod.rs, collections/{map_to_properties, map_load_properties}/mod.rs;
# lib/gen/codeccmds_gen.py -> coq/generated/GenCodeccmdsFn.v, command models coq/theories/CodecCmds.v, proofs
# coq/theories/CodeccmdsGenTie.v, wrappers coq/props/SrcCodeccmds.v).  Same scheme as PARSER_REST_TIES / STRINGS_CMD_TIES: the
# tie key's own flag (gen_codeccmds_understood) only says the generator ran; every command has its OWN flag in
# GenCodeccmdsFn.v, a command the translator does not understand any more gets a stub, its theorem (stated under `flag = true`)
# holds vacuously, and source_tie("codeccmds") then reports exactly that command's tie as inactive (NOTE + evidence) and does not
# count its theorem as discharged.  The flag-less theorems (the C17 round trips THROUGH the command models) are checked whenever
# source_tie("codeccmds") runs.  A command that is not (yet) in GenCodeccmdsFn.v at all is skipped silently.
CODECCMDS_CMD_TIES = [
    ("gen_cmd_%s_understood" % _c, "duckscript_sdk/src/sdk/std/%s/mod.rs::run" % _p, ["Src_codeccmds_%s" % _c])
    for _c, _p in [
        ("string_to_bytes", "string/string_to_bytes"), ("bytes_to_string", "string/bytes_to_string"),
        ("base64_encode", "string/base64_encode"), ("base64_decode", "string/base64_decode"),
        ("map_to_properties", "collections/map_to_properties"), ("map_load_properties", "collections/map_load_properties")]
]
CODECCMDS_BASE_THMS = ["Src_codeccmds_utf8_roundtrip", "Src_codeccmds_b64_roundtrip", "Src_codeccmds_text_b64_roundtrip"]
CODECCMDS_PROPS_THMS = ["Src_codeccmds_properties_roundtrip"]     # present once the two properties commands are covered
Check.SRC_TIES.update({
    "codeccmds": ("GenCodeccmdsFn.v", "gen_codeccmds_understood", "props/SrcCodeccmds.vo", "DSP.SrcCodeccmds",
                  list(CODECCMDS_BASE_THMS),
                  "duckscript_sdk/src/sdk/std: run of string_to_bytes / bytes_to_string / base64_encode / base64_decode / "
                  "map_to_properties / map_load_properties"),
})


def _codeccmds_text():
    try:
        return open(os.path.join(ROOT, "coq", "generated", "GenCodeccmdsFn.v")).read()
    except OSError:
        return ""


def _codeccmds_covered():
    """the commands GenCodeccmdsFn.v has a flag for (true or false), and whether props/SrcCodeccmds.v states the properties link"""
    text = _codeccmds_text()
    cmds = [(f, w, ts) for f, w, ts in CODECCMDS_CMD_TIES if re.search(r"Definition %s : bool := " % f, text)]
    try:
        src = open(os.path.join(ROOT, "coq", "props", "SrcCodeccmds.v")).read()
    except OSError:
        src = ""
    extra = [t for t in CODECCMDS_PROPS_THMS if re.search(r"Theorem %s\b" % t, src)]
    return cmds, extra


def _codeccmds_register():
    cmds, extra = _codeccmds_covered()
    base = dict(getattr(Check, "SRC_TIES_BASE", {}))
    base["codeccmds"] = list(CODECCMDS_BASE_THMS) + extra
    Check.SRC_TIES_BASE = base
    if "codeccmds" not in getattr(Check, "SRC_TIES_PARTIAL", ()):
        Check.SRC_TIES_PARTIAL = tuple(getattr(Check, "SRC_TIES_PARTIAL", ())) + ("codeccmds",)
    Check.SRC_TIES["codeccmds"][4][:] = base["codeccmds"] + [t for _f, _w, ts in cmds for t in ts]
    return cmds


_codeccmds_register()
_source_tie_before_codeccmds = Check.source_tie


def _source_tie_with_codeccmds(self, which):
    if which != "codeccmds":
        return _source_tie_before_codeccmds(self, which)
    cmds = _codeccmds_register()       # after gen_from_source of this run; robust against later re-assignments
    ok = _source_tie_before_codeccmds(self, which)
    text = _codeccmds_text()
    info = self.coverage.setdefault("source_translation", {})
    out = {}
    for flag, what, thms in cmds:
        cmd = flag[len("gen_cmd_"):-len("_understood")]
        if re.search(r"Definition %s : bool := true\." % flag, text) is not None:
            out[cmd] = {"active": True, "theorems": thms}
            continue
        m = re.search(r"\(\* NOT UNDERSTOOD %s: (.*?) \*\)" % re.escape(cmd), text, re.S)
        why = " ".join(m.group(1).split())[:300] if m else "generated file missing"
        out[cmd] = {"active": False, "reason": why}
        names = ["DSP.SrcCodeccmds.%s" % t for t in thms]
        self.obligations[:] = [o for o in self.obligations if o not in names]
        self.discharged[:] = [o for o in self.discharged if o not in names]
        if isinstance(info.get("codeccmds", {}).get("theorems"), list):
            info["codeccmds"]["theorems"] = [t for t in info["codeccmds"]["theorems"] if t not in thms]
        print("NOTE: property=%s translation tie for %s is inactive on this tree (translator: %s); "
              "the correspondence run is the only tie for it in this run" % (self.prop, what, why), flush=True)
    info["codeccmds_cmds"] = {"file": "coq/generated/GenCodeccmdsFn.v", "commands": out,
                              "meaning": "each listed command: the command model cmd_<name> (CodecCmds.v: argument test, handle "
                                         "lookup, kind of the value found, error kinds, put_handle, around the codec functions of "
                                         "Codec.v / CodecProps.v) equals the mechanical translation of the current `run` for all "
                                         "argument vectors and all states of the handle table, and the translation (every "
                                         "arguments[i] an explicit CPanic arm) never panics (one flag per command)"}
    return ok


Check.source_tie = _source_tie_with_codeccmds


# --- appended (builder B28, second part): finding F23 read off the translation of encode_from_state_value — on a store whose
# list holds its own handle the translated encoder is out of fuel for EVERY fuel (props/SrcJson.v, flags of the encoder).
JSON_FN_TIES.append((_JEV, _JE + "encode_from_state_value on a store with a cycle (F23: out of fuel for every fuel)",
                     ["Src_json_cycle_out_of_fuel"]))
Check.SRC_TIES["json"][4].append("Src_json_cycle_out_of_fuel")


# --- appended (builder B30): translation tie "smallnat" for C03 / C04 / C05 / C09 (no-panic content: C07) — the small native commands
# the flow / wrapped-call models pass through: the generic `end` dispatch (sdk/std/flowcontrol/end/mod.rs: get_command,
# CommandImpl::run), goto (flowcontrol/goto/mod.rs), not (not/mod.rs), noop (noop/mod.rs), eval (eval/mod.rs + fn eval /
# eval_with_error of utils/eval.rs)  (lib/gen/smallnat_gen.py -> coq/generated/GenSmallnatFn.v, proofs coq/theories/SmallnatGenTie.v +
# SmallnatLink.v, wrappers coq/props/SrcSmallnat.v).  Same scheme as FLOWIF_FN_TIES: the tie key's own flag (gen_smallnat_understood)
# only says the generator ran; every generated function has its OWN flag, a function the translator does not understand any more
# (or that calls one it does not understand) gets a stub, its theorems (stated under `flag = true`) hold vacuously, and
# source_tie("smallnat") then reports exactly that tie as inactive (NOTE + evidence) and does not count its theorems as
# discharged.  gen_end_get_command calls GenFlowifFn.gen_get_line_key (tie "flowif"): that flag is looked up in GenFlowifFn.v.
_SN_STD = "duckscript_sdk/src/sdk/std/"
_SN_END = ("gen_get_line_key_understood", "gen_end_get_command_understood")
_SN_EVAL = ("gen_eval_understood", "gen_eval_with_error_understood", "gen_eval_run_understood")
SMALLNAT_FN_TIES = [
    (_SN_END, _SN_STD + "flowcontrol/end/mod.rs::get_command", ["Src_smallnat_end_get"]),
    (_SN_END + ("gen_end_run_understood",), _SN_STD + "flowcontrol/end/mod.rs::CommandImpl::run",
     ["Src_smallnat_step_end", "Src_smallnat_step_end_fn"]),
    (("gen_goto_run_understood",), _SN_STD + "flowcontrol/goto/mod.rs::CommandImpl::run",
     ["Src_smallnat_goto", "Src_smallnat_goto_jump", "Src_smallnat_goto_no_panic"]),
    (("gen_not_run_understood",), _SN_STD + "not/mod.rs::CommandImpl::run",
     ["Src_smallnat_not", "Src_smallnat_not_cnot", "Src_smallnat_not_fcnot", "Src_smallnat_not_no_panic"]),
    (("gen_noop_run_understood",), _SN_STD + "noop/mod.rs::CommandImpl::run", ["Src_smallnat_noop"]),
    (_SN_EVAL, _SN_STD + "eval/mod.rs::CommandImpl::run + duckscript_sdk/src/utils/eval.rs::eval_with_error / eval",
     ["Src_smallnat_eval", "Src_smallnat_eval_parsed", "Src_smallnat_eval_no_panic"]),
]
_SN_BASE = ["Src_smallnat_end_dispatch_step", "Src_smallnat_end_dispatch_fn_step", "Src_smallnat_goto_exec", "Src_smallnat_eval_call"]
Check.SRC_TIES.update({
    "smallnat": ("GenSmallnatFn.v", "gen_smallnat_understood", "props/SrcSmallnat.vo", "DSP.SrcSmallnat", list(_SN_BASE),
                 "the small native commands end (generic dispatch) / goto / not / noop / eval (sdk/std/flowcontrol/{end,goto}, "
                 "sdk/std/{not,noop,eval}, utils/eval.rs::eval_with_error)"),
})


def _smallnat_register():
    base = dict(getattr(Check, "SRC_TIES_BASE", {}))
    base["smallnat"] = list(_SN_BASE)
    Check.SRC_TIES_BASE = base
    if "smallnat" not in getattr(Check, "SRC_TIES_PARTIAL", ()):
        Check.SRC_TIES_PARTIAL = tuple(getattr(Check, "SRC_TIES_PARTIAL", ())) + ("smallnat",)


_smallnat_register()
Check.SRC_TIES["smallnat"][4].extend(t for _f, _w, _ts in SMALLNAT_FN_TIES for t in _ts)
_source_tie_before_smallnat_fns = Check.source_tie


def _source_tie_with_smallnat_fns(self, which):
    if which == "smallnat":
        _smallnat_register()       # robust against a later block that re-assigns the two class attributes
    ok = _source_tie_before_smallnat_fns(self, which)
    if which != "smallnat":
        return ok
    text = ""
    for g in ("GenSmallnatFn.v", "GenFlowifFn.v"):
        try:
            text += open(os.path.join(ROOT, "coq", "generated", g)).read() + "\n"
        except OSError:
            pass
    info = self.coverage.setdefault("source_translation", {})

    def on(flag):
        return re.search(r"Definition %s : bool := true\." % flag, text) is not None

    def why_not(flags):
        out = []
        for f in flags:
            if on(f):
                continue
            short = re.sub(r"^gen_|_understood$", "", f)
            m = re.search(r"\(\* NOT UNDERSTOOD %s: (.*?) \*\)" % re.escape(short), text, re.S)
            out.append("%s: %s" % (short, " ".join(m.group(1).split())[:300] if m else "generated file missing"))
        return "; ".join(out)
    fns = {}
    for flags, what, thms in SMALLNAT_FN_TIES:
        if all(on(f) for f in flags):
            fns[what] = {"active": True, "theorems": thms}
            continue
        why = why_not(flags)
        fns[what] = {"active": False, "reason": why}
        names = ["DSP.SrcSmallnat.%s" % t for t in thms]
        self.obligations[:] = [o for o in self.obligations if o not in names]
        self.discharged[:] = [o for o in self.discharged if o not in names]
        if isinstance(info.get("smallnat", {}).get("theorems"), list):
            info["smallnat"]["theorems"] = [t for t in info["smallnat"]["theorems"] if t not in thms]
        print("NOTE: property=%s translation tie for %s is inactive on this tree (translator: %s); "
              "the correspondence run is the only tie for it in this run" % (self.prop, what, why), flush=True)
    info["smallnat_fns"] = {"file": "coq/generated/GenSmallnatFn.v", "functions": fns,
                            "meaning": "each listed function equals, for all inputs, the mechanical translation of the current source: "
                                       "end = Flow.step_end / FlowFn.step_end_fn on the image of the embedding emb lcn / embC lcn (end-table "
                                       "lookup under the key `lcn::line`, dispatch to the stored command at this line, for every "
                                       "run_instruction that does what the machine's own step does); goto / not / noop / eval = the "
                                       "command-level functions goto_cmd / not_cmd / noop_cmd / eval_cmd of SmallnatGenTie.v, linked to "
                                       "Runner.exec (C03), Flow.eval_cond CNot / FlowFnC.ceval FCNot (C04 / C05) and EvalSer.eval_parse / "
                                       "eval_call (C09); results are compared by kind, output, goto target and error CODE (message texts "
                                       "are not); callees run_instruction / eval_condition / parse are function parameters "
                                       "(one flag per generated function)"}
    return ok


Check.source_tie = _source_tie_with_smallnat_fns


# --- appended (builder B29): translation tie "fs" for C18 — the `run` functions of the file commands
# (duckscript_sdk/src/sdk/std/fs/{touch,mkdir,rmdir,exists,is_file,is_directory,get_file_size,read_text,read_bytes,write_text,
# append,write_bytes,rm,cp,mv}/mod.rs with the helpers of utils/io.rs inlined; lib/gen/fs_gen.py -> coq/generated/GenFsFn.v,
# proofs coq/theories/FsGenTie.v over the command layer coq/theories/FsCmd.v, wrappers coq/props/SrcFs.v).  Same scheme as
# STRINGS_CMD_TIES: the tie key's own flag (gen_fs_understood) only says the generator ran; every command has its OWN flag, a
# command the translator does not understand any more gets a stub, its theorem (stated under `flag = true`) holds vacuously, and
# source_tie("fs") reports exactly that command's tie as inactive (NOTE + evidence) and does not count its theorem.
FS_CMD_TIES = [
    ("gen_cmd_%s_understood" % _c, "duckscript_sdk/src/sdk/std/fs/%s/mod.rs::run" % _p, ["Src_fs_%s" % _c])
    for _c, _p in [
        ("touch", "touch"), ("mkdir", "mkdir"), ("rmdir", "rmdir"), ("exists", "exists"), ("is_file", "is_file"),
        ("is_dir", "is_directory"), ("size", "get_file_size"), ("read", "read_text"), ("readb", "read_bytes"),
        ("write", "write_text"), ("append", "append"), ("writeb", "write_bytes"), ("rm", "rm"), ("cp", "cp"), ("mv", "mv")]
]


def _fs_register():
    if "fs" not in Check.SRC_TIES:
        Check.SRC_TIES.update({
            "fs": ("GenFsFn.v", "gen_fs_understood", "props/SrcFs.vo", "DSP.SrcFs", [],
                   "duckscript_sdk/src/sdk/std/fs: run of the file commands (+ utils/io.rs)"),
        })
        Check.SRC_TIES["fs"][4].extend(t for _f, _w, _ts in FS_CMD_TIES for t in _ts)
    base = dict(getattr(Check, "SRC_TIES_BASE", {}))
    base["fs"] = []
    Check.SRC_TIES_BASE = base
    if "fs" not in tuple(getattr(Check, "SRC_TIES_PARTIAL", ())):
        Check.SRC_TIES_PARTIAL = tuple(getattr(Check, "SRC_TIES_PARTIAL", ())) + ("fs",)


_fs_register()
_source_tie_before_fs_cmds = Check.source_tie


def _source_tie_with_fs_cmds(self, which):
    if which == "fs":
        _fs_register()
    ok = _source_tie_before_fs_cmds(self, which)
    if which != "fs":
        return ok
    try:
        text = open(os.path.join(ROOT, "coq", "generated", "GenFsFn.v")).read()
    except OSError:
        text = ""
    info = self.coverage.setdefault("source_translation", {})
    cmds = {}
    for flag, what, thms in FS_CMD_TIES:
        cmd = flag[len("gen_cmd_"):-len("_understood")]
        if re.search(r"Definition %s : bool := true\." % flag, text) is not None:
            cmds[cmd] = {"active": True, "theorems": thms}
            continue
        m = re.search(r"\(\* NOT UNDERSTOOD %s: (.*?) \*\)" % re.escape(cmd), text, re.S)
        why = " ".join(m.group(1).split())[:300] if m else "generated file missing"
        cmds[cmd] = {"active": False, "reason": why}
        names = ["DSP.SrcFs.%s" % t for t in thms]
        self.obligations[:] = [o for o in self.obligations if o not in names]
        self.discharged[:] = [o for o in self.discharged if o not in names]
        if isinstance(info.get("fs", {}).get("theorems"), list):
            info["fs"]["theorems"] = [t for t in info["fs"]["theorems"] if t not in thms]
        print("NOTE: property=%s translation tie for %s is inactive on this tree (translator: %s); "
              "the correspondence run is the only tie for it in this run" % (self.prop, what, why), flush=True)
    info["fs_cmds"] = {"file": "coq/generated/GenFsFn.v", "commands": cmds,
                       "meaning": "each listed command: for every environment (path resolution, handles sub-state, directory-source "
                                  "primitives), argument vector and tree, the mechanical translation of the current `run` (helpers of "
                                  "utils/io.rs inlined, every arguments[i] an explicit unwinding arm, the tree threaded through the "
                                  "primitive calls in source order) equals Some of ONE history step FsTree.M_step of the C18 model on the "
                                  "arguments read as paths / text / a byte-array handle (FsCmd.v); the primitives of fsio / std::fs / "
                                  "fs_extra / Path are the configured tree operations of FsTree.v section 1 (one flag per command)"}
    return ok


Check.source_tie = _source_tie_with_fs_cmds


# --- appended (builder B32, second part): props/SrcCodeccmds.v also states, flag-less, that the command model of
# map_to_properties on a map of strings IS CodecProps.cmd_map_to_properties (the function C17_properties* are about); the name
# joins the optional hand-model theorems of the tie "codeccmds" (counted only when the props file states it).
CODECCMDS_PROPS_THMS.append("Src_codeccmds_map_to_properties_link")


# --- appended (builder B31, second part): translation tie "regfn" for C15 (no-panic content: C07) — the REGISTRY VIEW of
# FunctionCommand::run (duckscript_sdk/src/sdk/std/flowcontrol/function/mod.rs; lib/gen/regfn_gen.py -> coq/generated/GenRegfnFn.v,
# proofs coq/theories/RegfnGenTie.v, wrappers coq/props/SrcRegfn.v): the SFn arm of Registry.sstep equals the translation on its
# domain (name stored before Commands::set, a refusal is an error without rollback), and off that domain the command answers an
# error / a crash with the state unchanged.  One flag (gen_fn_register_understood); plain SRC_TIES scheme.
Check.SRC_TIES.update({
    "regfn": ("GenRegfnFn.v", "gen_fn_register_understood", "props/SrcRegfn.vo", "DSP.SrcRegfn",
              ["Src_regfn_register", "Src_regfn_off_domain"],
              "duckscript_sdk/src/sdk/std/flowcontrol/function/mod.rs::FunctionCommand::run (registry view: what `fn` registers)"),
})


# --- appended (coordinator, session 5): stand-in for the regex extractor of the flow-control keyword TABLES (c04_gen / c05_gen).
# When the extractor gives up (a harmless respelling of name() / aliases() / create() / load()), the previous tables stay in
# coq/generated/ and this decides whether they are still tied to the tree: every function of the four flow-control translation
# ties must be understood and proved on this run (they contain the very statements that build the lists), and the caller's
# registry obligation compares every name of the tables with the loaded registry.  Otherwise the broken obligation is reported.
def _flow_tables_standin(self):
    pending = getattr(self, "flow_table_failed", [])
    if not pending:
        return True
    self.flow_table_failed = []
    info = self.coverage.setdefault("source_translation", {})
    # the functions that BUILD the keyword lists handed to find_commands, per tie
    need = {"flowif": "create_if_meta_info_for_line", "flowwhile": "create_while_meta_info_for_line",
            "flowfor": "get_or_create_forin_meta_info_for_line", "flowfn": "FunctionCommand::run"}

    def all_active(k):
        base = info.get(k, {})
        fns = info.get(k + "_fns", {}).get("functions", {})
        hit = [v for n, v in fns.items() if n.endswith(need[k])]
        return bool(base.get("active", False)) and bool(hit) and all(v.get("active") for v in hit)
    tie_broken = any(("GenTie" in b) or ("SrcFlow" in b) for b in self.broken)
    inactive_note = False
    held = [k for k in need if all_active(k)]
    if not tie_broken:
        # like every translation tie: a source the extractor / translator does not understand is a NOTE, not an alarm - the
        # tables of the last understood tree stay, every name in them is compared with the loaded registry by the caller's
        # registry obligation, every spelling is exercised by the correspondence run, and the list-building functions are
        # under a proved translation tie where the translator still understands them (`held`); a tie PROOF that fails is an alarm
        for gen, msg in pending:
            print("NOTE: property=%s the regex extractor of the %s TABLES does not understand the source any more (%s); the previous "
                  "tables are kept: every name is compared with the loaded commands (registry obligation) and exercised by the "
                  "correspondence run; list-building functions under a proved translation tie on this tree: %s"
                  % (self.prop, gen, msg, ", ".join("%s::%s" % (k, need[k]) for k in held) or "none (translator inactive too)"), flush=True)
            info[gen] = {"active": False, "reason": msg, "replaced_by": "registry obligation + correspondence run + translation ties " + ", ".join(held)}
        return True
    for gen, msg in pending:
        self.broken.append("regenerated table (%s): %s" % (gen, msg))
    return False


Check.flow_tables_standin = _flow_tables_standin


# --- appended (builder B33): translation tie "mapload" for C17 (no-panic content: C07) — `run` of
# duckscript_sdk/src/sdk/std/collections/map_load_properties/mod.rs and `mutate_map` of duckscript_sdk/src/utils/state.rs over the
# state values of CodecCmds.v (lib/gen/mapload_gen.py -> coq/generated/GenMaploadFn.v, models coq/theories/CodecMapload.v, proofs
# CodecMaploadProof.v / MaploadGenTie.v, wrappers coq/props/SrcMapload.v).  Same scheme as FS_CMD_TIES: the tie key's own flag
# (gen_mapload_understood) only says the generator ran; each of the two functions has its OWN flag, a function the translator does
# not understand any more gets a stub, its theorem (stated under `flag = true`) holds vacuously, and source_tie("mapload") reports
# exactly that function's tie as inactive (NOTE + evidence) and does not count its theorem.  The command's theorem is stated under
# BOTH flags (its translation calls gen_mutate_map_sv; the generator stubs the command when mutate_map is not understood).  The
# flag-less theorems (link to CodecProps.cmd_map_load_properties, the C17 round trip through the two command models, a rejected
# text changes nothing) are checked whenever source_tie("mapload") runs.
MAPLOAD_FN_TIES = [
    ("mutate_map_sv", ["gen_mutate_map_sv_understood"],
     "duckscript_sdk/src/utils/state.rs::mutate_map (over the state values of CodecCmds.v)", ["Src_mapload_mutate_map"]),
    ("map_load_properties", ["gen_mutate_map_sv_understood", "gen_cmd_map_load_properties_understood"],
     "duckscript_sdk/src/sdk/std/collections/map_load_properties/mod.rs::run", ["Src_mapload_map_load_properties"]),
]
MAPLOAD_BASE_THMS = ["Src_mapload_link", "Src_mapload_properties_roundtrip", "Src_mapload_rejected"]


def _mapload_register():
    if "mapload" not in Check.SRC_TIES:
        Check.SRC_TIES.update({
            "mapload": ("GenMaploadFn.v", "gen_mapload_understood", "props/SrcMapload.vo", "DSP.SrcMapload", [],
                        "duckscript_sdk/src/sdk/std/collections/map_load_properties/mod.rs::run + utils/state.rs::mutate_map"),
        })
    Check.SRC_TIES["mapload"][4][:] = list(MAPLOAD_BASE_THMS) + [t for _n, _f, _w, ts in MAPLOAD_FN_TIES for t in ts]
    base = dict(getattr(Check, "SRC_TIES_BASE", {}))
    base["mapload"] = list(MAPLOAD_BASE_THMS)
    Check.SRC_TIES_BASE = base
    if "mapload" not in tuple(getattr(Check, "SRC_TIES_PARTIAL", ())):
        Check.SRC_TIES_PARTIAL = tuple(getattr(Check, "SRC_TIES_PARTIAL", ())) + ("mapload",)


_mapload_register()
_source_tie_before_mapload = Check.source_tie


def _source_tie_with_mapload(self, which):
    if which != "mapload":
        return _source_tie_before_mapload(self, which)
    _mapload_register()
    ok = _source_tie_before_mapload(self, which)
    try:
        text = open(os.path.join(ROOT, "coq", "generated", "GenMaploadFn.v")).read()
    except OSError:
        text = ""
    info = self.coverage.setdefault("source_translation", {})
    fns = {}
    for name, flags, what, thms in MAPLOAD_FN_TIES:
        if all(re.search(r"Definition %s : bool := true\." % f, text) is not None for f in flags):
            fns[name] = {"active": True, "theorems": thms}
            continue
        m = re.search(r"\(\* NOT UNDERSTOOD %s: (.*?) \*\)" % re.escape(name), text, re.S)
        why = " ".join(m.group(1).split())[:300] if m else "generated file missing"
        fns[name] = {"active": False, "reason": why}
        names = ["DSP.SrcMapload.%s" % t for t in thms]
        self.obligations[:] = [o for o in self.obligations if o not in names]
        self.discharged[:] = [o for o in self.discharged if o not in names]
        if isinstance(info.get("mapload", {}).get("theorems"), list):
            info["mapload"]["theorems"] = [t for t in info["mapload"]["theorems"] if t not in thms]
        print("NOTE: property=%s translation tie for %s is inactive on this tree (translator: %s); "
              "the correspondence run is the only tie for it in this run" % (self.prop, what, why), flush=True)
    info["mapload_fns"] = {"file": "coq/generated/GenMaploadFn.v", "functions": fns,
                           "meaning": "mutate_map_sv: the model of utils/state.rs mutate_map over the state values of CodecCmds.v (remove, "
                                      "kind test, handler on the map of a SubState, insert under the same key) equals the mechanical "
                                      "translation of the current source for every key, table and handler; map_load_properties: the command "
                                      "model cmd_map_load_properties_run (argument test, --prefix parsing, reader before the handle lookup, the "
                                      "insert loop of the closure, the answers) equals the translation of the current `run` for all argument "
                                      "vectors and all states, and the translation (every arguments[i] an explicit CPanic arm) never panics "
                                      "(one flag per function; java_properties::read is the configured CodecProps.pp_read)"}
    return ok


Check.source_tie = _source_tie_with_mapload


# --- appended (builder B33, second part): props/SrcMapload.v also states the round trip with --prefix on both sides through the two
# command models (C17_properties_prefix at the command level); hand-model theorem, no flag.
MAPLOAD_BASE_THMS.append("Src_mapload_properties_roundtrip_prefix")
_mapload_register()
