"""C07 — no script can panic, abort or hang the embedding process (PARTIAL by nature).

Proof part: the no-panic / termination theorems of the modelled fragment (collected from the
other properties' developments, see THEOREMS).  Everything else (~200 library commands) is covered
by a supporting EXPLORATION — arbitrary text at parser level and random command sequences with
typed argument pools, each shard in a child process under a watchdog and an address-space limit so
that aborts and hangs are seen.  The exploration is testing and is reported as such.

Known findings (open, see known_findings.json): F8 join_path hang, F12 include cycle abort,
F13 allocation proportional to a numeric argument.  Their witnesses are re-run on every check
(KNOWN-FINDING lines); the generator excludes exactly those classes."""
import itertools
import os
import re
import resource
import shutil
import subprocess
import time
import vlib
from vlib import enc_str

# (Coq module, theorem) — the no-panic / totality family proved so far
THEOREMS = [
    ("DSP.C06", "C06_total"),              # condition evaluation gives a verdict on every token list
    ("DSP.C06", "C06_ix_total"),           # index-faithful eval_condition_for_slice (slices, indices, wrapping i32 counter): no panic, any token list
    ("DSP.C06ix", "C06_ix_terminates"),     # ... and its sub-slice recursion never runs out of fuel
    ("DSP.C06ix", "C06_ix_checked"),        # ... overflow-checked profile: no panic below 2^31 tokens
    ("DSP.C06ix", "C06_ix_dispatch"),       # eval_condition's dispatch (arguments[0], &arguments[..]) never panics
    ("DSP.C02", "C02_ix_total"),           # index-faithful expand_by_wrapper (re-parse on the index parser): no panic, any string / environment
    ("DSP.C02ix", "C02_ix_bind_total"),   # bind_command_arguments over it: no panic
    ("DSP.C09", "C09_ix_total"),           # eval::parse + callers (instructions[0], index parser, second binding): no panic, any arguments
    ("DSP.C08", "C08_total"),              # index-faithful parser never panics (any text)
    ("DSP.C08", "C08_total_fn"),           # parse_text gives Ok or an error kind on every text (never out of fuel)
    ("DSP.C08", "C08_args_terminate"),     # the argument loop terminates on every line
    ("DSP.C04", "C04_program"),            # flow-control model never gets stuck / Crash / Panic on well-nested programs
    ("DSP.C11", "C11_nopanic"),            # scope push/pop/var commands never crash (any names, any state)
    ("DSP.C16", "C16_substr_cmd_nopanic"),  # substring: value or error for any argument list
    ("DSP.C16", "C16_never_ood"),          # the 16 string/range commands never panic
    ("DSP.C18", "C18_join_total"),         # join_path's script loop terminates (on C09-safe arguments)
    ("DSP.C19", "C19_leak_check_never_fires"),
    ("DSP.C12", "C12_nopanic"),            # native collection commands: value / none / error, never a panic or out-of-fuel
    ("DSP.C12", "C12_release_total"),      # recursive release terminates on every store, cyclic ones included
    ("DSP.C17", "C17_json_fuel"),          # json collection round trip never runs out of fuel on allocator-built stores
    ("DSP.C14", "C14_fuel"),               # include parsing: any fuel above the tree depth gives the same result (acyclic trees)
    ("DSP.C04ix", "C04_ix_total"),         # index-faithful find_commands (instructions[line], i32 block_delta, nested recursion): no panic, no fuel exhaustion, any vector / table / start / end
]
EXCLUDED = ("read sleep exec spawn exit quit q watchdog http_client wget ftp_get ftp_get_in_memory ftp_list ftp_nlst "
            "ftp_put ftp_put_in_memory hostname cd set_current_dir set_current_directory cp cp_glob glob_cp mv rm rmdir mkdir "
            "touch appendfile writefile write_text_file write_binary_file writebinfile write_properties chmod chmod_glob "
            "glob_chmod temp_dir temp_file zip unzip test_directory test_file").split()

# typed signatures: S string, N number, I small index, H handle (array/map/set/released/garbage), A array handle,
# M map handle, T set handle, V variable name, P read-only path, B bool, X semver, J json text, E calc expression,
# L label, C command name, * = repeat last 0..3 times
SIGS = {
    "echo": "S*", "eval": "CS*", "is_command_defined": "C", "noop": "S*", "not": "S*", "print": "S*", "println": "S*",
    "release": "RH", "man": "C",
    "array": "S*", "array_clear": "A", "array_concat": "AA*", "array_contains": "AS", "array_get": "AI", "array_is_empty": "A",
    "array_join": "AS", "array_length": "A", "array_pop": "A", "array_push": "AS*", "array_remove": "AI", "array_set": "AIS",
    "is_array": "H", "is_map": "H", "is_set": "H", "map": "", "map_clear": "M", "map_contains_key": "MS",
    "map_contains_value": "MS", "map_get": "MS", "map_is_empty": "M", "map_keys": "M", "map_load_properties": "MS",
    "map_put": "MSS", "map_remove": "MS", "map_size": "M", "map_to_properties": "M", "range": "II", "read_properties": "S",
    "set_new": "S*", "set_clear": "T", "set_contains": "TS", "set_from_array": "A", "set_is_empty": "T", "set_put": "TS",
    "set_remove": "TS", "set_size": "T", "set_to_array": "T",
    "duckscript_sdk_version": "", "duckscript_version": "", "dump_instructions": "", "dump_state": "", "dump_variables": "",
    "env_to_map": "", "which": "S", "cpu_count": "", "get_home_dir": "", "os_family": "", "os_name": "", "os_release": "",
    "os_version": "", "whoami": "", "get_env": "V", "is_windows": "", "pwd": "", "printenv": "", "set_env": "VS", "uname": "",
    "unset_env": "V", "get_last_error": "", "get_last_error_line": "", "get_last_error_source": "", "set_error": "S",
    "exit_on_error": "B", "trigger_error": "S*",
    "is_path_exists": "P", "canonicalize": "P", "basename": "P", "get_file_size": "P", "get_last_modified_time": "P",
    "dirname": "P", "gitignore_path_array": "P", "glob_array": "P", "is_dir": "P", "is_file": "P", "is_path_newer": "PP",
    "is_readonly": "P", "join_path": "PP*", "ls": "P", "cat": "P", "readbinfile": "P", "readfile": "P",
    "digest": "SS", "sha256sum": "P", "sha512sum": "P", "json_encode": "H", "json_parse": "J",
    "alias": "VCS*", "unalias": "V", "remove_command": "C", "calc": "E*", "greater_than": "NN", "hex_decode": "N",
    "hex_encode": "N", "less_than": "NN", "pid": "", "random_range": "II", "random_text": "I",
    "clear_scope": "S", "scope_pop_stack": "S*", "scope_push_stack": "S*", "semver_is_equal": "XX", "semver_is_newer": "XX",
    "semver_parse": "X", "base64": "S*", "base64_decode": "S", "base64_encode": "H", "bytes_to_string": "H", "camelcase": "S",
    "concat": "S*", "contains": "SS", "ends_with": "SS", "equals": "SS", "indexof": "SS", "is_empty": "S", "kebabcase": "S",
    "last_indexof": "SS", "length": "S", "lowercase": "S", "replace": "SSS", "snakecase": "S", "split": "SS",
    "starts_with": "SS", "string_to_bytes": "S", "substring": "SN*", "trim": "S", "trim_end": "S", "trim_start": "S",
    "uppercase": "S", "assert": "S*", "assert_eq": "SS", "assert_error": "S*", "assert_fail": "S*", "assert_false": "S*",
    "current_time": "", "get_all_var_names": "", "get_by_name": "V", "is_defined": "V", "set": "S*", "set_by_name": "VS",
    "unset": "V*", "unset_all_vars": "S*", "goto": "L",
}

STRS = ["", " ", "a", "abc", "hello world", "héllo", "😀", "日本語", "a b  c", "\"", "\"q\"", "\\", "\\n", "#", "a#b", "=", "x=y",
        ":", "$", "%", "{", "}", "${a}", "%{a}", "\\${a}", "${", "%{", "${arr}", "a\tb", "line1\nline2", "\r\n", "\x00", "é",
        "0", "1", "-1", "true", "false", "no", "and", "or", "(", ")", "--copy", "--prefix", "-r", "--collection", "handle:x",
        "\u00a0", "\u2028", "\ud7ff", "\U0010ffff", "A" * 300, "a,b,c", "k=v\nk2 = v2\n", "[]", "{}", "null", "1.5", "1e3"]
# texts whose BYTE length and CHARACTER length differ, with an ASCII marker in front: code that tests `len()` and then slices at fixed
# offsets meets a character boundary inside (seed C07-w7-m2: `#rrggbb` colours sliced by byte offsets)
BOUNDARY = [pre + body for pre in ("#", "0x", "-", "rgb_", "") for body in
            ("aééb", "€€", "é€é", "aaé€", "😀aa", "a😀b", "éééééé", "€aaaa", "aé", "日本語日", "ａｂｃ")]
NUMS = ["0", "1", "2", "3", "5", "-1", "-2", "10", "255", "256", "65535", "2147483647", "2147483648", "-2147483649",
        "4294967296", "9223372036854775807", "9223372036854775808", "-9223372036854775808", "-9223372036854775809",
        "18446744073709551615", "18446744073709551616", "170141183460469231731687303715884105727",
        "340282366920938463463374607431768211456", "1.5", "-0", "+1", "1e3", "0x10", " 1", "1 ", "", "abc", "NaN", "inf", "１"]
SMALL = ["0", "1", "2", "3", "4", "7", "-1", "-3", "100", "999"]
VARS = ["a", "b", "x", "arr", "m", "s", "rel", "out0", "out1", "nope", "", "a b", "${a}", "1", "scope::x"]
PATHS = [".", "nope", "nope/x.txt", "a.txt", "dir", "dir/", "dir/f.txt", "./a.txt", "", " ", "a b.txt", "é.txt", "*.txt", "**/*",
         "dir/..", "a.txt/x", "//", "a//b", "x/", ".hidden", "a.tar.gz"]
BOOLS = ["true", "false", "", "yes", "0", "1", "TRUE"]
SEMVER = ["1.2.3", "0.0.0", "1.2", "1", "a.b.c", "1.2.3-alpha", "1.2.3+build", "99999999999999999999.1.1", "", "-1.0.0", "1.2.3.4", "01.2.3"]
JSON = ["{}", "[]", "null", "1", "\"s\"", "{\"a\":1}", "{\"a\":{\"b\":[1,2,{\"c\":null}]}}", "[1,\"two\",true,null]", "{", "[1,", "nul",
        "{\"a.b\":1,\"c[0]\":2}", "{\"\":\"\"}", "1e400", "-0.0", "\"\\u0000\"", "[[[[[[[[[[]]]]]]]]]]", "{\"length\":\"100000000\"}", " 1 "]
EXPRS = ["1", "1+1", "2*3", "7/2", "1/0", "2^10", "2^100", "(", ")", "1 +", "a+1", "9223372036854775807+1", "-5%3", "1.5*2", "0/0",
         "", "true", "1==1", "max(1,2)", "\"a\"+\"b\"", "1;2"]
LABELS = [":nolabel", "nolabel", ":", ""]
HAZARD_WORDS = set(EXCLUDED)


def prelude():
    return ["a = set hello", "b = set \"a b\"", "x = set 2", "arr = array a b c", "m = map", "map_put ${m} k v",
            "s = set_new x y", "rel = array q", "release ${rel}", "bytes = string_to_bytes héllo",
            # collections that contain their own handle (directly and through a map): recursion over handles must terminate
            "cyc = array x", "array_push ${cyc} ${cyc}", "cm = map", "map_put ${cm} self ${cm}", "map_put ${cm} other ${cyc}"]


def pick(rng, code, outs):
    if rng.random() < 0.25:
        pool = STRS + NUMS + VARS + PATHS + BOUNDARY
        v = rng.choice(pool)
    elif code == "S":
        v = rng.choice(STRS) if rng.random() < 0.85 else rng.choice(BOUNDARY)
    elif code == "N":
        v = rng.choice(NUMS)
    elif code == "I":
        v = rng.choice(SMALL)
    elif code in "HAMT":
        good = {"A": "arr", "M": "m", "T": "s"}.get(code)
        r = rng.random()
        if good and r < 0.6:
            return "${%s}" % good
        return "${%s}" % rng.choice(["arr", "m", "s", "rel", "bytes", "a", "nope", "cyc", "cm"] + outs)
    elif code == "V":
        v = rng.choice(VARS)
    elif code == "P":
        v = rng.choice(PATHS)
    elif code == "B":
        v = rng.choice(BOOLS)
    elif code == "X":
        v = rng.choice(SEMVER)
    elif code == "J":
        v = rng.choice(JSON)
    elif code == "E":
        v = rng.choice(EXPRS)
    elif code == "L":
        v = rng.choice(LABELS)
    elif code == "R":
        return rng.choice(["-r", "--recursive", "-r", "-x"])
    elif code == "C":
        v = rng.choice(sorted(SIGS))
    else:
        v = rng.choice(STRS)
    if outs and rng.random() < 0.08:
        return "${%s}" % rng.choice(outs)
    return v


def quote(v):
    """write a value as a script argument so that it reaches the command verbatim (C01/C02)"""
    if v.startswith("${") and v.endswith("}") and " " not in v:
        return v
    out = ['"']
    for c in v:
        if c == '"':
            out.append('\\"')
        elif c == "\\":
            out.append("\\\\")
        elif c == "\n":
            out.append("\\n")
        elif c == "\r":
            out.append("\\r")
        elif c == "\t":
            out.append("\\t")
        else:
            out.append(c)
    out.append('"')
    return "".join(out)


def in_known_class(cmd, args):
    """the open findings' classes (exactly): F13 allocation proportional to a numeric argument;
    F8 join_path with an argument that re-expands"""
    def big(a):
        try:
            return abs(int(a)) > 100000
        except ValueError:
            return False
    if cmd in ("range", "random_text", "rand_text") and any(big(a) or a.startswith("${") for a in args):
        return "F13"   # a variable reference may hold a huge number: not generated for these commands
    if cmd == "range" and len(args) >= 2:
        try:
            if abs(int(args[1]) - int(args[0])) > 100000:
                return "F13"
        except ValueError:
            pass
    if cmd == "alias" and (len(args) < 2 or args[1] not in SIGS or args[0] in SIGS):
        return "F17"  # only aliases of built-in commands under fresh names are generated (no alias cycles)
    if cmd == "join_path" and any((set(a) & set('$%\r\n#"\\')) or a != a.strip() for a in args):
        return "F8"   # argument outside C09's safe class: re-serialised by the script's `while contains ...`
    return None


_FLAGS_CACHE = {}


def command_flags():
    """option flags per command alias, read from the sources of the commands (every string literal that looks like an
    option: "-x" / "--word"), so that a new option is exercised as soon as it exists"""
    if _FLAGS_CACHE:
        return _FLAGS_CACHE
    import glob
    import re
    root = os.path.join(vlib.REPO, "duckscript_sdk", "src", "sdk", "std")
    for f in glob.glob(os.path.join(root, "**", "mod.rs"), recursive=True):
        try:
            src = open(f, encoding="utf8").read()
        except OSError:
            continue
        m = re.search(r"fn aliases\(&self\) -> Vec<String> \{\s*vec!\[(.*?)\]", src, re.S)
        if not m:
            continue
        aliases = re.findall(r'"([^"]+)"', m.group(1))
        flags = sorted(set(re.findall(r'"(--?[a-z][a-z_-]*)"', src)))
        if not flags:
            # helpers next to the command (e.g. json/mod.rs) may hold the literal
            continue
        for a in aliases:
            _FLAGS_CACHE[a] = flags
    for a in ("json_parse", "json_encode"):
        _FLAGS_CACHE.setdefault(a, ["--collection"])
    return _FLAGS_CACHE


CALC_OPS = ["+", "-", "*", "/", "%", "^"]


def gen_script(rng):
    lines = prelude()
    outs = []
    stored_ref = False
    n = rng.randint(1, 14)
    cmds = sorted(SIGS)
    for k in range(n):
        cmd = rng.choice(cmds)
        sig = SIGS[cmd]
        args = []
        i = 0
        while i < len(sig):
            code = sig[i]
            if i + 1 < len(sig) and sig[i + 1] == "*":
                for _ in range(rng.randint(0, 3)):
                    args.append(pick(rng, code, outs))
                i += 2
            else:
                if rng.random() < 0.93:   # sometimes drop an argument (too few)
                    args.append(pick(rng, code, outs))
                i += 1
        if rng.random() < 0.05:
            args.append(pick(rng, "S", outs))   # one too many
        fl = command_flags().get(cmd)
        if fl and rng.random() < 0.35:
            r = rng.random()
            if r < 0.3:
                args = [rng.choice(fl)]                      # the option alone, nothing after it
            elif r < 0.8:
                args = [rng.choice(fl)] + args               # the option in front
            else:
                args = args + [rng.choice(fl)]               # ... or behind
        if cmd == "calc" and rng.random() < 0.4:
            args = [rng.choice(NUMS), rng.choice(CALC_OPS), rng.choice(NUMS)]   # <int> <op> <int> incl. the i64 extremes
        if any(a in HAZARD_WORDS for a in args):
            continue
        if in_known_class(cmd, args):
            continue
        if cmd in ("array", "array_push", "array_set", "map_put", "set_put", "set_new") and any(a.startswith("${") for a in args[1:] if cmd != "array") \
                or cmd in ("array", "set_new") and any(a.startswith("${") for a in args):
            stored_ref = True     # a handle may have been stored inside a collection
        if cmd == "json_encode" and (stored_ref or any("cyc" in a or "${cm}" in a for a in args)):
            continue              # F23 class: json_encode --collection over a store that may contain a cycle
        # values that reference a variable holding a huge number are not generated: outs hold command results only
        line = cmd + "".join(" " + quote(a) for a in args)
        if rng.random() < 0.7:
            o = "out%d" % len(outs)
            outs.append(o)
            line = o + " = " + line
        lines.append(line)
    return "\n".join(lines) + "\n"


# ---- structured programs: functions (plain and <scope>), if / else, bounded loops, with the scope-stack, variable and handle
# commands inside the bodies (seed C07-w5-m2: a <scope> function whose body pops the scope stack below the function's own
# frame).  No goto, no recursion, loops over finite arrays or with a condition that the body switches off first: every program
# terminates by construction (function bodies keep the scope stack balanced: finding F31), so PANIC / ABORT / HANG is the
# implementation's.
FLOW_CMDS = ["set", "unset", "scope_push_stack", "scope_pop_stack", "scope_pop_stack", "clear_scope", "array", "array_push", "array_pop",
             "release", "set_by_name", "unset_all_vars", "get_all_var_names", "map_put", "trigger_error", "is_defined", "get_by_name",
             "array_length", "echo", "not", "equals", "concat"]


def flow_line(rng, outs, in_fn=False):
    cmd = rng.choice(FLOW_CMDS)
    if in_fn and cmd == "scope_pop_stack":
        # inside a function body a pop comes with its own push (finding F31: a body that pops the frame of a <scope> function
        # makes the function's `end` fail; the witness of F31 covers that class)
        a = flow_line(rng, outs, False)
        return "scope_push_stack%s\n%s\n%s" % (rng.choice(["", " --copy a", " --copy a b nope"]),
                                               "noop" if re.match(r"(out\d+ = )?scope_", a) else a,
                                               rng.choice(["scope_pop_stack", "scope_pop_stack --copy a", "scope_pop_stack --copy x nope"]))
    sig = SIGS[cmd]
    args = []
    i = 0
    while i < len(sig):
        code = sig[i]
        if i + 1 < len(sig) and sig[i + 1] == "*":
            for _ in range(rng.randint(0, 3)):
                args.append(pick(rng, code, outs))
            i += 2
        else:
            args.append(pick(rng, code, outs))
            i += 1
    fl = command_flags().get(cmd)
    if fl and rng.random() < 0.4:
        args = [rng.choice(fl)] + args
    if any(a in HAZARD_WORDS for a in args):
        return "noop"
    line = cmd + "".join(" " + quote(a) for a in args)
    if rng.random() < 0.5:
        o = "out%d" % len(outs)
        outs.append(o)
        line = o + " = " + line
    return line


def gen_flow_script(rng):
    lines = prelude() + ["lp9 = array p q r"]
    outs = []
    fns = []

    def block(depth, in_fn, budget):
        out = []
        for _ in range(rng.randint(1, budget)):
            r = rng.random()
            if r < 0.06:
                # lines that are no commands inside a block: a pre-processor directive (runs at parse time, stays in the instruction
                # list), a comment, a blank line, a label (seed C07-w7-m1: the block scanner span on a pre-processor line in a body)
                out.append(rng.choice(["!print in-block", "!print", "# comment", "", ":lbl%d" % rng.randint(0, 99), "!include_files"]))
            elif r < 0.5 or depth >= 3:
                out.append(flow_line(rng, outs, in_fn))
            elif r < 0.62:
                out.append("if %s" % rng.choice(["true", "false", "${a}", "${nope}", "is_defined x", "not true", "true and false"]))
                out += block(depth + 1, in_fn, 3)
                if rng.random() < 0.4:
                    out.append("elseif %s" % rng.choice(["true", "false", "${x}"]))
                    out += block(depth + 1, in_fn, 2)
                if rng.random() < 0.5:
                    out.append("else")
                    out += block(depth + 1, in_fn, 2)
                out.append("end")
            elif r < 0.74:
                # the iterated array is one no other command of the program can name (a body that pushes onto the array it
                # iterates is an endless loop by the program's own logic)
                out.append("for it%d in %s" % (depth, rng.choice(["${lp9}", "${lp9}", "${s}", "${m}", "${rel}", "${nope}", "${a}"])))
                out += block(depth + 1, in_fn, 3)
                out.append("end")
            elif r < 0.82:
                w = "w%d" % depth
                out.append("%s = set true" % w)
                out.append("while ${%s}" % w)
                out.append("%s = set false" % w)
                out += block(depth + 1, in_fn, 2)
                out.append("end")
            elif r < 0.92 and fns:
                f = rng.choice(fns)
                call = f + "".join(" " + quote(pick(rng, "S", outs)) for _ in range(rng.randint(0, 3)))
                if rng.random() < 0.6:
                    o = "out%d" % len(outs)
                    outs.append(o)
                    call = o + " = " + call
                out.append(call)
            elif in_fn:
                out.append(rng.choice(["return", "return ${1}", "return ${a}", "return \"x y\""]))
            else:
                out.append(flow_line(rng, outs, in_fn))
        return out

    for k in range(rng.randint(0, 3)):
        name = "fn%d" % k
        lines.append("fn %s%s" % (rng.choice(["", "", "<scope> "]), name))
        lines += block(1, True, 5)
        lines.append("end")
        fns.append(name)
    lines += block(0, False, 8)
    return "\n".join(lines) + "\n"


SYNTAX = [":", "=", "\"", "\\", "#", "!", "$", "%", "{", "}", " ", "\t", "a", "n", "\n", "\r"]


def run_cases(ck, lines, tag, per_case_timeout=10.0):
    """run case lines through the c07 harness in 16 child processes with watchdogs.
    returns list of results: OK | ERR k | PANIC | ABORT rc | HANG"""
    exe = os.path.join(vlib.CARGO_TARGET, "release", "c07")
    base = os.path.join(vlib.CACHE, "c07", "%s_%d" % (tag, os.getpid()))
    shutil.rmtree(base, ignore_errors=True)
    os.makedirs(base)
    n = min(vlib.NPROC, max(1, len(lines) // 50))
    shards = [list(range(k, len(lines), n)) for k in range(n)]
    results = [None] * len(lines)

    def limits():
        resource.setrlimit(resource.RLIMIT_AS, (6 << 30, 6 << 30))
        resource.setrlimit(resource.RLIMIT_CORE, (0, 0))

    # once enough cases have been CONFIRMED as not returning control (each costs a watchdog period), the rest of the run adds
    # nothing: the shards stop and the cases not run are reported as such (an implementation that hangs on a common construct
    # would otherwise keep the check busy for an hour before it can print its VIOLATION lines)
    import threading
    stop = threading.Event()
    confirmed = [0]
    lock = threading.Lock()

    def run_shard(sid, idxs):
        pos = 0
        attempt = 0
        while pos < len(idxs) and not stop.is_set():
            attempt += 1
            outp = os.path.join(base, "out_%d_%d" % (sid, attempt))
            work = os.path.join(base, "work_%d" % sid)
            todo = idxs[pos:]
            data = "\n".join(lines[i] for i in todo) + "\n"
            tmo = 30 + 0.05 * len(todo)
            t0 = time.time()
            hang = False
            try:
                p = subprocess.run([exe, "--out", outp, "--work", work], input=data.encode("utf8", "surrogatepass"),
                                   stdout=subprocess.DEVNULL, stderr=subprocess.DEVNULL, timeout=tmo, preexec_fn=limits)
                rc = p.returncode
            except subprocess.TimeoutExpired:
                hang, rc = True, None
            got = []
            if os.path.exists(outp):
                got = open(outp).read().split("\n")
                if got and got[-1] == "":
                    got.pop()
            for k, r in enumerate(got[:len(todo)]):
                results[todo[k]] = r
            pos += len(got)
            if len(got) >= len(todo):
                break
            # the first unanswered case stalled or killed the process
            culprit = todo[len(got)]
            if hang:
                # confirm alone with the per-case watchdog (the shard may just have been slow)
                outp2 = outp + "_c"
                try:
                    p = subprocess.run([exe, "--out", outp2, "--work", work], input=(lines[culprit] + "\n").encode("utf8", "surrogatepass"),
                                       stdout=subprocess.DEVNULL, stderr=subprocess.DEVNULL, timeout=per_case_timeout, preexec_fn=limits)
                    g2 = open(outp2).read().split("\n") if os.path.exists(outp2) else [""]
                    results[culprit] = g2[0] if g2[0] else "ABORT rc=%s" % p.returncode
                except subprocess.TimeoutExpired:
                    results[culprit] = "HANG"
            else:
                results[culprit] = "ABORT rc=%s" % rc
            if (results[culprit] or "").split(" ")[0] in ("HANG", "ABORT"):
                with lock:
                    confirmed[0] += 1
                    if confirmed[0] >= 12:
                        stop.set()
            pos += 1
    from concurrent.futures import ThreadPoolExecutor
    with ThreadPoolExecutor(max_workers=n) as ex:
        list(ex.map(lambda a: run_shard(*a), enumerate(shards)))
    shutil.rmtree(base, ignore_errors=True)
    if stop.is_set():
        results = [r if r is not None else "NOTRUN" for r in results]
    return results


def witnesses(ck):
    """re-run the witnesses of the open findings; returns {id: result}"""
    d = os.path.join(vlib.CACHE, "c07", "wit_%d" % os.getpid())
    shutil.rmtree(d, ignore_errors=True)
    os.makedirs(d)
    cyc = os.path.join(d, "cycle.ds")
    open(cyc, "w").write("!include_files ./cycle.ds\n")
    cases = {
        "F8": "S\t" + enc_str("y = set //\nr = join_path \\${y} b\n"),
        "F12": "F\t" + enc_str(cyc),
        "F13": "S\t" + enc_str("r = range 0 100000000000000\n"),
        "F17": "S\t" + enc_str("alias xx xx\nxx\n"),
        "F25": "S\t" + enc_str("fn f\nreturn true\nend\nalias g f\nr = g\n"),
        "F23": "S\t" + enc_str("a = array x\narray_push ${a} ${a}\nr = json_encode --collection ${a}\n"),
        # eval_condition_for_slice recurses once per nesting level (condition.rs): ~10^5 nested groups overflow the stack
        "F30": "S\t" + enc_str("if " + "( " * 60000 + "true" + " )" * 60000 + "\nend\n"),
        # a <scope> function whose body pops its own frame: `end` / `return` fail and do not return to the caller
        # calc hands the expression to the evalexpr crate, whose parser recurses once per nested parenthesis: ~5*10^4 levels overflow the stack
        "F32": "S\t" + enc_str("r = calc " + "(" * 60000 + "1" + ")" * 60000 + "\n"),
        "F31": "S\t" + enc_str("fn <scope> f\nscope_pop_stack\nend\nf\necho done\n"),
        "F31#return": "S\t" + enc_str("fn <scope> f\nscope_pop_stack\nreturn x\nend\nr = f\necho done\n"),
    }
    exe = os.path.join(vlib.CARGO_TARGET, "release", "c07")

    def limits():
        resource.setrlimit(resource.RLIMIT_AS, (6 << 30, 6 << 30))
        resource.setrlimit(resource.RLIMIT_CORE, (0, 0))

    def one(item):
        k, line = item
        outp = os.path.join(d, "out_" + k)
        try:
            p = subprocess.run([exe, "--out", outp, "--work", os.path.join(d, "w_" + k)], input=(line + "\n").encode("utf8"),
                               stdout=subprocess.DEVNULL, stderr=subprocess.DEVNULL, timeout=(40.0 if k in ("F30", "F32") else 8.0), preexec_fn=limits)
            got = open(outp).read().split("\n")[0] if os.path.exists(outp) else ""
            return k, (got if got else "ABORT rc=%s" % p.returncode)
        except subprocess.TimeoutExpired:
            return k, "HANG"
    from concurrent.futures import ThreadPoolExecutor
    with ThreadPoolExecutor(max_workers=8) as ex:
        res = dict(ex.map(one, cases.items()))
    shutil.rmtree(d, ignore_errors=True)
    return res


def run(ck):
    ck.gen_from_source()
    thms = list(THEOREMS)
    mods = sorted(set(m for m, _ in thms))
    ck.coq_build(["props/%s.vo" % m.split(".")[1] for m in mods])
    ck.print_assumptions(mods, ["%s.%s" % t for t in thms])
    # the translation ties carry no-panic content about the CURRENT source: every translated `v[i]`, `unwrap()`, slice and
    # checked arithmetic is an explicit panic arm of the generated function, and the equality with the (panic-free) hand model
    # shows the arm dead for all inputs (Src_strings_*: `defined`, Src_onerror_*: `Some`, Src_cli_dispatch: `Some`,
    # Src_condslice_total, Src_eval_instructions_step_no_panic, Src_parser_* over the index-faithful parser ...)
    for tie in ("parser", "expand", "registry", "cond", "condslice", "runner", "eval", "alias", "onerror", "strings", "cli",
                "findcmds", "collections", "var", "include", "flowfor", "flowfn", "regcmds", "regfn", "json", "smallnat", "fs",
                "codeccmds", "mapload"):
        try:
            ck.source_tie(tie)
        except KeyError:
            pass
    ck.hygiene()
    ck.harness_build(["c07"])
    thorough = ck.tier == "thorough"
    rng = ck.rng

    # known findings: witnesses
    wit = witnesses(ck)
    open_ids = {k["id"]: k for k in ck.open_findings()}
    found_early = False
    for wid, r in wit.items():
        fid = wid.split("#")[0]
        still = r.startswith("HANG") or r.startswith("ABORT") or r.startswith("PANIC")
        if fid in open_ids:
            if fid == "F31" and r.startswith("PANIC"):
                # the listed failure is a run that does not come back; a panic on the same script is another failure
                ck.violation({"kind": "the witness of %s fails in another way than the listed one (listed: the run does not return)" % fid,
                              "id": fid, "result": r, "script": open_ids[fid].get("witness", "")})
                found_early = True
            elif still and "#" not in wid:
                ck.known("%s %s -> %s" % (fid, open_ids[fid].get("witness", ""), r))
        elif still:
            ck.violation({"kind": "witness of an unlisted finding fails", "id": fid, "result": r})

    found = found_early
    texts = []
    # parser-level: arbitrary text
    nmax = 4 if thorough else 3
    for n in range(0, nmax + 1):
        for t in itertools.product(SYNTAX, repeat=n):
            texts.append("".join(t))
    n_exh = len(texts)
    for _ in range(30000 if thorough else 4000):
        n = rng.randint(1, 40)
        r = rng.random()
        if r < 0.5:
            texts.append("".join(rng.choice(SYNTAX) for _ in range(n)))
        elif r < 0.8:
            texts.append("".join(chr(rng.choice([rng.randint(0, 0x7f), rng.randint(0x80, 0x7ff), rng.randint(0x800, 0xd7ff),
                                                   rng.randint(0xe000, 0xffff), rng.randint(0x10000, 0x10ffff)])) for _ in range(n)))
        else:
            texts.append(rng.choice(SYNTAX).join(rng.choice(STRS) for _ in range(rng.randint(1, 6))))
    scripts = [gen_script(rng) for _ in range(40000 if thorough else 6000)]
    # exhaustive small scope over the integer extremes for the arithmetic / comparison / conversion commands (checked
    # arithmetic corner cases such as i64::MIN / -1 need exactly these operands)
    EXT = ["-9223372036854775808", "9223372036854775807", "-1", "0", "1", "2", "18446744073709551615", "-9223372036854775809"]
    for a_ in EXT:
        for b_ in EXT:
            scripts.append("\n".join(["r%d = calc %s %s %s" % (k_, a_, op, b_) for k_, op in enumerate(CALC_OPS)] +
                                     ["g = greater_than %s %s" % (a_, b_), "l = less_than %s %s" % (a_, b_), "rg = range %s %s" % (a_, b_)
                                      if in_known_class("range", [a_, b_]) is None else "noop",
                                      "h = hex_encode %s" % a_, "rr = random_range %s %s" % (a_, b_),
                                      "sub = substring hello %s %s" % (a_, b_)]) + "\n")
    # spread stream (seed C07-w6-m1: the re-parse of a %{name} value with an unterminated quote that contains an escaped quote ran
    # past the end of the text): every value of length <= 4 (5 thorough) over  " \ a space #  re-parsed as command arguments
    SPREAD = ['"', "\\", "a", " ", "#"]
    for n_ in range(0, (6 if thorough else 5)):
        for t_ in itertools.product(SPREAD, repeat=n_):
            v_ = "".join(t_)
            scripts.append("v = set %s\no1 = array %%{v}\no2 = concat x %%{v} y\no3 = set %%{v}\necho %%{v} %%{v}\n" % quote(v_))
    # deep-nesting stream (seed C07-w6-m2: json_parse without serde's recursion limit overflowed the stack): texts nested far deeper
    # than any stack can recurse, for every command that parses a recursive syntax.  calc is limited to 20000 levels of
    # parentheses and 10000 prefix operators (finding F32: ~5*10^4 levels abort; longer prefix chains take minutes), conditions to
    # 20000 groups (finding F30)
    for d_ in (200, 5000, 100000):
        for t_ in ("[" * d_, "[" * d_ + "]" * d_, '{"a":' * d_ + "1" + "}" * d_, '[{"a":' * (d_ // 2) + "1"):
            scripts.append("r = json_parse %s\nr2 = json_parse --collection %s\n" % (quote(t_), quote(t_)))
        dc_ = min(d_, 20000)
        scripts.append("r = calc %s1%s\n" % ("(" * dc_, ")" * dc_))
        scripts.append("r = calc %s\n" % ("(" * dc_))
        scripts.append("r = calc %s1\nr2 = calc %strue\n" % ("-" * min(d_, 10000), "!" * min(d_, 10000)))
        scripts.append("if %strue%s\nend\nr = not %sfalse%s\n" % ("( " * dc_, " )" * dc_, "( " * dc_, " )" * dc_))
        scripts.append("a = array\n" + "b = array ${a}\na = array ${b}\n" * min(d_, 5000) + "r = json_encode --collection ${a}\nrelease -r ${a}\n")
    # option-value stream: every option of every command followed by every boundary text (and a few others) as its value
    for cmd_, fls_ in sorted(command_flags().items()):
        if cmd_ not in SIGS:
            continue
        for fl_ in fls_:
            vals_ = BOUNDARY + ["", "x", "-1", "#", "#12345", "#1234567", "#zzzzzz"]
            scripts.append("".join("o%d = %s %s %s a b\n" % (j_, cmd_, fl_, quote(v_)) for j_, v_ in enumerate(vals_)
                                   if in_known_class(cmd_, [fl_, v_, "a", "b"]) is None and v_ not in HAZARD_WORDS))
    n_straight = len(scripts)
    scripts += [gen_flow_script(rng) for _ in range(20000 if thorough else 3000)]
    lines = ["S\t" + enc_str(t) for t in texts + scripts]
    res = run_cases(ck, lines, "main")
    dist = {}
    cmds_seen = set()
    nontriv = set()
    flow_words = {}
    for k, (line, r) in enumerate(zip(lines, res)):
        key = (r or "NONE").split(" ")[0]
        dist[key] = dist.get(key, 0) + 1
        src = (texts + scripts)[k]
        if k >= len(texts):
            nontriv.add(src)
            for l in src.split("\n")[len(prelude()):]:
                w = l.split(" = ", 1)[-1].split(" ")[0]
                if w in ("fn", "if", "for", "while", "return", "elseif", "else", "end"):
                    flow_words[w] = flow_words.get(w, 0) + 1
                if w in SIGS:
                    cmds_seen.add(w)
        if r is None or r.startswith("PANIC") or r.startswith("ABORT") or r.startswith("HANG") or r == "BADLINE":
            found = True
            if len(ck.violations) < 5:
                ck.violation({"kind": "script does not return control normally", "result": r, "script": src, "wire": line,
                              "seed": ck.seed, "replay_cmd": "printf '%s\\n' | .cache/cargo-target/release/c07 --out /dev/stdout --work .cache/c07/replay" % line.replace("\t", "\\t")})
    ck.coverage.update({
        "evaluations": len(lines),
        "distinct_nontrivial": len(nontriv),
        "rule": "parser level: every text of length <= %d over the 16-character syntax alphabet (exhaustive) plus random syntax / Unicode texts; "
                "library level: random straight-line command sequences (1-14 commands after a fixed prelude creating an array, a map, a set, a released "
                "handle and a byte array) over %d commands with typed argument pools (25%% untyped), too few / too many arguments; each shard in a child "
                "process under a watchdog and a 6 GB address-space limit. non-trivial = distinct generated command sequence" % (nmax, len(SIGS)),
        "exhaustive": False,
        "exhaustive_part": {"texts": n_exh},
        "samples": [texts[n_exh // 2], scripts[0], scripts[-1]],
        "result_distribution": dist,
        "structured_programs": {"generated": len(scripts) - n_straight, "flow_words": flow_words,
                                "rule": "0-3 functions (a third of them <scope>), if/elseif/else, for over array/set/map/released/undefined "
                                        "handles, while loops switched off by their body, nesting <= 3, bodies of scope-stack / variable / "
                                        "handle commands, calls only to functions defined earlier (no recursion), no goto"},
        "commands_exercised": sorted(cmds_seen),
        "commands_excluded": EXCLUDED,
        "modelled_and_proved": ["%s.%s" % t for t in thms],
        "not_modelled": "all library commands other than those named by the theorems above are covered by the exploration only; memory, stack and "
                        "thread behaviour are the runtime's",
        "known_finding_witnesses": wit,
    })
    ck.report_broken(found)
    ck.assumptions += [
        "exploration is testing: it supports the claim for the unmodelled ~200 commands and never stands in for a theorem",
        "commands that block or leave the process, need the network, or write/delete files are excluded from generation (listed in commands_excluded)",
        "the classes of the open findings F8 (join_path argument outside C09's safe class: containing $ % CR LF # \" backslash or surrounding white space), F12 (include cycle), F13 (range/random_text with a span above 10^5), F17 (alias definitions that can form a cycle), F23 (json_encode after a handle was stored inside a collection), F30 / F32 (conditions / calc expressions nested deeper than 20000 levels), F25 (alias of a user function; functions are not generated) are excluded from generation",
    ]
