"""C20 — the command-line tool reports what the library decided.

Formal side: props/C20.v (model Cli.v of duckscript_cli/src/main.rs + linter.rs; tables regenerated from
the source by lib/gen/c20_gen.py).
Correspondence: the `duck` executable, built from the CURRENT tree of the repository, is run as a
subprocess on generated scripts (succeeding, crashing, exiting non-zero, not parsing, missing) in every
invocation form (file, -e, --eval, -l, --lint, --version, --help, -h, no arguments, lone / mis-spelt
options, extra arguments) and compared with
  * the extracted model: dispatch (which library call the arguments select), exit_code, lint verdict;
  * the library run in-process on the action the model selected (harness c20: stdout captured through
    Env::new(out, ..)): exit status 0 iff Ok, stdout = library output + "Error: <message>" iff Err.
Process exit, stdout plumbing and argv decoding are the runtime's: covered by this run only (partial)."""
import os
import resource
import shutil
import subprocess
from concurrent.futures import ThreadPoolExecutor
import vlib
from vlib import enc_str, dec_str, enc_list

THEOREMS = ["C20_tables", "C20_dispatch_repl", "C20_dispatch_version", "C20_dispatch_help", "C20_dispatch_single",
            "C20_dispatch_eval", "C20_dispatch_lint", "C20_dispatch_file", "C20_dispatch_total", "C20_exit", "C20_exit_source",
            "C20_error_line", "C20_exit_status", "C20_lint", "C20_lint_report", "C20_lint_field",
            "C20_lint_only_parses", "C20_nonvacuous"]
CLI_TARGET = os.path.join(vlib.CACHE, "cargo-target-cli")
DUCK = os.path.join(CLI_TARGET, "release", "duck")
MALFORMED = ['x = set "abc', 'echo \\q', '!', '!bogus a', ':"lab" echo', 'out = "cmd" a']


def build_duck():
    """the executable under test is built from the repository's current tree (VERIF_REPO honoured)"""
    os.makedirs(CLI_TARGET, exist_ok=True)
    rc, out = vlib.sh("flock %s/cargo-cli.lock cargo build --offline --release -p duckscript_cli" % vlib.CACHE,
                      cwd=vlib.REPO, timeout=3000, env={"CARGO_TARGET_DIR": CLI_TARGET})
    return rc == 0 and os.path.exists(DUCK), out


def _limits():
    resource.setrlimit(resource.RLIMIT_AS, (4 << 30, 4 << 30))
    resource.setrlimit(resource.RLIMIT_CORE, (0, 0))


def run_duck(job):
    args, cwd, stdin = job
    try:
        p = subprocess.run([DUCK] + args, cwd=cwd, input=stdin if stdin is not None else "", stdout=subprocess.PIPE,
                           stderr=subprocess.PIPE, text=True, errors="replace", timeout=30, preexec_fn=_limits)
        return p.returncode, p.stdout
    except subprocess.TimeoutExpired:
        return "timeout", ""


def spell(rng, word, mode):
    if mode == "lower":
        return word
    if mode == "upper":
        return word.upper()
    return "".join(c.upper() if rng.random() < 0.4 else c for c in word) or word


def gen_script(rng, kind, k):
    """returns the text; every script echoes unique MARK tokens so that output can be attributed"""
    lines = []
    n = rng.randint(1, 6)
    for j in range(n):
        r = rng.random()
        if r < 0.4:
            # arguments with the documented escapes, quoted and not (seed C20-w7-m2: the -e text was pre-processed, an unquoted \n
            # became a line break before the library saw the script)
            lines.append("echo MARK%d_%d %s" % (k, j, rng.choice(["a", "b c", '"q r"', "${x}", "", "one\\ntwo", '"q\\nr"', "a\\\\b", "t\\tu",
                                                                   '"say \\"hi\\""', "x\\n", "\\necho MARK_inner"])))
        elif r < 0.6:
            lines.append("x = set v%d" % j)
        elif r < 0.7:
            lines.append(":lab%d echo MARK%d_%d at-label" % (j, k, j))
        elif r < 0.8:
            lines += ["if %s" % rng.choice(["true", "false"]), "echo MARK%d_%d then" % (k, j), "else",
                      "echo MARK%d_%d else" % (k, j), "end"]
        elif r < 0.9:
            lines.append(rng.choice(["", "# comment", "   "]))
        else:
            lines.append("y%d = echo MARK%d_%d assigned" % (j, k, j))
    at = rng.randint(0, len(lines))
    if kind == "ok":
        if rng.random() < 0.3:
            lines.insert(at, rng.choice(["exit", "exit 0", "exit abc", "quit 0", "exit 00"]))
    elif kind == "exit":
        lines.insert(at, "exit %s" % rng.choice(["1", "2", "3", "255", "256", "-1", "42"]))
    elif kind == "crash":
        lines.insert(at, rng.choice(["assert false", "assert_fail", "assert_eq 1 2", "assert_error",
                                     "exit_on_error true\nbogus_command_%d" % k, "exit_on_error true\nrm"]))
    elif kind == "soft":
        # an error that is reported to on_error but does not stop the run
        lines.insert(at, rng.choice(["bogus_command_%d" % k, "rm", "goto_nowhere = calc", "Echo MARK%d_u upper-cmd" % k]))
    elif kind == "parse":
        lines.insert(at, rng.choice(MALFORMED))
    elif kind == "goto":
        lines.insert(at, "goto :nowhere%d" % k)
    text = "\n".join(lines)
    if rng.random() < 0.8:
        text += "\n"
    return text


def gen_lint_script(rng, k):
    """lines with label / output / command in lower, UPPER or miXed spelling; upper-case letters in
    arguments, comments and quoted text never matter"""
    lines = []
    expect_first = None
    for j in range(rng.randint(1, 7)):
        r = rng.random()
        if r < 0.15:
            lines.append(rng.choice(["", "# A COMMENT With Upper", "   "]))
            continue
        ml, mo, mc = [rng.choice(["lower"] * 7 + ["upper", "mixed"]) for _ in range(3)]
        parts = []
        has_l = rng.random() < 0.4
        has_o = rng.random() < 0.5
        has_c = rng.random() < 0.9 or not (has_l or has_o)
        if has_l:
            parts.append(":" + spell(rng, "lab%s" % "xyz"[j % 3], ml))
        if has_o and has_c:
            parts.append(spell(rng, "out%s" % "abc"[j % 3], mo) + " =")
        if has_c:
            parts.append(spell(rng, rng.choice(["echo", "set", "std::echo", "noop"]), mc))
            parts.append(rng.choice(["MARK%d_%d" % (k, j), "UPPER arg", '"Quoted UPPER"', "${Var}", "%{Spread}", ""]))
        lines.append(" ".join(parts))
    if rng.random() < 0.12:
        lines.insert(rng.randint(0, len(lines)), rng.choice(MALFORMED))
    text = "\n".join(lines)
    if rng.random() < 0.8:
        text += "\n"
    return text


def run(ck):
    ck.gen_from_source()
    ck.coq_build(["props/C20.vo", "extract/C20_extract.vo"])
    ck.print_assumptions(["DSP.C20"], ["DSP.C20." + t for t in THEOREMS])
    ck.hygiene()
    ck.source_tie("cli")
    ck.ocaml_build()
    ck.harness_build(["c20"])
    ok, log = build_duck()
    if not ok:
        print(log[-3000:])
        print("ERROR: duckscript_cli does not build from the repository's current tree")
        raise SystemExit(2)
    model_ok = not any(b.startswith("ocaml") for b in ck.broken) and os.path.exists(
        os.path.join(vlib.ROOT, "ocaml", "bin", "c20_model"))
    thorough = ck.tier == "thorough"
    rng = ck.rng
    base = os.path.realpath(os.path.join(vlib.CACHE, "c20"))
    work = os.path.join(base, "s%d_%d" % (ck.seed, os.getpid()))
    shutil.rmtree(work, ignore_errors=True)
    os.makedirs(work)
    found = False
    try:
        found = body(ck, rng, work, thorough, model_ok)
    finally:
        shutil.rmtree(work, ignore_errors=True)
    ck.report_broken(found)
    ck.assumptions += [
        "process exit status, stdout plumbing and argv decoding are the Rust runtime's / the OS's: covered by the correspondence run only",
        "Rust's to_lowercase agrees with ASCII lower-casing on the 128 ASCII characters (checked exhaustively on every run); "
        "names with non-ASCII characters are outside the domain of C20_lint",
        "the library verdicts (run_script_file / run_script / repl / parse_file results) are parameters of the model; the in-process "
        "harness supplies them with the same SDK context construction as duckscript_cli::create_context",
        "`!print` pre-processor lines write to the process's stdout, not to Env.out: the in-process library run cannot capture them; "
        "for scripts with `!print` the oracle is the documented order (each directive once, at parse time, then the run's output)",
        "REPL: only the `exit` path is exercised (on end-of-input the REPL loop never returns: read_line keeps returning Ok(0))",
    ]


def body(ck, rng, work, thorough, model_ok):
    if not model_ok:
        ck.coverage.update({"evaluations": 0, "distinct_nontrivial": 0, "rule": "model did not build", "samples": []})
        return False
    n_scripts = 700 if thorough else 170
    n_lint = 1500 if thorough else 350
    jobs = []   # dict(args, cwd, stdin, kind, ...)
    kinds = ["ok", "ok", "exit", "crash", "soft", "parse", "goto"]

    def mkdir(k):
        d = os.path.join(work, "c%d" % k)
        os.makedirs(d, exist_ok=True)
        return d

    k = 0
    for _ in range(n_scripts):
        k += 1
        kind = rng.choice(kinds)
        text = gen_script(rng, kind, k)
        d = mkdir(k)
        name = rng.choice(["script.ds", "s", "My Script.ds", "UPPER.DS"])
        open(os.path.join(d, name), "w").write(text)
        forms = [[name], [os.path.join(d, name)], ["-e", text], ["--eval", text]]
        if rng.random() < 0.5:
            forms += [[name, "extra"], ["-e", text, "extra"], ["--eval", text, name], [name, "-e", "echo MARKwrong"],
                      ["-l", name], ["--lint", name, "extra"]]
        if rng.random() < 0.3:
            forms += [["-E", text], ["--Eval", text], ["-eval", text], ["--e", text], ["-L", name], ["--LINT", name]]
        for a in forms:
            jobs.append({"args": a, "cwd": d, "stdin": None, "script_kind": kind, "text": text})
    for _ in range(n_lint):
        k += 1
        text = gen_lint_script(rng, k)
        d = mkdir(k)
        name = rng.choice(["lint.ds", "L", "Some File.ds"])
        open(os.path.join(d, name), "w").write(text)
        forms = [["-l", name], ["--lint", name]] if rng.random() < 0.3 else [[rng.choice(["-l", "--lint"]), name]]
        if rng.random() < 0.1:
            forms.append(["--lint", name, "-e"])
        for a in forms:
            jobs.append({"args": a, "cwd": d, "stdin": None, "script_kind": "lint", "text": text})
    # large files: every instruction of a file is linted, whatever its length (seed C20-w6-m2: files of >= 1024 instructions were
    # linted in 4 parallel blocks of len / 4 instructions, so the last len % 4 instructions were never looked at)
    for n_ in (255, 1023, 1024, 1025, 1026, 1027, 2049) + ((4099, 10001) if thorough else ()):
        for back_ in (0, 1, 2, 3, n_ // 2, None):
            k += 1
            ls_ = [rng.choice(["echo line%d" % i_, "out%d = set %d" % (i_, i_), "# Comment %d" % i_, "", ":lab%d noop" % i_]) for i_ in range(n_)]
            if back_ is not None:
                ls_[n_ - 1 - back_] = rng.choice(["Echo last", "OUT = set 1", ":Label echo x", "x = SET 2", "std::Echo y"])
            text = "\n".join(ls_) + rng.choice(["\n", ""])
            d = mkdir(k)
            open(os.path.join(d, "big.ds"), "w").write(text)
            jobs.append({"args": [rng.choice(["-l", "--lint"]), "big.ds"], "cwd": d, "stdin": None, "script_kind": "lint", "text": text})
    # the fixed part of the table: options alone, mis-spelt, files named like options, missing files
    for rep in range(3 if thorough else 1):
        k += 1
        d = mkdir(k)
        for fname in ["-e", "-l", "--eval", "--lint", "-v", "-V", "--Version", "-H", "x.ds"]:
            open(os.path.join(d, fname), "w").write("echo MARKfile%d-%s\n" % (k, fname.strip("-")))
        for a in [["--version"], ["--version", "x.ds"], ["--version", "-e", "exit 1"], ["--help"], ["-h"], ["-h", "x.ds"],
                  ["--help", "-e", "exit 1"], ["-e"], ["-l"], ["--eval"], ["--lint"], ["-v"], ["-V"], ["--Version"], ["-H"],
                  ["-v", "x.ds"], ["x.ds", "--version"], ["x.ds", "--help"], ["x.ds", "-h"], ["missing.ds"],
                  ["-e", "x.ds"], ["--eval", ""], ["-e", ""], ["-l", "missing.ds"], ["--lint", "-e"], ["-l", "-l"],
                  ["-e", "-e"], ["-e", "--version"], ["-l", "--help"], [""], ["", "x.ds"], ["-e", "echo MARKx", "-l", "x.ds"]]:
            jobs.append({"args": a, "cwd": d, "stdin": None, "script_kind": "table", "text": None})
        for stdin in ["exit\n", "echo MARKrepl\nexit\n", "x = set 5\necho ${x}\nexit 3\n", "echo MARKr1\nbogus\nexit\n"]:
            jobs.append({"args": [], "cwd": d, "stdin": stdin, "script_kind": "repl", "text": stdin})

    # --- model: dispatch
    m_d = ck.model(["D\t" + enc_list(j["args"]) for j in jobs])
    tbl = ck.model(["A", "X\tOK", "X\tERR"])
    low = ck.impl(["LOWER"])[0]
    ck.obligations.append("ASCII lower-casing fact (128 characters, exhaustive)")
    if [enc_str(chr(int(x))) for x in tbl[0].split(" ")] == low.split(" "):
        ck.discharged.append("ASCII lower-casing fact")
    else:
        ck.broken.append("ASCII lower-casing fact: model %s / Rust %s" % (tbl[0][:80], low[:80]))
    exit_of = {"OK": tbl[1].split(" "), "ERR": tbl[2].split(" ")}   # [status, prints_error]
    # --- library in-process, on the action the model selected
    h_lines, l_lines = [], []
    for j, md in zip(jobs, m_d):
        act = md.split(" ")
        j["action"] = act[0]
        j["h"] = j["l"] = None
        if act[0] == "FILE":
            j["h"] = len(h_lines)
            h_lines.append("\t".join(["RUN", "file", enc_str(j["cwd"]), act[1]]))
        elif act[0] == "TEXT":
            j["h"] = len(h_lines)
            h_lines.append("\t".join(["RUN", "text", enc_str(j["cwd"]), act[1]]))
        elif act[0] == "LINT":
            j["h"] = len(h_lines)
            h_lines.append("\t".join(["PARSE", enc_str(j["cwd"]), act[1]]))
            p = os.path.join(j["cwd"], dec_str(act[1]))
            if os.path.isfile(p):
                j["l"] = len(l_lines)
                l_lines.append("L\t" + enc_str(open(p).read()))
    h_out = ck.impl(h_lines, timeout=900)
    l_out = ck.model(l_lines) if l_lines else []
    # --- the executable
    with ThreadPoolExecutor(max_workers=16) as ex:
        cli = list(ex.map(run_duck, [(j["args"], j["cwd"], j["stdin"]) for j in jobs]))

    found = False
    dist = {"action": {}, "script_kind": {}, "exit_status": {}, "lint": {}}
    nontriv = set()
    for j, (rc, out) in zip(jobs, cli):
        bad = None
        act = j["action"]
        dist["action"][act] = dist["action"].get(act, 0) + 1
        dist["script_kind"][j["script_kind"]] = dist["script_kind"].get(j["script_kind"], 0) + 1
        dist["exit_status"][str(rc)] = dist["exit_status"].get(str(rc), 0) + 1
        exp = None
        if act in ("FILE", "TEXT"):
            f = h_out[j["h"]].split(" ")
            if f[0] == "OK":
                lib_ok, lib_out, msg = True, dec_str(f[1]), None
            elif f[0] == "ERR":
                lib_ok, lib_out, msg = False, dec_str(f[2]), dec_str(f[1])
            else:
                bad = "in-process library run failed: " + h_out[j["h"]][:100]
            if bad is None:
                st, pe = exit_of["OK" if lib_ok else "ERR"]
                exp = (int(st), lib_out + ("Error: %s\n" % msg if pe == "T" else ""))
                if (rc, out) != exp or ((rc == 0) != lib_ok):
                    bad = "exit status / stdout of the executable differ from the library's decision"
                nontriv.add((act, lib_ok, lib_out, msg))
        elif act == "LINT":
            f = h_out[j["h"]].split(" ")
            fname = j["args"][1]
            lines = out.split("\n")
            if j["l"] is None:      # the file does not exist: parse_file fails
                if f[0] != "ERR":
                    bad = "in-process parse of a missing file succeeded"
                else:
                    exp = (int(exit_of["ERR"][0]), "Error: %s\n" % dec_str(f[3]))
                    if (rc, out) != exp or rc == 0:
                        bad = "lint of an unreadable file: exit status / stdout differ"
            else:
                says, verdict = l_out[j["l"]].split("\t")
                v = verdict.split(" ")
                dist["lint"][" ".join(v[:2])] = dist["lint"].get(" ".join(v[:2]), 0) + 1
                nontriv.add(("LINT", j["text"]))
                st = int(exit_of["OK" if v[0] == "OK" else "ERR"][0])
                if (rc == 0) != (v[0] == "OK"):
                    bad = "lint: exit status 0 must mean accepted (model: %s)" % verdict
                marks = "MARK" in out.replace(fname, "")
                if bad:
                    pass
                elif v[0] == "PARSE":
                    if not (f[0] == "ERR" and f[1] == v[1] and f[2] == v[2]):
                        bad = "lint: model and library disagree on the parse error (%s / %s)" % (verdict, " ".join(f[:3]))
                    else:
                        exp = (st, "Error: %s\n" % dec_str(f[3]))
                        if (rc, out) != exp:
                            bad = "lint of a file that does not parse: exit status / stdout differ"
                elif f[0] != "OK":
                    bad = "lint: the model parses the file, the library does not"
                elif v[0] == "OK":
                    exp = (st, "2 lines naming the file, no Error line, nothing from the script")
                    if rc != st or len(lines) != 3 or lines[2] != "" or any(fname not in x for x in lines[:2]) or \
                            any(x.startswith("Error:") for x in lines) or marks:
                        bad = "lint accepted by the model: executable disagrees (status, Error line, or script output present)"
                else:   # LINT <field> <line>
                    exp = (st, "1 line naming the file, then `Error: ... Line: %s ... %s ...`" % (v[2], v[1]))
                    key = {"label": "label", "command": "command", "output": "output"}[v[1]]
                    el = lines[1] if len(lines) > 1 else ""
                    if rc != st or len(lines) != 3 or fname not in lines[0] or not el.startswith("Error: ") or \
                            ("Line: %s " % v[2]) not in el or key not in el.lower() or marks or \
                            sum(w in el.lower() for w in ("label", "command", "output")) != 1:
                        bad = "lint rejected by the model (%s): executable disagrees" % verdict
        elif act == "VERSION":
            exp = (0, "Duckscript Runtime: ...\\nDuckscript SDK: ...\\nDuckscript CLI: ...")
            ls = out.split("\n")
            if rc != 0 or len(ls) != 4 or not (ls[0].startswith("Duckscript Runtime: ") and ls[1].startswith("Duckscript SDK: ")
                                               and ls[2].startswith("Duckscript CLI: ")) or "MARK" in out or "Error:" in out:
                bad = "--version: unexpected status / output"
        elif act == "HELP":
            exp = (0, "duckscript <version> ... usage text")
            if rc != 0 or not out.startswith("duckscript ") or "MARK" in out or "Error:" in out or "USAGE" not in out.upper():
                bad = "--help: unexpected status / output"
        elif act == "REPL":
            # the REPL runs line by line; the only library verdict reachable here is Ok (exit ends it)
            want = "".join(("MARK" + x.split("MARK")[1].split(" ")[0] + " \n") for x in (j["stdin"] or "").split("\n") if x.startswith("echo MARK"))
            exp = (0, "the echoed MARK lines, no Error: prefix line")
            if rc != 0 or any(w not in out for w in want.split(" \n") if w) or out.startswith("Error:"):
                bad = "REPL: unexpected status / output"
        else:
            bad = "model output malformed: " + act
        if bad:
            found = True
            if len(ck.violations) < 5:
                ck.violation({"kind": bad, "seed": ck.seed, "args": j["args"], "stdin": j["stdin"],
                              "script_kind": j["script_kind"], "script": j["text"],
                              "files_in_cwd": sorted(os.listdir(j["cwd"])),
                              "model_action": act, "expected(status, stdout)": exp, "executable(status, stdout)": [rc, out],
                              "library_in_process": h_out[j["h"]][:400] if j["h"] is not None else None,
                              "model_lint": l_out[j["l"]] if j["l"] is not None else None,
                              "theorems": ["C20_exit_status", "C20_exit", "C20_lint", "C20_dispatch_*"],
                              "replay_cmd": "cd <dir with the script> && %s %s ; echo $?" % (DUCK, " ".join(repr(a) for a in j["args"]))})
    # --- scripts whose output is written by the runtime AND by child processes that inherit stdout (exec without an
    # output variable): "printing the same output" includes its order.  The in-process harness cannot host such a child
    # (its stdout is the result channel), so the oracle is the program order itself: echo lines and child lines
    # alternate exactly as the instructions do; a final `exit <n>` adds the non-zero status and the Error: line.
    child_jobs = []
    echo_bin = shutil.which("echo")
    if echo_bin:
        for c in range(40 if thorough else 12):
            k += 1
            lines, want = [], []
            for jn in range(rng.randint(2, 7)):
                if rng.random() < 0.5:
                    lines.append("echo MARK%d_%d" % (k, jn))
                    want.append("MARK%d_%d" % (k, jn))
                else:
                    lines.append("exec %s CHILD%d_%d" % (echo_bin, k, jn))
                    want.append("CHILD%d_%d" % (k, jn))
            fail = rng.random() < 0.3
            if fail:
                lines.append("exit 3")
            text = "\n".join(lines) + "\n"
            d = mkdir(k)
            open(os.path.join(d, "child.ds"), "w").write(text)
            for a in (["child.ds"], ["-e", text]):
                child_jobs.append({"args": a, "cwd": d, "stdin": None, "text": text, "want": want, "fail": fail})
        with ThreadPoolExecutor(max_workers=16) as ex:
            cres = list(ex.map(run_duck, [(j["args"], j["cwd"], j["stdin"]) for j in child_jobs]))
        for j, (rc, out) in zip(child_jobs, cres):
            got = [l.strip() for l in out.split("\n") if l.strip()]
            body_lines = [l for l in got if not l.startswith("Error:")]
            ok = body_lines == j["want"] and ((rc != 0 and got and got[-1].startswith("Error:")) if j["fail"]
                                               else (rc == 0 and len(got) == len(body_lines)))
            nontriv.add(("CHILD", j["text"]))
            if not ok:
                found = True
                if len(ck.violations) < 5:
                    ck.violation({"kind": "output written by the runtime and by child processes is not in program order / wrong status",
                                  "seed": ck.seed, "args": j["args"], "script": j["text"],
                                  "expected_lines_in_order": j["want"], "expected_failure": j["fail"],
                                  "executable(status, stdout)": [rc, out], "theorems": ["C20_exit_status", "C20_error_line"],
                                  "replay_cmd": "cd <dir with child.ds> && %s %s ; echo $?" % (DUCK, " ".join(repr(a) for a in j["args"]))})
    # --- scripts with `!print` pre-processor lines: they write to the process's stdout while the script is PARSED (so the
    # in-process harness cannot host them either); the library parses a script once, so every directive prints once, all of
    # them before the first instruction runs, in line order (seed C20-w5-m2: a validation parse ran the directives twice)
    print_jobs = []
    for c in range(60 if thorough else 16):
        k += 1
        lines, pre, run_ = [], [], []
        for jn in range(rng.randint(2, 8)):
            r = rng.random()
            if r < 0.45:
                words = ["PRE%d_%d" % (k, jn)] + [rng.choice(["x", "two words", "${a}", "#h"]) for _ in range(rng.randint(0, 2))]
                lines.append("!print " + " ".join('"%s"' % w if " " in w or "#" in w else w for w in words))
                pre.append(" ".join(words))
            elif r < 0.85:
                lines.append("echo RUN%d_%d" % (k, jn))
                run_.append("RUN%d_%d" % (k, jn))
            else:
                lines.append("a = set v%d" % jn)
        fail = rng.random() < 0.3
        if fail:
            lines.append("exit 3")
        text = "\n".join(lines) + "\n"
        d = mkdir(k)
        open(os.path.join(d, "pp.ds"), "w").write(text)
        for a in (["pp.ds"], ["-e", text], ["--eval", text]):
            print_jobs.append({"args": a, "cwd": d, "stdin": None, "text": text, "want": pre + run_, "fail": fail})
    with ThreadPoolExecutor(max_workers=16) as ex:
        pres = list(ex.map(run_duck, [(j["args"], j["cwd"], j["stdin"]) for j in print_jobs]))
    for j, (rc, out) in zip(print_jobs, pres):
        got = [l.strip() for l in out.split("\n") if l.strip()]
        body_lines = [l for l in got if not l.startswith("Error:")]
        ok = body_lines == j["want"] and ((rc != 0 and got and got[-1].startswith("Error:")) if j["fail"]
                                           else (rc == 0 and len(got) == len(body_lines)))
        nontriv.add(("PRINT", j["text"]))
        if not ok:
            found = True
            if len(ck.violations) < 5:
                ck.violation({"kind": "`!print` directives: every directive prints once, before the run, in line order; then the run's output",
                              "seed": ck.seed, "args": j["args"], "script": j["text"],
                              "expected_lines_in_order": j["want"], "expected_failure": j["fail"],
                              "executable(status, stdout)": [rc, out], "theorems": ["C20_exit_status", "C20_error_line"],
                              "replay_cmd": "cd <dir with pp.ds> && %s %s ; echo $?" % (DUCK, " ".join(repr(a) for a in j["args"]))})
    dist["print_directive_scripts"] = len(print_jobs)
    dist["child_output_scripts"] = len(child_jobs)
    ck.coverage.update({
        "evaluations": len(jobs) + len(child_jobs) + len(print_jobs),
        "distinct_nontrivial": len(nontriv),
        "rule": "every job is one run of the executable; non-trivial = distinct (action, library verdict, library output, message) for "
                "run forms, distinct lint script for lint forms. Scripts: succeeding (incl. exit / exit 0 / exit abc), exit <non-zero>, "
                "crash (assert*, exit_on_error), soft errors, parse errors, unknown goto label, missing file; forms: file (relative, "
                "absolute, extra arguments), -e / --eval (extra arguments), -l / --lint, lone and mis-spelt options, files named like "
                "options, --version / --help / -h with and without further arguments, REPL ended by exit",
        "exhaustive": False,
        "samples": [jobs[0]["args"][:1] + ["..."], jobs[len(jobs) // 2]["args"][:2], jobs[-5]["args"]],
        "distribution": dist,
    })
    return found
