"""C08 — parsing is total, one instruction per line, malformed lines rejected in place.

Formal side: props/C08.v about the model DS.Parser (suffix model of duckscript/src/parser.rs), its
index-faithful twin DS.ParserIx (explicit Panic), the per-line verdict `line_error` and the error
classes of DS.ParserClasses (renderings).
Correspondence: `duckscript::parser::parse_text` against the extracted `parse_text` on
  (a) every text up to a length over the 16-character syntax alphabet (digest per block of 4096
      texts computed on both sides; a differing block is re-run text by text),
  (b) random Unicode texts, syntax-dense random texts, very long lines, LF / CRLF / bare-CR mixes,
  (c) well-formed scripts with one malformed line planted at every position (expected error kind
      and line number computed independently here),
  (d) lines rendered by the extracted class renderers of C08_errors (the theorem's domain),
and the extracted *specification* (one instruction per line / first unacceptable line, computed
from `lines`, `line_error`, `parse_line`) as a second oracle on every text.  The White_Space table
used by the model's `trim` is compared with char::is_whitespace for all scalar values."""
import glob
import json
import os
import vlib
from vlib import enc_str, dec_str

THEOREMS = ["C08_args_terminate", "C08_total_fn", "C08_count", "C08_first_error", "C08_planted",
            "C08_line_errors"]
EXTRA_THEOREMS_FILE = os.path.join(vlib.ROOT, "coq", "props", "C08.v")
ALPHA = ':="\\#!$%{} \tan\n\r'
BLOCK = 4096

NAME_CH = "abcxyzABZ_019-.:=é$%{}"
ARG_CH = "abcxyz019_-.:=$%{}!éé中\U0001F600/"
WS_CH = "\t\x0b\x0c\r \x85\xa0        　"
ESCAPES = ["\\\\", "\\\"", "\\n", "\\r", "\\t"]


# ---- generators (independent of the Coq renderer: the model is only the oracle here) -----------
def g_name(rng, first=False, no_eq=False):
    n = rng.randint(1, 6)
    out = []
    for k in range(n):
        while True:
            c = rng.choice(NAME_CH)
            if no_eq and c == "=":
                continue
            if first and k == 0 and c in ":!":
                continue
            break
        out.append(c)
    return "".join(out)


def g_arg(rng):
    n = rng.randint(0, 6)
    if rng.random() < 0.45:
        body = []
        for _ in range(n):
            r = rng.random()
            if r < 0.15:
                body.append(rng.choice(ESCAPES))
            elif r < 0.3:
                body.append(rng.choice(" #\t"))
            else:
                body.append(rng.choice(ARG_CH))
        return '"' + "".join(body) + '"'
    body = []
    for k in range(max(1, n)):
        r = rng.random()
        if r < 0.15:
            body.append(rng.choice(ESCAPES))
        else:
            body.append(rng.choice(ARG_CH if k else ARG_CH.replace("=", "a")))
    return "".join(body)


def sp(rng, least=1):
    return " " * (least + (rng.randint(0, 3) if rng.random() < 0.3 else 0))


def g_good(rng):
    """a well-formed line (accepted by the parser)"""
    r = rng.random()
    lead = "".join(rng.choice(WS_CH) for _ in range(rng.randint(0, 2))) if rng.random() < 0.3 else ""
    trail = "".join(rng.choice(WS_CH) for _ in range(rng.randint(0, 2))) if rng.random() < 0.3 else ""
    comment = (sp(rng, 0) + "#" + "".join(rng.choice(ARG_CH + ' "\\#') for _ in range(rng.randint(0, 8)))) if rng.random() < 0.25 else ""
    if r < 0.08:
        return lead + trail
    if r < 0.16:
        return lead + "#" + "".join(rng.choice(ARG_CH + ' "\\') for _ in range(rng.randint(0, 8))) + trail
    if r < 0.22:
        return lead + "!include_files" + comment.replace("#", " #", 1) + trail
    if r < 0.30:
        return lead + "!print" + "".join(sp(rng) + g_arg(rng) for _ in range(rng.randint(0, 3))) + (" " + comment if comment else "") + trail
    parts = []
    first = True
    if rng.random() < 0.3:
        parts.append(":" + g_name(rng))
        first = False
    has_out = rng.random() < 0.5
    has_cmd = rng.random() < 0.9
    if has_out:
        parts.append(g_name(rng, first=first, no_eq=True) + sp(rng, 0) + "=" + (sp(rng, 0) + g_name(rng) if has_cmd else ""))
    elif has_cmd:
        parts.append(g_name(rng, first=first, no_eq=True))
    line = sp(rng).join(parts)
    if has_cmd:
        for k in range(rng.randint(0, 4)):
            a = g_arg(rng)
            if k == 0 and not has_out and a.startswith("="):
                a = '"' + a + '"'
            line += sp(rng) + a
    if comment and line and not line.endswith("="):
        line += " " + comment
    return lead + line + trail


BAD_KINDS = ["MissingEndQuotes", "ControlWithoutValidValue", "InvalidQuotesLocation",
             "InvalidControlLocation", "PreNoCommand", "UnknownPreProcessorCommand"]


def g_bad(rng):
    """a line with exactly one malformation -> (line, expected error kind, class name)"""
    head = ""
    if rng.random() < 0.3:
        head += ":" + g_name(rng) + sp(rng)
    out = g_name(rng, first=(head == ""), no_eq=True) + sp(rng, 0) + "=" + sp(rng, 0) if rng.random() < 0.4 else ""
    cmd = g_name(rng, first=(head == "" and out == ""), no_eq=(out == ""))
    args = ""
    for k in range(rng.randint(0, 2)):
        a = g_arg(rng)
        if k == 0 and not out and a.startswith("="):
            a = '"' + a + '"'
        args += sp(rng) + a
    plain = "".join(rng.choice("abcxyz019") for _ in range(rng.randint(0, 4)))
    r = rng.randint(0, 8)
    if r == 0:
        return head + out + cmd + args + sp(rng) + '"' + plain + rng.choice(["", " more words", "\\\"", " # not a comment"]), "MissingEndQuotes", "unterminated-quote"
    if r == 1:
        q = rng.choice(['', '"'])
        esc = "\\" + rng.choice("abcxyz019 ${}%=:!#'/")
        if esc == "\\$":
            esc = "\\$" + rng.choice("ax} ")
        return head + out + cmd + args + sp(rng) + q + plain + esc + plain + q, "ControlWithoutValidValue", "undocumented-escape"
    if r == 2:
        q = rng.choice(['', '"'])
        return head + out + cmd + args + sp(rng) + q + plain + rng.choice(["\\", "\\$"]), "ControlWithoutValidValue", "dangling-backslash"
    if r == 3:
        w = rng.randint(0, 2)
        if w == 0:
            return ':"' + plain + '"' + sp(rng) + cmd + args, "InvalidQuotesLocation", "quoted-label"
        if w == 1:
            return head + '"' + plain + '"' + args, "InvalidQuotesLocation", "quoted-first-name"
        return head + g_name(rng, first=(head == ""), no_eq=True) + sp(rng, 0) + "=" + sp(rng, 0) + '"' + plain + '"' + args, "InvalidQuotesLocation", "quoted-command"
    if r == 4:
        w = rng.randint(0, 2)
        bs = "a" + plain + "\\" + plain
        if w == 0:
            return ":" + bs + sp(rng) + cmd + args, "InvalidControlLocation", "backslash-label"
        if w == 1:
            return head + bs + args, "InvalidControlLocation", "backslash-first-name"
        return head + g_name(rng, first=(head == ""), no_eq=True) + sp(rng, 0) + "=" + sp(rng, 0) + bs + args, "InvalidControlLocation", "backslash-command"
    if r in (5, 6):
        return rng.choice(["", " ", "\t"]) + "!" + rng.choice(["", " ", "  \t"]), "PreNoCommand", "bang-alone"
    word = rng.choice(["unknown", "includefiles", "Print", "include_file", "print\tx", "x", "printx", "#", "!", "print#", "include_files\tf"])
    return "!" + rng.choice(["", " "]) + word + args, "UnknownPreProcessorCommand", "bang-unknown"


def bits_for(rng, s, quoted, perturb=0.02):
    out = []
    for k, c in enumerate(s):
        must = c in "\\\n\r" or (quoted and c == '"') or (not quoted and k == 0 and c == '"')
        b = must or rng.random() < 0.3
        if rng.random() < perturb:
            b = not b
        out.append("1" if b else "0")
    return "".join(out) or "-"


def g_bad_spec(rng):
    """wire form of a member of an error class of C08_errors (DS.ParserClasses.bad_line); mostly valid"""
    from props import c01
    lead, trail = c01.g_ws(rng), c01.g_ws(rng)
    r = rng.randint(0, 9)
    if r <= 4:
        has_l, has_o = rng.random() < 0.3, rng.random() < 0.4
        label = c01.g_name(rng) if has_l else None
        output = c01.g_name(rng, first=not has_l, no_eq=True) if has_o else None
        command = c01.g_name(rng, first=not (has_l or has_o), no_eq=not has_o)
        args = [c01.g_argstr(rng) for _ in range(rng.choice([0, 0, 1, 2, 3]))]
        argch = [c01.choose_arg(rng, a, k == 0 and not has_o, 0.01) for k, a in enumerate(args)]
        item = c01.mk_item(label, output, command, args, "", "", rng.randint(0, 1), rng.randint(0, 2), rng.randint(0, 2), argch, None, "L")
        txt = "".join(rng.choice("abcxyz019 \t=:$%{}é#\"\\\r") if rng.random() < 0.9 else rand_scalar(rng) for _ in range(rng.randint(0, 5)))
        k = rng.randint(0, 5)
        if k == 0:
            tok = "U,%s,%s" % (enc_str(txt), bits_for(rng, txt, True))
        else:
            q = rng.random() < 0.5
            if not q:
                txt = txt.replace(" ", "a").replace("#", "b")
                if rng.random() < 0.95:
                    txt = txt.lstrip("=")
            rest = "".join(rng.choice("abc \"\\#{}$") for _ in range(rng.randint(0, 3)))
            if k in (1, 2):
                x = rng.choice("abcxyz019 ${}%=:!#'/é\t") if rng.random() < 0.95 else rng.choice("nrt\"\\")
                if x == "$":
                    x = "q"
                fault = "B,%d,%s" % (ord(x), enc_str(rest))
            elif k == 3:
                fault = "D,%d,%s" % (ord(rng.choice("ax} ${")), enc_str(rest))
            elif k == 4:
                fault = "G,0,e"
            else:
                fault = "H,0,e"
            tok = "E,%d,%s,%s,%s" % (1 if q else 0, enc_str(txt), bits_for(rng, txt, q), fault)
        body = "T\t%s\t%d\t%s" % (item, rng.randint(0, 2), tok)
    elif r <= 7:
        lab = c01.g_name(rng) if rng.random() < 0.4 else None
        w = rng.randint(0, 2)
        if w == 0:
            pos = "L"
        elif w == 1:
            pos = "F,%s,%d" % (c01.enc_opt(lab), rng.randint(0, 2))
        else:
            pos = "C,%s,%d,%s,%d,%d" % (c01.enc_opt(lab), rng.randint(0, 2), enc_str(c01.g_name(rng, first=lab is None, no_eq=True)), rng.randint(0, 2), rng.randint(0, 2))
        rest = "".join(rng.choice("abc \"\\#{}$=x") if rng.random() < 0.9 else rand_scalar(rng) for _ in range(rng.randint(0, 6)))
        if rng.random() < 0.5:
            nf = "Q,%s" % enc_str(rest)
        else:
            pre = c01.g_name(rng, first=True, no_eq=True) if rng.random() < 0.8 else ""
            nf = "B,%s,%s" % (enc_str(pre), enc_str(rest))
        body = "N\t%s\t%s" % (pos, nf)
    elif r == 8:
        body = "A"
    else:
        word = rng.choice(["unknown", "includefiles", "Print", "include_file", "print\tx", "x", "printx", "#", "!", "print#", "é", "print", "include_files"])
        if rng.random() < 0.5:
            more = "N"
        else:
            args = [c01.g_argstr(rng) for _ in range(rng.choice([0, 1, 2]))]
            argch = [c01.choose_arg(rng, a, False, 0.01) for a in args]
            ac = " ".join("%d:%d:%s" % (g, q, b if b else "-") for (g, q, b) in argch) if argch else "-"
            cm = "N" if rng.random() < 0.6 else "%d:%s" % (rng.randint(0, 2), enc_str("".join(rng.choice("abc \"\\#") for _ in range(rng.randint(0, 5))) + "z"))
            more = "%s;%s;%s" % (vlib.enc_list(args), ac, cm)
        body = "K\t%d\t%s\t%s" % (rng.randint(0, 2), enc_str(word), more)
    return "B\t%s\t%s\t%s" % (enc_str(lead), enc_str(trail), body)


def rand_scalar(rng):
    while True:
        c = rng.randint(0, 0x10FFFF)
        if not 0xD800 <= c <= 0xDFFF:
            return chr(c)


def g_unicode(rng, n):
    out = []
    for _ in range(n):
        r = rng.random()
        if r < 0.35:
            out.append(rng.choice(ALPHA))
        elif r < 0.55:
            out.append(chr(rng.randint(32, 126)))
        elif r < 0.7:
            out.append(rng.choice(WS_CH + "\n"))
        elif r < 0.85:
            out.append(chr(rng.randint(0x80, 0x2FFF)))
        else:
            out.append(rand_scalar(rng))
    return "".join(out)


def g_syntax(rng, n):
    alpha = ALPHA + 'rt"  \\ab='
    return "".join(rng.choice(alpha) for _ in range(n))


def g_long(rng):
    """long lines that still go through the extracted model (Coq's List.rev is quadratic, so the
    model is only asked about lines of a few thousand characters)"""
    r = rng.randint(0, 5)
    n = rng.randint(800, 3000)
    if r == 0:
        return "cmd" + " a" * (n // 2)
    if r == 1:
        return "out = cmd \"" + "x \\\" " * (n // 5) + "\""
    if r == 2:
        return " " * n + "cmd" + " " * n + "arg" + " " * n
    if r == 3:
        return "cmd " + "\\\\" * (n // 2) + rng.choice(["", "\\"])
    if r == 4:
        return g_syntax(rng, n).replace("\n", " ")
    return ":" + "l" * n + " " + "o" * n + "=" + "c" * n + ' "' + "q" * n


def huge_family(k, n):
    """very long input number k of size n -> (text, expected result), known by construction"""
    S = lambda s: "S" + enc_str(s)
    if k == 0:
        return "cmd" + " a" * n, "OK 1;1,N,S,N,N,%s,A%s" % (S("cmd"), " ".join(["97"] * n))
    if k == 1:
        return " " * n + "cmd" + " " * n + "arg" + " " * n, "OK 1;1,N,S,N,N,%s,A%s" % (S("cmd"), enc_str("arg"))
    if k == 2:
        return "o=c \"" + "x" * n + "\"", "OK 1;1,N,S,N,%s,%s,A%s" % (S("o"), S("c"), enc_str("x" * n))
    if k == 3:
        return "cmd " + "\\\\" * n, "OK 1;1,N,S,N,N,%s,A%s" % (S("cmd"), enc_str("\\" * n))
    if k == 4:
        return "cmd " + "\\\\" * n + "\\", "ERR ControlWithoutValidValue 1"
    if k == 5:
        return "cmd \"" + "q" * n, "ERR MissingEndQuotes 1"
    if k == 6:
        return (":" + "l" * n + " " + "o" * n + "=" + "c" * n + " #" + "z" * n,
                "OK 1;1,N,S,%s,%s,%s,N" % (S(":" + "l" * n), S("o" * n), S("c" * n)))
    if k == 7:
        return "#" * n, "OK 1;1,N,E"
    if k == 8:
        return "\n" * n, ";".join(["OK %d" % n] + ["%d,N,E" % (j + 1) for j in range(n)])
    if k == 9:
        return "a\r\n" * n + "!", "ERR PreNoCommand %d" % (n + 1)
    return "a\n" * n + "b \\q\nc\n", "ERR ControlWithoutValidValue %d" % (n + 1)


N_HUGE_FAMILIES = 11


def huge_cases(rng, thorough):
    """very long inputs for the implementation only, with the expected result known by construction"""
    out = []
    for n in ([20000, 200000] if thorough else [20000, 60000]):
        n += rng.randint(0, 50)
        for k in range(N_HUGE_FAMILIES):
            out.append((k, n) + huge_family(k, n))
    return out


def join_eols(rng, ls, style=None):
    out = []
    for k, l in enumerate(ls):
        out.append(l)
        e = style or rng.choice(["\n", "\n", "\r\n", "\r\n", "\r\r\n", "\n"])
        if k == len(ls) - 1 and rng.random() < 0.4 and l.strip() != "":
            e = ""
        out.append(e)
    return "".join(out)


def first_line_break_free(l):
    return "\n" not in l


# ---- the check -----------------------------------------------------------------------------------
def replay(ck, data):
    """bin/vcheck C08 --replay file: re-run the single input of a replay file on both sides"""
    print(json.dumps({k: v for k, v in data.items() if k != "coq_log_tail"}, indent=1, ensure_ascii=False)[:3000])
    wire = data.get("wire")
    if wire is None:
        print("replay: this file names a broken obligation, not an input; re-run the check itself")
        return 1
    ck.ocaml_build()
    ck.harness_build(["c08"])
    if wire.startswith("HUGE\t"):
        k, n = data["huge_family"]
        text, exp = huge_family(k, n)
        i = ck.impl(["P\t" + enc_str(text)])[0]
        print("expected:       " + exp[:300])
        print("implementation: " + i[:300])
        same = i == exp
    else:
        m = ck.model([wire])[0]
        i = ck.impl([wire])[0]
        mm, ss, ixr = (m.split("\t") + ["", ""])[:3]
        print("model:          " + mm)
        print("spec:           " + ss)
        print("index model:    " + ixr)
        print("implementation: " + i)
        exp = data.get("expected")
        if exp is not None:
            print("expected:       " + exp)
        same = mm == i and ss == i and ixr == i and (exp is None or i == exp)
    print("REPLAY: " + ("agree now" if same else "still disagree"))
    return 0 if same else 1


def nontrivial(res):
    return res.startswith("ERR") or ",S," in res or ",P," in res


def run(ck):
    ck.gen_from_source()
    ck.coq_build(["props/C08.vo", "extract/C08_extract.vo"])
    # theorem names are read from props/C08.v so that adding a theorem there registers an obligation
    import re
    try:
        names = re.findall(r"^Theorem\s+(C08_\w+)", open(EXTRA_THEOREMS_FILE).read(), re.M)
    except OSError:
        names = []
    thms = list(THEOREMS) + [n for n in names if n not in THEOREMS]
    ck.print_assumptions(["DSP.C08"], ["DSP.C08." + t for t in thms])
    ck.source_tie("parser")
    ck.source_tie("include")
    ck.hygiene()
    ck.ocaml_build()
    ck.harness_build(["c08"])
    model_exe = os.path.join(vlib.ROOT, "ocaml", "bin", "c08_model")
    model_ok = not any(b.startswith("ocaml") for b in ck.broken) and os.path.exists(model_exe)
    thorough = ck.tier == "thorough"
    rng = ck.rng
    found = False
    if not model_ok:
        ck.coverage.update({"evaluations": 0, "distinct_nontrivial": 0, "rule": "model did not build", "samples": []})
        ck.report_broken(False)
        return

    def report(kind, text, wire, m, s, i, extra=None):
        nonlocal found
        found = True
        if len(ck.violations) >= 5:
            return
        d = {"kind": kind, "text": text, "wire": wire, "model": m, "spec(one instruction per line / first unacceptable line)": s,
             "implementation": i, "theorems": ["C08_count", "C08_first_error", "C08_planted", "C08_refine"], "seed": ck.seed,
             "replay_cmd": "printf '%s\\n' | .cache/cargo-target/release/c08" % wire.replace("\t", "\\t")}
        if extra:
            d.update(extra)
        ck.violation(d)

    # ---- White_Space table --------------------------------------------------------------------
    ws_m = ck.model(["WS"])[0]
    ws_i = ck.impl(["WS"])[0]
    ck.obligations.append("White_Space table of Base.is_ws = char::is_whitespace (all 1,112,064 scalar values)")
    ws_cases = []
    if ws_m == ws_i and ws_m.startswith("WS 9 "):
        ck.discharged.append("White_Space table")
    else:
        ck.broken.append("White_Space table differs: model %s / rust %s" % (ws_m[:200], ws_i[:200]))
        try:
            diff = set(ws_m.split()[1:]) ^ set(ws_i.split()[1:])
            for cp in sorted(int(x) for x in diff)[:20]:
                ws_cases.append(chr(cp) + "cmd a" + chr(cp))
        except ValueError:
            pass

    # ---- (a) exhaustive small scope --------------------------------------------------------------
    max_len = 7 if thorough else 6
    xlines = []
    for n in range(0, max_len + 1):
        total = len(ALPHA) ** n
        for start in range(0, total, BLOCK):
            xlines.append("X\t%s\t%d\t%d\t%d" % (enc_str(ALPHA), n, start, min(BLOCK, total - start)))
    xm = ck.model(xlines)
    xi = ck.impl(xlines)
    exh_total = sum(len(ALPHA) ** n for n in range(0, max_len + 1))
    exh_ok = exh_ne = exh_err = 0
    bad_blocks = []
    ix_diff = 0
    for k, (m, i) in enumerate(zip(xm, xi)):
        m, _, ixd = m.partition("\t")
        xm[k] = m
        if ixd.startswith("IXDIFF "):
            ix_diff += int(ixd.split(" ")[1])
        else:
            ix_diff += 1
        f = m.split(" ")
        if len(f) == 5 and f[0] == "H":
            exh_ok += int(f[2]); exh_ne += int(f[3]); exh_err += int(f[4])
        if m != i:
            bad_blocks.append(k)
    for k in bad_blocks[:3]:
        _, alpha, n, start, cnt = xlines[k].split("\t")
        n, start, cnt = int(n), int(start), int(cnt)
        texts = []
        for idx in range(start, start + cnt):
            x, ds = idx, []
            for _ in range(n):
                ds.append(ALPHA[x % len(ALPHA)])
                x //= len(ALPHA)
            texts.append("".join(reversed(ds)))
        pl = ["P\t" + enc_str(t) for t in texts]
        pm, pi = ck.model(pl), ck.impl(pl)
        shown = 0
        for t, w, m, i in zip(texts, pl, pm, pi):
            mm, ss, ixr = (m.split("\t") + ["", ""])[:3]
            if mm != i or ss != i or ixr != i:
                report("exhaustive small text: model-vs-implementation", t, w, mm, ss, i, {"index_model": ixr})
                shown += 1
                if shown >= 2:
                    break
        if shown == 0:
            report("exhaustive block digest differs but no single text does (harness/driver defect?)", xlines[k], xlines[k], xm[k], "", xi[k])

    # ---- (b),(c) individual texts -------------------------------------------------------------------
    cases = []      # (text, tag, expected or None)
    for fn in sorted(glob.glob(os.path.join(vlib.ROOT, "corpus", "C08", "*.cases"))):
        for l in open(fn):
            l = l.rstrip("\n")
            if l.startswith("P\t"):
                cases.append((dec_str(l.split("\t")[1]), "corpus", None))
    if ck.replay:
        try:
            cases.append((json.load(open(ck.replay))["text"], "replay", None))
        except (OSError, KeyError, ValueError):
            pass
    for t in ws_cases:
        cases.append((t, "ws-table", None))
    n_rand = 40000 if thorough else 6000
    for _ in range(n_rand):
        cases.append((g_unicode(rng, rng.randint(0, 40)), "unicode", None))
    for _ in range(n_rand):
        cases.append((g_syntax(rng, rng.randint(max_len + 1, 60)), "syntax", None))
    for _ in range(60 if thorough else 12):
        l = g_long(rng)
        cases.append((l, "long", None))
        cases.append((join_eols(rng, [g_good(rng), l, g_good(rng)]), "long", None))
    for _ in range(n_rand // 4):
        ls = [g_good(rng) for _ in range(rng.randint(0, 12))]
        ls = [l for l in ls if "\n" not in l]
        cases.append((join_eols(rng, ls, rng.choice([None, None, "\n", "\r\n"])), "good-script", None))
    # bare CR, LF CR, blank lines, final-terminator variants of the same lines
    for _ in range(n_rand // 10):
        ls = [g_good(rng).replace("\n", " ") for _ in range(rng.randint(1, 5))]
        for e in ["\n", "\r\n", "\r", "\n\r", "\n\n", "\r\n\r\n", "\r\r\n"]:
            cases.append((e.join(ls), "eol-mix", None))
            cases.append((e.join(ls) + e, "eol-mix", None))
    # one malformed line at every position of a well-formed script
    classes_seen = {}
    for _ in range(3000 if thorough else 500):
        good = [g_good(rng).replace("\n", " ") for _ in range(rng.randint(0, 6))]
        bad, kind, cls = g_bad(rng)
        classes_seen[cls] = classes_seen.get(cls, 0) + 1
        for k in range(len(good) + 1):
            ls = good[:k] + [bad] + good[k:]
            if rng.random() < 0.2:
                ls.append(g_bad(rng)[0])          # a second malformed line later: the first one wins
            cases.append((join_eols(rng, ls, rng.choice([None, "\n", "\r\n"])), "planted:" + cls, "ERR %s %d" % (kind, k + 1)))

    # very long inputs: implementation only, expectation known by construction
    huge = huge_cases(rng, thorough)
    hi = ck.impl(["P\t" + enc_str(t) for (_, _, t, _) in huge])
    for (k, n, t, exp), i in zip(huge, hi):
        if i != exp:
            report("very long input: expected-vs-implementation", t[:300] + "...(%d characters)" % len(t), "HUGE\t%d\t%d" % (k, n),
                   "(not run)", exp[:300], i[:300], {"length": len(t), "huge_family": [k, n],
                                                     "replay_cmd": "bin/vcheck C08 --replay <this file>"})

    # (d) members of the error classes of C08_errors, rendered by the extracted render_bad, planted
    specs = [g_bad_spec(rng) for _ in range(12000 if thorough else 2500)]
    bo = ck.model(specs)
    class_members = {"generated": len(specs), "valid": 0}
    for sp_, o in zip(specs, bo):
        f = o.split("\t")
        if len(f) != 3:
            ck.broken.append("driver (B case): " + o[:100])
            continue
        if f[0] != "V1":
            continue
        class_members["valid"] += 1
        class_members[f[2]] = class_members.get(f[2], 0) + 1
        bad = dec_str(f[1])
        good = [g_good(rng).replace("\n", " ") for _ in range(rng.randint(0, 4))]
        k = rng.randint(0, len(good))
        ls = good[:k] + [bad] + good[k:]
        style = rng.choice(["\n", "\r\n", None])
        cases.append((join_eols(rng, ls, style), "class-member:" + sp_.split("\t")[3], "ERR %s %d" % (f[2], k + 1)))

    plines = ["P\t" + enc_str(t) for (t, _, _) in cases]
    pm = ck.model(plines)
    pi = ck.impl(plines)
    dist = {}
    tags = {}
    nlines_hist = {}
    nontriv = set()
    off_domain = 0
    for (t, tag, exp), w, m, i in zip(cases, plines, pm, pi):
        mm, ss, ixr = (m.split("\t") + ["", ""])[:3]
        if ixr != mm:
            ix_diff += 1
        tags[tag.split(":")[0]] = tags.get(tag.split(":")[0], 0) + 1
        if mm.startswith("ERR ReadFile"):
            off_domain += 1          # an include directive with arguments: outside the domain
            continue
        key = mm.split(" ")[1] if mm.startswith("ERR") else "OK"
        dist[key] = dist.get(key, 0) + 1
        nl = min(t.count("\n") + 1, 20)
        nlines_hist[nl] = nlines_hist.get(nl, 0) + 1
        if nontrivial(mm):
            nontriv.add(t)
        if mm != i or ss != i or ixr != i:
            report("model-vs-implementation (%s)" % tag, t, w, mm, ss, i, {"index_model": ixr})
        elif exp is not None and i != exp:
            report("planted malformed line: expected-vs-implementation (%s)" % tag, t, w, mm, ss, i, {"expected": exp})

    ck.coverage.update({
        "evaluations": exh_total + len(cases) + len(huge),
        "distinct_nontrivial": exh_ne + exh_err + len(nontriv),
        "rule": "every text of length <= %d over the 16 syntax characters %r (exhaustive, compared by block digests of the "
                "canonical result lines), plus random Unicode texts, syntax-dense texts of length %d..60, long lines "
                "(800-9,000 characters through the model; 20,000-600,000 characters on the implementation only with the expected result known by construction), LF/CRLF/bare-CR mixes, well-formed scripts, and one malformed line of each class "
                "planted at every position of well-formed scripts (expected kind and line computed independently). Compared: "
                "instruction list (line, source, type, label, output, command, arguments) or (error kind, line). "
                "Non-trivial = distinct text whose result is an error or contains a non-empty instruction; counted from the "
                "digest counters for the exhaustive part and as a set for the rest" % (max_len, ALPHA, max_len + 1),
        "exhaustive": True,
        "exhaustive_part": {"texts": exh_total, "accepted": exh_ok, "accepted_with_nonempty_instruction": exh_ne, "rejected": exh_err,
                            "blocks": len(xlines), "blocks_differing": len(bad_blocks)},
        "individual_cases": len(cases),
        "very_long_inputs(implementation only, expectation by construction)": {"cases": len(huge), "max_characters": max(len(t) for _, _, t, _ in huge)},
        "case_kinds": tags,
        "result_distribution": dist,
        "lines_per_text_histogram(capped at 20)": nlines_hist,
        "planted_classes": classes_seen,
        "class_members(rendered by the extracted render_bad; valid = extracted valid_bad)": class_members,
        "off_domain_skipped": off_domain,
        "samples": [cases[len(cases) // 7][0][:120], cases[len(cases) // 2][0][:120], cases[-1][0][:120]],
    })
    ck.obligations.append("extracted index model (ParserIx) = extracted suffix model (Parser) on every evaluated text (sanity of C08_refine)")
    if ix_diff == 0:
        ck.discharged.append("index model = suffix model on all evaluated texts")
    else:
        ck.broken.append("index model differs from suffix model on %d evaluated texts" % ix_diff)
    ck.coverage["index_model_disagreements"] = ix_diff
    ck.report_broken(found)
    ck.assumptions += [
        "include directives with arguments are outside the domain (they read files); the model's include handler refuses them",
        "str::lines and str::trim are modelled (split after LF, strip one CR; White_Space table) and covered by the correspondence run; "
        "the White_Space table is compared with char::is_whitespace for every scalar value on every run",
        "the `!print` pre-processor command's output is not observed (the harness points fd 1 at /dev/null)",
        "memory exhaustion on huge inputs is outside the model",
    ]
